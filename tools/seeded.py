#!/usr/bin/env python3
"""Confirm and evaluate an independently written property-breaking change.

usage: tools/seeded.py <prop> <worktree> <k> [--props C10,C01] [--name label]
  1. confirm in the scratch worktree: patch applies, test suite unchanged (143 stable tests pass), demo exits 1 with the
     patch and 0 without it;
  2. store it as /verif/seeded/<prop>-<label>/ (patch.diff, demo.py, meta.json);
  3. apply it to /repo, run ./check for the listed properties, undo it (git checkout -- .), record the outcome in meta.json.
"""
import json
import os
import shutil
import subprocess
import sys
import xml.etree.ElementTree as ET

VERIF = os.path.dirname(os.path.dirname(os.path.abspath(__file__)))


def sh(cmd, cwd=None, env=None, timeout=3600):
    return subprocess.run(cmd, shell=True, cwd=cwd, env=env, capture_output=True, text=True, timeout=timeout)


def suite(wt):
    b = json.load(open("/root/.vp/BASELINE.json"))
    xml = os.path.join(wt, "out", "junit.xml")
    env = dict(os.environ, PYTHONPATH=os.path.join(wt, "src"))
    sh(f"/venv/bin/python -m pytest -q -p no:cacheprovider --timeout=900 --continue-on-collection-errors --junitxml={xml} tests", cwd=wt, env=env)
    passed = set()
    for tc in ET.parse(xml).getroot().iter("testcase"):
        if not any(ch.tag in ("failure", "error", "skipped") for ch in tc):
            passed.add(f"{tc.get('classname')}::{tc.get('name')}")
    os.remove(xml)
    return [t for t in b["stable_pass"] if t not in passed]


def main():
    prop, wt, k = sys.argv[1], sys.argv[2], sys.argv[3]
    props = [prop]
    label = f"{k}"
    for i, a in enumerate(sys.argv):
        if a == "--props":
            props = sys.argv[i + 1].split(",")
        if a == "--name":
            label = sys.argv[i + 1]
    patch = os.path.join(wt, "out", f"patch{k}.diff")
    demo = os.path.join(wt, "out", f"demo{k}.py")
    env = dict(os.environ, PYTHONPATH=os.path.join(wt, "src"))
    meta = {"property": prop, "source": "independent sub-agent given only the property text and a scratch worktree",
            "ran": []}
    sh("git checkout -- .", cwd=wt)
    r = sh(f"git apply {patch}", cwd=wt)
    if r.returncode != 0:
        print("patch does not apply:", r.stderr)
        sys.exit(2)
    missing = suite(wt)
    d1 = sh(f"/venv/bin/python {demo}", cwd=wt, env=env, timeout=900)
    for _retry in range(3):
        if d1.returncode != 134:        # SIGABRT at interpreter shutdown (pyarrow worker threads): not a verdict of the demo, re-run
            break
        d1 = sh(f"/venv/bin/python {demo}", cwd=wt, env=env, timeout=900)
    sh("git checkout -- .", cwd=wt)
    d0 = sh(f"/venv/bin/python {demo}", cwd=wt, env=env, timeout=900)
    meta["ran"].append(f"suite with patch: {len(missing)} of 143 stable tests missing {missing[:3]}")
    meta["ran"].append(f"demo with patch: exit {d1.returncode}; demo without: exit {d0.returncode}")
    meta["demo_output_with_patch"] = (d1.stdout + d1.stderr)[-600:]
    confirmed = (not missing) and d1.returncode == 1 and d0.returncode == 0
    meta["confirmed"] = confirmed
    print(f"confirm: suite_missing={len(missing)} demo_with={d1.returncode} demo_without={d0.returncode} -> {'CONFIRMED' if confirmed else 'REJECTED'}")
    if not confirmed:
        print((d1.stdout + d1.stderr)[-800:])
        sys.exit(3)
    dst = os.path.join(VERIF, "seeded", f"{prop}-{label}")
    os.makedirs(dst, exist_ok=True)
    shutil.copy(patch, os.path.join(dst, "patch.diff"))
    shutil.copy(demo, os.path.join(dst, "demo.py"))
    notes = os.path.join(wt, "out", "notes.md")
    if os.path.exists(notes):
        shutil.copy(notes, os.path.join(dst, "agent_notes.md"))
    # evaluate against /repo
    st = sh("git status --porcelain", cwd="/repo").stdout.strip()
    if st:
        print("/repo not clean, refusing:", st)
        sys.exit(4)
    r = sh(f"git apply {os.path.join(dst, 'patch.diff')}", cwd="/repo")
    if r.returncode != 0:
        print("patch does not apply to /repo:", r.stderr)
        sys.exit(5)
    results = {}
    try:
        for p in props:
            c = sh(f"./check {p} --tier quick", cwd=VERIF, timeout=7200)
            lines = [l for l in c.stdout.splitlines() if l.startswith(("VIOLATION", "UNDECIDED", "CHECKER"))]
            results[p] = {"exit": c.returncode, "lines": [l[:300] for l in lines[:6]]}
            print(f"check {p}: exit={c.returncode}", (lines[0][:200] if lines else ""))
    finally:
        sh("git checkout -- .", cwd="/repo")
    # restore evidence of the unchanged tree
    for p in props:
        sh(f"./check {p} --tier quick", cwd=VERIF, timeout=7200)
    meta["checks"] = results
    meta["detected_by"] = [p for p, r in results.items() if r["exit"] == 1]
    json.dump(meta, open(os.path.join(dst, "meta.json"), "w"), indent=1)
    print("stored", dst, "detected_by", meta["detected_by"])


if __name__ == "__main__":
    main()
