#!/usr/bin/env python3
"""Regenerates MANIFEST.json from the table below (claimed checks) + properties.jsonl (everything else -> not_applicable)."""
import json
import os

HERE = os.path.dirname(os.path.dirname(os.path.abspath(__file__)))

TECH = ("contract-based deductive verification: sidecar contracts on the real functions, verification conditions "
        "generated from /repo's AST on every run by pyvc (own symbolic executor), discharged by z3 5.1, cvc5 1.4 for z3's unknowns")

CLAIMED = {
    # id: (level text, level note, design ref)
    "C20": ("Proof of per-function contracts: S3RangeFile.seek/tell/readinto/readall/_get_range against the spec file model "
            "(all sizes, positions, offsets, whence values, buffer lengths; unbounded), retry_with_backoff attempt counting by "
            "loop invariant, is_permanent_s3_error against the spec table, S3 key mapping / listing confinement / exists "
            "exactness as string VCs. Cross-backend equality over operation sequences is reduced to both backends refining "
            "one specification; the S3 side is proved here, the local side in C17/C16.",
            "Trusted: T-s3 (ranged GET returns exactly the requested slice; strong consistency), boto3 client behaviour, "
            "Python int = mathematical integer, logger calls and exception message formatting have no effect. "
            "with_s3_retry is applied at its proved contract inside _get_range.",
            "DESIGN.md 4/C20"),
    "C13": ("Proof that the pruning decision of filters._file_may_match is sound for every operator, for arbitrary bounds, "
            "literals and row values (NULL, NaN, +-inf included; kinds int, float, str, bool and the two mixed numeric pairs; "
            "unbounded number of conjuncts and IN-list length, by loop invariant and witness instantiation), that "
            "prune_files_by_bounds keeps exactly the may-match files and looks bounds up under the table schema's id for the "
            "column (ID-MAP), that _encode_bound/_decode_bound round-trip value and Python type for every supported bound type, and "
            "that _compute_column_bounds stores the column's min/max under its own field id. Lifting per-conjunct soundness to "
            "equality of pruned and unpruned results is a stated meta-argument over T-arrow distributivity. Also: bounds shapes (none, one "
            "side missing, statistics for other columns only), 32-bit float columns under IN (is_in rounds the value set to the column "
            "type: rounding as an uninterpreted function shared with the model of struct.pack/unpack), and the write path "
            "(write_data_file computes the statistics from the very records written; multi-batch appends by bounded scenario).",
            "Trusted: T-arrow comparison/min-max semantics (sampled against pyarrow by the replay scripts, not proved), Python "
            "float comparison = order of extended reals with NaN unordered, JSON and isoformat round trips, Avro map<string> "
            "round trip between create_manifest_file and read_manifest_file (T-codec). Mixed int/float pairs are proved under "
            "|int| <= 2^53 (pyarrow raises beyond). Bounded: none for SOUND; ID-MAP/BOUNDS are unbounded via accumulator rule.",
            "DESIGN.md 4/C13"),
    "C12": ("Proof of parse_filter_dict/_parse_op against an independent operator-spelling table (every dict entry shape, "
            "unbounded number of entries), of _build_condition against SQL three-valued semantics by symbolic evaluation of the "
            "built expression at an arbitrary row under T-arrow's Kleene algebra (all 10 operators x int/float/str/bool, NULL and "
            "NaN rows, NULL literals, IN/NOT IN lists of unbounded length with NULL members), and of the Kleene conjunction "
            "invariant of to_pyarrow_compute_expression. The 'identically in every scan API' part (single engine E used by all "
            "read paths, projection after filtering) is covered by the ENGINE units when present in the evidence.",
            "Trusted: T-arrow Kleene/is_in/is_valid semantics and Table.filter (assumed, sampled by replay scripts), str.lower as an "
            "uninterpreted function shared by code and specification, dict iteration order.",
            "DESIGN.md 4/C12"),
    "C10": ("Proof that _parse_hint_content is total over all byte strings and returns only names in the metadata-file language; "
            "that _read_version_hint/_current_version_info never raise because of pointer content and return the hinted version "
            "iff it parses and its target exists, else the recovery result; that _recover_version_from_files returns the highest "
            "version among metadata files directly in metadata/ (witness proof, unbounded listing) and None on listing failure; that "
            "initialize_table refuses any resolvable/recoverable table without writing, checks inside the lock, writes the metadata "
            "file before the pointer, uses create-if-absent on CAS backends and always releases the lock. RECOVER-COMMITTED "
            "(recovery never surfaces an uncommitted version) is refuted on this tree and carried as a known finding.",
            "Trusted: T-py string/int/regex theories (character classes from the running interpreter), T-store and T-lock action "
            "contracts, rule ALL-VISITED for completed for-loops. Bounded stand-in (not counted as proved): version(name)==v on an "
            "enumerated pointer grammar. Table.__init__/create_table/load_table level obligations are under C18.",
            "DESIGN.md 4/C10"),
    "C05": ("Proof of the sequential collector: _normalize_path maps both recorded spellings of every canonical name to itself for "
            "EVERY table-location string (NORM-AGREE) and never returns a leading slash; every delete issued by _gc_prefix is for the "
            "listed file under examination, whose normal form is outside the reachable/protected set and whose mtime is older than the "
            "grace period (DELETE-SAFE), and such files are in fact deleted (DELETE-LIVE); collect hands _gc_prefix sets that contain "
            "the normal forms of the manifest list, manifests and data files of EVERY retained snapshot (witness chain through five "
            "loops with inductive invariants), united with the in-flight protection, with one grace period; marker handling keeps "
            "fresh/un-stat-able/undeletable markers protecting. Histories and location spellings are covered by the universally "
            "quantified table_path and by invariant preservation, not by enumeration.",
            "Trusted: T-store actions, T-codec manifest readers, NORM treated as the proved contract of _normalize_path inside the "
            "other units, rule ALL-VISITED, real-valued time arithmetic. Symlinked roots are covered through the listing contract "
            "(names relative to the canonical root, C17). Transaction-side marker ordering (PROTECT) is part of C06/C04.",
            "DESIGN.md 4/C05"),
    "C07": ("Proof, with a fault edge on every storage call and reader of a collection run: any failure while computing reachability "
            "(metadata read, exists, manifest-list or manifest read or missing file, for every retained snapshot) makes collect raise "
            "before anything is deleted or swept; a failing listing raises GarbageCollectionAborted; a listing with an escaping entry "
            "raises with no file of that listing deleted; a marker that cannot be listed/read raises, one that cannot be stat'ed or "
            "deleted keeps protecting. Single faults exhaustively, at every call site, for unbounded listings and snapshot counts.",
            "Trusted: T-store fault model (an action raises before its effect), T-codec readers raise on bytes they cannot parse. "
            "Four defects found by these obligations were repaired in /repo (688103c, dcaf38a) - see known_findings.json.",
            "DESIGN.md 4/C07"),
    "C14": ("Proof with a fault edge on every storage action, manifest reader and parquet parser of the read path: every read API "
            "(_get_all_data_files, _scan_table sequential and parallel, scan, scan_batches, _iter_file_batches, iter_records, row_count, "
            "_read_datafile_table) raises whenever something on its path raises or a referenced file is missing; [] is returned only "
            "for an empty table (dangling current id, missing manifest list or manifest raise); every manifest of the list and every "
            "file of the listing is read (loop invariants, no skip on error); with verification on, the rows are parsed from the very "
            "bytes whose SHA-256 was compared, a mismatch raises CorruptDataError, and the default is ON.",
            "Trusted: T-store fault model, T-arrow (parsers raise on bytes that are not parquet), T-codec (fastavro / json raise on bytes they cannot parse; the readers' own Avro-then-JSON fallback is verified by the "
            "FALLBACK units: a normal return means the Avro reader delivered every record or the bytes are a legacy JSON document "
            "that carries the entry list - a fail-open found there, '{}' read as an empty manifest list, was repaired in /repo), T-hash (SHA-256 injective). Which exceptions fastavro/pyarrow raise for which damage is assumed.",
            "DESIGN.md 4/C14"),
    "C02": ("Proof, under a rely condition in which other agents may advance the pointer between any two metadata reads, that each "
            "read API obtains its file list from exactly ONE metadata read (one pointer read -> immutable metadata -> immutable "
            "manifests), reads every file of that list once (path de-duplication), and applies one filter engine. A two-read race "
            "found by this obligation was repaired in /repo (53d4131). Atomic visibility of multi-operation transactions (one commit, one flip) and monotonicity of successive reads (lemma MONO over the WRITABLE/LIN obligations of MetadataManager.commit, both re-run here) are discharged in this run.",
            "Trusted: R_immut (files of retained snapshots are immutable, uuid-named files never reused - the guarantee side is C09), "
            "T-store, T-arrow. Real parallel execution is represented by environment steps at metadata reads only (reads of immutable "
            "files commute with every other agent's action).",
            "DESIGN.md 4/C02"),
    "C17": ("Proof that LocalStorageBackend._resolve_path returns a canonical path inside the canonical root or raises ValueError for "
            "every base path, path string and symlink layout (realpath treated as an arbitrary function into normalised symlink-free "
            "paths); that each public method resolves its argument first and hands the OS only inside paths, derived paths included "
            "(dirname, temp names, walk results), rejecting escapes before any OS call; that list_files returns root-relative names; "
            "that DataFileManager._get_arrow_path / open_parquet_source admit only inside paths.",
            "Trusted: T-os path algebra axioms (validated only by sampling), A-toctou. DataFileWriter temp-file placement and FileLock "
            "paths are covered through the resolved-path contract of their callers.",
            "DESIGN.md 4/C17"),
    "C04": ("Proof of exceptional postconditions on every fault edge and every asynchronous-interrupt edge (a BaseException "
            "injected at each statement boundary of Transaction.commit): error classification at the commit point "
            "(_write_hint_at_commit_point on local / CAS-S3 / plain-S3 backends), Transaction.commit returns True only if committed, a "
            "storage or conflict raise implies not committed and a rollback, an ambiguous error keeps all written files, nothing "
            "fallible runs after the commit point, _rollback deletes only files and markers the transaction wrote and never raises, "
            "_finish_committed removes only markers and never raises, and the object invariant 'a later rollback()/__exit__ can "
            "delete written files only if the pointer was certainly not flipped' holds at EVERY exit of commit(). MetadataManager.commit "
            "refuses (ACCEPT) only for a stale base, a lost lock, a lost pointer race, a foreign table uuid or an injected fault; the "
            "retry loop's invariant includes the armed commit-point guard; S3StorageBackend.write_file_cas issues exactly one conditional "
            "PUT, never retried (CAS-MAP, shared with C20).",
            "Trusted: T-store fault model; MetadataManager.commit / _commit_file_ops applied at the contract 'returns => flipped "
            "once, ConcurrentModificationException/other Exception => not flipped, AmbiguousCommitError => unknown' (proved for "
            "MetadataManager.commit in C01/C08). Interrupts are modelled at statement boundaries of commit() itself, not inside "
            "callees. Double faults only where a handler calls storage (cleanup paths, max_faults=2).",
            "DESIGN.md 4/C04"),
    "C08": ("Proof of MetadataManager.commit under a rely condition in which the lock excludes NOBODY and any other agent may "
            "replace the pointer by conditional PUT at every action boundary: an acknowledged commit replaced exactly the pointer "
            "version whose metadata was validated (tag at landing == tag at the validation read), base carried the validated "
            "version's stamp, the new metadata file was written before the flip, at most one flip per call, a lost lock before the "
            "commit point gives ConcurrentModificationException and no flip (FENCE), the conditional write uses the caller's etag "
            "(ETAG-SRC) and maps precondition failures to conflicts, everything else to ambiguous (CAS-MAP).",
            "Trusted: T-s3 conditional PUT evaluated atomically at landing time (modelled as the instant of the call; an in-flight "
            "delay is covered by the environment steps before it), tags grow with every write and determine the content, nobody "
            "deletes the pointer. Lease arithmetic of the lock itself is C19.",
            "DESIGN.md 4/C08"),
    "C01": ("Proof of the per-call linearisation contract of MetadataManager.commit under rely/guarantee (local: other agents never "
            "write the pointer while the flock is held, and every pointer access of commit lies inside the lock - GUAR-lock; CAS: "
            "no exclusion at all): acknowledged => exactly one pointer flip, the replaced pointer is the validated one, base carries "
            "the validated version's stamp, stamps strictly increase along the chain (also with a frozen clock), a non-ambiguous "
            "raise leaves the pointer unwritten, the lock is released on every path; and of DERIVE/RETRY: every attempt of "
            "Transaction.commit re-reads its base, _commit_file_ops derives snapshot id, parent (= base.current), sequence number "
            "(= base.last+1), carried-over/rewritten/new manifests from that same base object and commits against it, all "
            "operations of a transaction go into one commit. Serializability of whole histories: lemma SER is discharged as an SMT obligation whose hypotheses are the named LIN/STAMP/DERIVE/WRITABLE obligations of this run (the runner refuses the lemma when one of them is missing or undecided).",
            "Trusted: T-flock (kernel lock), T-store, A-uuid, RLock for shared handles; lemma SER is proved over an abstract vocabulary (flip index, version ids, stamps); that its hypothesis formulas faithfully restate the cited obligations is read, not proved; real parallel execution is represented by environment steps at "
            "storage-action granularity; exhaustion of 50 retries is covered only as 'raises and nothing reflected'.",
            "DESIGN.md 4/C01"),
    "C19": ("Proof of the action contracts of both lock implementations: FileLock._try_acquire_once/acquire return True only after a "
            "successful non-blocking flock on a kept-open descriptor of the persistent lock file, a failed attempt leaks nothing, "
            "TimeoutError fires only at/after the deadline with nothing held and every waiting round rechecks the deadline (loop "
            "invariant), release unlocks+closes and never unlinks in flock mode, is_held reflects the held descriptor; the providers' acquire() "
            "(called as a statement by commit and table creation) returns only while holding the lock and a blocked one fails with "
            "TimeoutError after a clock reading at/past the deadline (PROVIDER units, loop invariant for the S3 retry loop); for the S3 "
            "lock, create only by If-None-Match, takeover only after a HEAD showing age > lease and only by If-Match on that HEAD's "
            "etag, renewal by If-Match on the own etag with loss detection, is_held True only for own content read in that very "
            "call (under an environment that may change the lock object at every request boundary); release deletes only right after a "
            "GET that returned its own id. REL-S3 (the object still carries the own id at the instant of the DELETE) is refuted - the "
            "GET/DELETE race - and carried as a known finding.",
            "Trusted: T-flock (kernel), T-s3 conditional PUT, A-clock (S3 LastModified vs local clock), lemma EXCL discharged as SMT obligations over the action contracts (one owner per instant, takeover only of a lapsed un-renewed lease, superseded holder observes the loss); T-s3 ETag = function of the content; real multi-process stress is outside this technique; the polling provider (no conditional "
            "writes) is excluded by the property itself.",
            "DESIGN.md 4/C19"),
    "C06": ("Rely/guarantee decomposition, each side proved per function: (GUAR-tx) Transaction._register_inflight, append_data and "
            "FileManager.create_manifest_file/create_manifest_list_file write the marker before the file it protects (g1, event order "
            "on every path incl. fault edges); Transaction.commit touches storage only through _commit_file_ops/_finish_committed/"
            "_rollback and carries markers and written files unchanged into every retry attempt (loop invariant), _finish_committed "
            "removes markers only after the commit point, _rollback removes only own files and markers (g2); (GC-RG) "
            "GarbageCollector.collect observes the markers no later than the metadata read that feeds reachability, passes the union "
            "of reachable and protected sets to both delete passes, sweeps abandoned markers only after reachability succeeded; "
            "_load_inflight_protection puts every fresh listed marker's target into the protection set and deletes nothing. "
            "The read-order obligation was refuted on the pinned tree (stale metadata + already-removed marker => committed file "
            "deleted), reproduced natively and repaired in /repo (84ee3f9). The step from these contracts to 'no interleaving deletes a referenced file' is lemma STABLE, discharged as an SMT obligation over instants (marker written / file written / commit point / marker removed; markers observed / metadata read / delete) whose hypotheses are the named obligations of this run; a sanity obligation shows the conclusion fails with the two collector reads swapped. Interleavings are not enumerated.",
            "Trusted: faithful restatement of the cited obligations inside lemma STABLE, A-clock (grace period exceeds the run; collector and writers agree on mtimes; transactions "
            "older than the 24 h abandonment timeout are out of scope), T-store, T-codec. Bounded stand-in shipped as replay (not "
            "counted as proved): one writer commit/rollback scheduled before each of the collector's storage operations; collector "
            "run inside a writer's conflict back-off.",
            "DESIGN.md 4/C06"),
    "C09": ("Proof of the lookup and repointing contracts over snapshot lists of unbounded length (T-forest heap/list theory, witness "
            "instantiation): get_snapshot_by_id returns exactly the retained snapshot with that id; both get_all_snapshots return the list of the metadata read by one refresh; "
            "get_snapshot_by_timestamp "
            "returns the most recently committed retained snapshot not newer than the requested time (loop invariant over the "
            "stable sort, under WF's TS-MONO clause which create_snapshot is proved to maintain); _most_recent_snapshot_id / "
            "delete_snapshot repoint the table to the most recently committed survivor. Immutability of retained content is "
            "decomposed into per-function contracts proved here or re-run from C01/C04/C05: WRITE-ONCE (manifests and manifest "
            "lists get names with a fresh uuid token), DELETE-EXACT (deletes rewrite manifests, never edit them), DEL-OWN "
            "(rollback deletes only the transaction's own files), and the collector's DELETE-SAFE/REACH-ALL (every retained "
            "snapshot's files are in the reachable set). BY-TS failed on the pinned tree for clocks that step back between "
            "commits; reproduced natively and repaired in /repo (769b67c).",
            "Trusted: faithful restatement inside lemma IMMUT (discharged as SMT obligations: creating a never-used name or deleting a file outside the retained reachable set changes no retained file), A-uuid, T-forest list semantics, T-codec. 'Identical row content after every step' is not executed "
            "symbolically; the thorough tier's history scenarios (bounded) re-read snapshots on the real code.",
            "DESIGN.md 4/C09"),
    "C15": ("Proof that every metadata mutator preserves the well-formedness invariant WF over snapshot lists and logs of unbounded "
            "length: repoint_parents_to_surviving_ancestors leaves every kept snapshot with parent None/-1 or a KEPT true "
            "ancestor (ghost ancestry relation, nested loop invariants); _apply_retention, the expire mutator, delete_snapshot "
            "and create_snapshot each map WF(base) to WF(new): current retained (never expired / dropped), parents retained true "
            "ancestors, sequence numbers strictly increasing in commit order and bounded by a never-decreasing "
            "last_sequence_number, timestamps non-decreasing, snapshot_log = exactly the retained snapshots in commit order, the "
            "cached base object never mutated; _append_metadata_log appends the superseded version once with its own timestamp and "
            "trims only the oldest entries to min(old+1, bound); create_manifest_file / read_manifest_file carry the original "
            "adding snapshot and sequence number of files through manifest rewrites (CARRY), and _commit_file_ops hands survivors to the "
            "rewrite with the values they were read with (element-wise loop rule); _commit_file_ops removes exactly "
            "the named files (DELETE-EXACT). Callees are applied at their proved contracts (REPOINT, shrink contracts).",
            "Trusted: T-forest (stable sorted, comprehension order, slicing, del, deepcopy), IDS-UNIQUE/A-uuid, quantified WF "
            "clauses handled by witness instantiation (sound, possibly incomplete), int() grammar theory, T-codec between "
            "manifest writer and reader, termination of the ancestor walk. Existence of the files named by metadata_log is "
            "StoreInv (nothing deletes v*.metadata.json; checked only by the bounded replay).",
            "DESIGN.md 4/C15"),
    "C18": ("Proof of the per-function contracts behind idempotent creation: MetadataManager.initialize_table (local and CAS-S3) "
            "refuses, inside the metadata lock and without writing, whenever a version is resolvable or recoverable, writes the "
            "metadata file before the pointer, uses create-if-absent on CAS backends and maps a lost race to TableExistsError; "
            "Table.__init__ initialises iff asked to create and one metadata read found nothing, and never writes by itself; "
            "Table._initialize_table hands exactly one freshly built metadata (schemas == [supplied schema], current id == its "
            "id) to initialize_table, swallows TableExistsError only and lets storage failures out; _resolve_table_schema returns "
            "the persisted current non-empty schema (loop invariants, unbounded schema list); append_data without a schema "
            "argument writes with the resolved schema and raises ValueError before touching storage when there is none. "
            "'Exactly one initialisation among concurrent creators' is lemma ONE-INIT, discharged as SMT obligations (local: non-overlapping lock sections + check inside the lock; CAS: create-if-absent) over the cited NO-REINIT obligations; interleavings are not enumerated.",
            "Trusted: faithful restatement inside lemma ONE-INIT, T-flock / T-s3 create-if-absent, A-ctor (manager constructors do not touch "
            "storage), T-store. The thorough tier's scenario (bounded) races six creators and re-creates over lost / garbage "
            "pointers on the real code.",
            "DESIGN.md 4/C18"),
    "C11": ("Proof of the contracts that decide WHICH appends are accepted and with what Arrow schema they are written: "
            "_schema_signature yields one entry per field, in field order, carrying id, name, type and nullability (loop "
            "invariant, unbounded field list); _validate_schema_against_table accepts an argument iff its signature equals the "
            "persisted schema's and touches no storage; create_arrow_schema returns, also on cache hits, a schema built from "
            "fields equal to the argument's (two-call relational harness, cache key must determine the fields), one Arrow field "
            "per schema field with its name/type and nullable = not required; _iceberg_type_to_arrow maps every primitive type name, "
            "list<...> and unknown names to the Arrow type of an independent specification table (TYPEMAP); _validate_file_schema accepts a parquet file iff "
            "its footer schema equals the table's and rejects unverifiable footers; append_data: rejected appends queue nothing "
            "and touch storage only behind the marker, no schema at all raises before writing. Three defects found by these "
            "obligations / the bounded scenario were repaired in /repo (1a3ee5b, bebf98f, 3d202df); schema-less tables accepting "
            "diverging explicit schemas is carried as a known finding.",
            "Trusted: T-arrow value coercion and Schema.equals (the assumption 'pyarrow raises on unrepresentable values' was "
            "found FALSE for fractional floats into integer columns by the scenario and is now enforced in "
            "validate_records_strict), json.dumps injective on field lists, T-store. BOUNDED, not counted as proved: "
            "validate_records_strict on a one-field schema and a single-key record (all values symbolic); value classes x "
            "column types x schema-argument variants x fresh/reused handles in the thorough-tier scenario.",
            "DESIGN.md 4/C11"),
    "C03": ("Decomposition into per-function ordering and frame contracts that hold at every storage-action boundary (a crash is a "
            "prefix of the action trace), each proved on the real code: ATOMIC-FILE (write_file / DataFileWriter: temp name, fsync, "
            "rename - a prefix leaves no file or the complete file; the target itself is never unlinked), ACCEPT (commit refuses only for a stale "
            "base, a lost lock, a lost pointer race or an injected environment fault - never because of a dead writer's leftovers), ORDER (metadata file and everything reachable from it "
            "written before the pointer write, which is the only action that changes what readers resolve), NO-CLOBBER (before "
            "the pointer write only fresh uuid-named files are created, behind their markers), POST-CP (after it only markers are "
            "removed), GC-PREFIX (every single delete of a collection is for a file outside every retained snapshot's reachable "
            "set and the protection set, so every prefix of a collection is safe), RECOVER/INIT (reopening resolves the pointer "
            "or recovers among metadata-file names only; creation writes the metadata before the pointer). Lemma CRASH (SMT obligations: the store invariant Reach(pointer) subset Files is preserved by every action kind under the cited contracts) composes them into 'pre- or post-state, post only if the pointer was advanced'. The case 'orphan "
            "version + lost pointer' is the known finding shared with C10.",
            "Trusted: faithful restatement of the cited obligations inside lemma CRASH, T-os (rename atomic, os.rename = os.replace on POSIX; fsynced-then-renamed file complete), T-store, T-codec; power loss needs "
            "C16's durable reading of fsync in addition. BOUNDED, not counted as proved: fork-and-kill sweep - a child process "
            "runs create / append / multi-op / file delete / expire / delete-snapshot / collection and is killed with os._exit at "
            "its k-th storage system call for every k (380 crash points), the parent checks pre/post state, readability of every "
            "retained snapshot, a follow-up append and a collection (replay of every C03 unit, thorough tier).",
            "DESIGN.md 4/C03"),
    "C16": ("Proof over the trace of T-os calls issued by the real code: LocalStorageBackend.write_file writes the whole content to a "
            "temp file in the target's directory, fsyncs it after the last write and before os.replace, fsyncs the directory after, and "
            "an exception implies the rename did not happen, the target itself is never unlinked; DataFileWriter.open/close do the same for parquet files (fsync of the "
            "finished temp file before the rename, directory fsync after); MetadataManager.commit writes the metadata file before the "
            "pointer and _commit_file_ops commits the snapshot after every manifest and the manifest list were written.",
            "Trusted: T-os page-cache/durable reading of write/fsync/replace, A-write, a swallowed directory-fsync OSError = "
            "'unsupported', T-arrow (ParquetWriter.close finishes the file), S3 durability = T-s3; durability of caller-provided files "
            "(append_files) is outside the library. The step from the proved call ordering to 'a power loss never leaves a final name pointing at incomplete content, and a durable pointer names a durable complete metadata file' is lemma POWER-LOSS, discharged as SMT obligations over a two-level (page cache / disk) model of names and contents, with a sanity obligation that rename-before-fsync breaks it.",
            "DESIGN.md 4/C16"),
}

NA_REASON = {
}


def main():
    props = [json.loads(l) for l in open(os.path.join(HERE, "properties.jsonl")) if l.strip()]
    checks = []
    na = []
    for p in props:
        pid = p["id"]
        if pid in CLAIMED:
            text, note, ref = CLAIMED[pid]
            checks.append({
                "property_id": pid,
                "quick_cmd": f"./check {pid} --tier quick",
                "thorough_cmd": f"./check {pid} --tier thorough",
                "evidence_file": f"/verif/evidence/{pid}.json",
                "replay_cmd_template": f"./check {pid} --replay {{path}}",
                "engine": "pyvc",
                "level_claimed": {"category": "proof", "text": text, "design_ref": ref},
                "level_note": note,
                "technique": TECH,
            })
        else:
            na.append({"property_id": pid, "reason": NA_REASON.get(
                pid, "contracts for this property are not built yet (DESIGN.md 6 build order); not decided by any other technique")})
    m = {
        "version": 1,
        "setup_cmd": "./setup.sh",
        "hooks": {
            "guard": "DATASHARD_VERIF",
            "enable": "no hooks: contracts are sidecars under /verif/contracts, /repo is read through ast.parse only",
            "baseline_off_cmd": "cd /repo && /venv/bin/python -m pytest -ra -q -p no:cacheprovider --timeout=900 --continue-on-collection-errors",
            "source_commits": [],
            "add_only": True,
        },
        "engines": [{
            "name": "pyvc",
            "path": "/verif/pyvc",
            "serves_properties": sorted(CLAIMED),
            "kind_free_text": "AST-to-SMT verification-condition generator (path-at-a-time symbolic execution of the real "
                              "function bodies against sidecar contracts; loops cut by inductive invariants; callee contracts "
                              "applied modularly) with z3 and cvc5 back ends and native replay of counter-models",
        }],
        "checks": checks,
        "not_applicable": na,
        "notes": "exit 0 held (KNOWN-FINDING lines allowed) / 1 VIOLATION / 2 undecided / 3 checker fault. See DESIGN.md.",
    }
    with open(os.path.join(HERE, "MANIFEST.json"), "w") as f:
        json.dump(m, f, indent=1)
    print("claimed:", sorted(CLAIMED), "not_applicable:", [x["property_id"] for x in na])


if __name__ == "__main__":
    main()
