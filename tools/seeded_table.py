#!/usr/bin/env python3
"""Rewrite the table of independent changes in DESIGN.md (between the markers <!-- seeded-table:begin/end -->) from
seeded/*/meta.json as last written by tools/seeded.py / tools/reseed.py.
usage: tools/seeded_table.py"""
import json
import os
import re

VERIF = os.path.dirname(os.path.dirname(os.path.abspath(__file__)))


def main():
    rows = []
    for d in sorted(os.listdir(os.path.join(VERIF, "seeded"))):
        mp = os.path.join(VERIF, "seeded", d, "meta.json")
        if not os.path.exists(mp):
            continue
        m = json.load(open(mp))
        det = m.get("detected_by") or []
        und = [p for p, c in m.get("checks", {}).items() if c.get("exit") == 2]
        rows.append((d, ", ".join(det) if det else ("UNDECIDED: " + ", ".join(und) if und else "MISSED")))
    n_det = sum(1 for r in rows if not r[1].startswith(("MISSED", "UNDECIDED")))
    out = [f"{n_det} of {len(rows)} are reported (exit 1) by at least one check:", "", "| change | reported by |", "|---|---|"]
    out += [f"| `{a}` | {b} |" for a, b in rows]
    p = os.path.join(VERIF, "DESIGN.md")
    s = open(p).read()
    new = "<!-- seeded-table:begin -->\n" + "\n".join(out) + "\n<!-- seeded-table:end -->"
    if "<!-- seeded-table:begin -->" in s:
        s = re.sub(r"<!-- seeded-table:begin -->.*?<!-- seeded-table:end -->", lambda _m: new, s, flags=re.S)
    else:
        raise SystemExit("markers not found in DESIGN.md")
    open(p, "w").write(s)
    print(f"{n_det}/{len(rows)}")


if __name__ == "__main__":
    main()
