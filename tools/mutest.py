#!/usr/bin/env python3
"""Self-test: apply small source edits to a scratch copy of /repo/src/datashard (outside /repo and /verif),
run ./check <prop> against it (PYVC_REPO_SRC), report the exit code, remove the copy.

usage: tools/mutest.py mutants/<file>.json [name-filter]
file format: [{"name":..., "props":["C20"], "file":"storage_backend.py", "old":"...", "new":"...", "expect": 1|0}, ...]
expect 1 = property-breaking edit (must be reported), expect 0 = harmless refactoring (must stay green).
"""
import json
import os
import shutil
import subprocess
import sys
import tempfile

VERIF = os.path.dirname(os.path.dirname(os.path.abspath(__file__)))
SRC = "/repo/src/datashard"


def main():
    spec = json.load(open(sys.argv[1]))
    flt = sys.argv[2] if len(sys.argv) > 2 else ""
    bad = 0
    for m in spec:
        if flt and flt not in m["name"]:
            continue
        d = tempfile.mkdtemp(prefix="pyvc_mut_")
        try:
            dst = os.path.join(d, "datashard")
            shutil.copytree(SRC, dst)
            edits = m.get("edits") or [{"file": m["file"], "old": m["old"], "new": m["new"]}]
            for e in edits:
                p = os.path.join(dst, e["file"])
                s = open(p).read()
                if s.count(e["old"]) < 1:
                    print(f"!! {m['name']}: pattern not found in {e['file']}")
                    bad += 1
                    continue
                s = s.replace(e["old"], e["new"], 1 if not e.get("all") else -1)
                open(p, "w").write(s)
            for prop in m["props"]:
                env = dict(os.environ, PYVC_REPO_SRC=dst)
                r = subprocess.run([os.path.join(VERIF, "check"), prop, "--tier", m.get("tier", "quick")],
                                   capture_output=True, text=True, env=env, cwd=VERIF)
                lines = [l for l in r.stdout.splitlines() if l.startswith(("VIOLATION", "UNDECIDED", "CHECKER", "KNOWN"))]
                ok = (r.returncode == m.get("expect", 1))
                vio = [l for l in lines if l.startswith("VIOLATION")]
                replayed = sum(1 for l in vio if not l.rstrip().endswith("no-failing-input-found"))
                print(f"{'ok ' if ok else 'MISS'} {m['name']:<55} {prop} exit={r.returncode} expect={m.get('expect', 1)} "
                      f"violations={len(vio)} replayed-on-real-code={replayed} {(lines[0][:90] if lines else '')}")
                if not ok:
                    bad += 1
                    for l in lines[:6]:
                        print("      ", l[:200])
        finally:
            shutil.rmtree(d, ignore_errors=True)
    sys.exit(1 if bad else 0)


if __name__ == "__main__":
    main()
