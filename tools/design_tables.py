#!/usr/bin/env python3
"""Rewrite the per-property table of DESIGN.md 9.2 (between <!-- prop-table:begin/end -->) from evidence/*.json."""
import glob
import json
import os
import re

VERIF = os.path.dirname(os.path.dirname(os.path.abspath(__file__)))
rows = ["| id | units | obligations (distinct names) | paths | wall of the last quick run | known findings printed |", "|---|---|---|---|---|---|"]
for f in sorted(glob.glob(os.path.join(VERIF, "evidence", "C*.json"))):
    d = json.load(open(f))
    c = d["coverage"]
    rows.append(f"| {d['property_id']} | {len(c.get('units', []))} | {c['obligations']} | {c.get('paths', '')} | {d.get('wall_s', '')}s | {len(c.get('known_findings_hit', []))} |")
p = os.path.join(VERIF, "DESIGN.md")
s = open(p).read()
new = "<!-- prop-table:begin -->\n" + "\n".join(rows) + "\n<!-- prop-table:end -->"
assert "<!-- prop-table:begin -->" in s
s = re.sub(r"<!-- prop-table:begin -->.*?<!-- prop-table:end -->", lambda _m: new, s, flags=re.S)
open(p, "w").write(s)
print("\n".join(rows))
