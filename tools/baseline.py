#!/usr/bin/env python3
"""Runs the repository's pinned test command and compares with BASELINE.json's stable_pass list."""
import json, subprocess, sys, tempfile, os, xml.etree.ElementTree as ET
b = json.load(open("/root/.vp/BASELINE.json"))
fd, path = tempfile.mkstemp(suffix=".xml"); os.close(fd)
cmd = b["cmd"].replace("<file>", path)
r = subprocess.run(cmd, shell=True, capture_output=True, text=True)
passed = set()
for tc in ET.parse(path).getroot().iter("testcase"):
    if not any(ch.tag in ("failure", "error", "skipped") for ch in tc):
        passed.add(f"{tc.get('classname')}::{tc.get('name')}")
os.remove(path)
missing = [t for t in b["stable_pass"] if t not in passed]
print(f"stable_pass={len(b['stable_pass'])} passed_now={len(passed)} missing={len(missing)}")
for t in missing[:20]: print("  MISSING", t)
sys.exit(1 if missing else 0)
