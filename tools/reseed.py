#!/usr/bin/env python3
"""Re-evaluate every stored independent change (seeded/*/patch.diff) against the CURRENT sources and checks.
The first evaluation of each change (tools/seeded.py) applied it to /repo itself and undid it; this re-evaluation applies the
patch to a scratch copy of /repo's tracked tree under /tmp (PYVC_REPO_SRC points the checks at it) so that it can run while
/repo is in use, and removes the copy afterwards.
usage: tools/reseed.py [name-filter] [--shard=i/n] [--jobs=N] [--skip=file-with-names]"""
import json
import os
import subprocess
import sys

VERIF = os.path.dirname(os.path.dirname(os.path.abspath(__file__)))


def sh(cmd, cwd=None):
    return subprocess.run(cmd, shell=True, cwd=cwd, capture_output=True, text=True)


def main():
    args = [a for a in sys.argv[1:] if not a.startswith("--")]
    opts = dict(a[2:].split("=", 1) for a in sys.argv[1:] if a.startswith("--") and "=" in a)
    flt = args[0] if args else ""
    shard_i, shard_n = (int(x) for x in opts.get("shard", "0/1").split("/"))
    jobs = opts.get("jobs")
    skip = set(open(opts["skip"]).read().split()) if opts.get("skip") else set()
    head = sh("git -C /repo log --format=%h -1").stdout.strip()
    rows = []
    todo = [d for d in sorted(os.listdir(os.path.join(VERIF, "seeded"))) if (not flt or flt in d) and d not in skip]
    for d in todo[shard_i::shard_n]:
        p = os.path.join(VERIF, "seeded", d)
        meta = json.load(open(os.path.join(p, "meta.json")))
        props = list(meta.get("checks", {}).keys()) or [meta["property"]]
        import shutil, tempfile
        scratch = tempfile.mkdtemp(prefix="pyvc_reseed_")
        sh(f"git -C /repo archive HEAD src | tar -x -C {scratch}")
        r = sh(f"git apply --unsafe-paths --directory={scratch} {p}/patch.diff", cwd=scratch) if False else sh(f"patch -p1 -s -d {scratch} < {p}/patch.diff")
        if r.returncode != 0:
            shutil.rmtree(scratch, ignore_errors=True)
            rows.append((d, "PATCH-DOES-NOT-APPLY", []))
            meta["recheck"] = {"repo_head": head, "status": "patch does not apply to the current tree"}
            json.dump(meta, open(os.path.join(p, "meta.json"), "w"), indent=1)
            continue
        det = []
        try:
            for prop in props:
                c = subprocess.run(f"./check {prop} --tier quick" + (f" --jobs {jobs}" if jobs else ""), shell=True, cwd=VERIF, capture_output=True, text=True,
                                   env=dict(os.environ, PYVC_REPO_SRC=os.path.join(scratch, "src", "datashard")))
                lines = [l for l in c.stdout.splitlines() if l.startswith(("VIOLATION", "UNDECIDED", "CHECKER"))]
                meta.setdefault("checks", {})[prop] = {"exit": c.returncode, "lines": lines[:4]}
                if c.returncode == 1:
                    det.append(prop)
        finally:
            shutil.rmtree(scratch, ignore_errors=True)
        meta["detected_by"] = det
        meta["recheck"] = {"repo_head": head, "status": "detected" if det else "MISSED"}
        json.dump(meta, open(os.path.join(p, "meta.json"), "w"), indent=1)
        rows.append((d, "detected" if det else "MISSED", det))
        print(d, "detected" if det else "MISSED", det, flush=True)
    print("summary:", sum(1 for r in rows if r[1] == "detected"), "of", len(rows), "detected;", [r[0] for r in rows if r[1] != "detected"])


if __name__ == "__main__":
    main()
