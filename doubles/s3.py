"""In-memory, strongly consistent S3 client double used by replay scripts (never by proofs).

Implements the subset of the boto3 client the repository calls: get_object (with Range), head_object,
put_object (IfNoneMatch='*', IfMatch=<etag>), delete_object, list_objects_v2, get_paginator.
`before` / `after` hooks let a replay script inject faults or run another actor at a chosen request.
"""
import datetime
import hashlib
import io
import itertools

from botocore.exceptions import ClientError


def _err(code, op, status=400):
    return ClientError({"Error": {"Code": code, "Message": code}, "ResponseMetadata": {"HTTPStatusCode": status}}, op)


class _Body:
    def __init__(self, data):
        self._b = io.BytesIO(data)
        self.closed = False

    def read(self, n=None):
        return self._b.read() if n is None else self._b.read(n)

    def close(self):
        self.closed = True


class FakeS3:
    def __init__(self, clock=None):
        self.objects = {}     # (bucket, key) -> bytes
        self.meta = {}        # (bucket, key) -> {"ETag":..., "LastModified":...}
        self.ranges = []      # (first, last) of every ranged GET
        self.log = []         # (op, kwargs summary)
        self.before = None    # before(op, kwargs) -> may raise
        self.after = None     # after(op, kwargs, response) -> may raise (request took effect)
        self._ctr = itertools.count(1)
        self.clock = clock or (lambda: datetime.datetime.now(datetime.timezone.utc))

    # ------------------------------------------------------------------
    def _hook(self, which, op, kw, resp=None):
        h = self.before if which == "before" else self.after
        if h is not None:
            if which == "before":
                h(op, kw)
            else:
                h(op, kw, resp)

    def _stamp(self, k):
        # content_etags=True is faithful to S3 (single-part ETag = MD5 of the content: identical bytes -> identical ETag);
        # the default adds a write counter (every write gets a new tag), which is what the other scenarios assume
        tag = hashlib.md5(self.objects[k]).hexdigest() if getattr(self, "content_etags", False) \
            else "%s-%d" % (hashlib.md5(self.objects[k]).hexdigest()[:8], next(self._ctr))
        self.meta[k] = {"ETag": '"%s"' % tag, "LastModified": self.clock()}

    def get_object(self, **kw):
        self.log.append(("get_object", kw.get("Key"), kw.get("Range")))
        self._hook("before", "get_object", kw)
        k = (kw["Bucket"], kw["Key"])
        if k not in self.objects:
            raise _err("NoSuchKey", "GetObject", 404)
        if k not in self.meta:
            self._stamp(k)
        data = self.objects[k]
        if kw.get("Range"):
            spec = kw["Range"]
            assert spec.startswith("bytes="), spec
            a, b = spec[len("bytes="):].split("-")
            a, b = int(a), int(b)
            self.ranges.append((a, b))
            if a >= len(data) or a > b:
                raise _err("InvalidRange", "GetObject", 416)
            data = data[a:b + 1]
        resp = {"Body": _Body(data), "ETag": self.meta[k]["ETag"], "LastModified": self.meta[k]["LastModified"],
                "ContentLength": len(data)}
        self._hook("after", "get_object", kw, resp)
        return resp

    def head_object(self, **kw):
        self.log.append(("head_object", kw.get("Key")))
        self._hook("before", "head_object", kw)
        k = (kw["Bucket"], kw["Key"])
        if k not in self.objects:
            raise _err("404", "HeadObject", 404)
        if k not in self.meta:
            self._stamp(k)
        resp = {"ContentLength": len(self.objects[k]), "ETag": self.meta[k]["ETag"],
                "LastModified": self.meta[k]["LastModified"]}
        self._hook("after", "head_object", kw, resp)
        return resp

    def put_object(self, **kw):
        self.log.append(("put_object", kw.get("Key"), {x: kw[x] for x in ("IfNoneMatch", "IfMatch") if x in kw}))
        self._hook("before", "put_object", kw)
        k = (kw["Bucket"], kw["Key"])
        if kw.get("IfNoneMatch") == "*" and k in self.objects:
            raise _err("PreconditionFailed", "PutObject", 412)
        if "IfMatch" in kw:
            if k not in self.objects:
                raise _err("NoSuchKey", "PutObject", 404)
            if k not in self.meta:
                self._stamp(k)
            if self.meta[k]["ETag"] != kw["IfMatch"]:
                raise _err("PreconditionFailed", "PutObject", 412)
        body = kw.get("Body", b"")
        if hasattr(body, "read"):
            body = body.read()
        self.objects[k] = bytes(body)
        self._stamp(k)
        resp = {"ETag": self.meta[k]["ETag"]}
        self._hook("after", "put_object", kw, resp)
        return resp

    def delete_object(self, **kw):
        self.log.append(("delete_object", kw.get("Key")))
        self._hook("before", "delete_object", kw)
        k = (kw["Bucket"], kw["Key"])
        self.objects.pop(k, None)
        self.meta.pop(k, None)
        resp = {}
        self._hook("after", "delete_object", kw, resp)
        return resp

    def list_objects_v2(self, **kw):
        self.log.append(("list_objects_v2", kw.get("Prefix")))
        self._hook("before", "list_objects_v2", kw)
        pre = kw.get("Prefix", "")
        keys = sorted(k for (b, k) in self.objects if b == kw["Bucket"] and k.startswith(pre))
        if "MaxKeys" in kw:
            keys = keys[: kw["MaxKeys"]]
        resp = {"KeyCount": len(keys)}
        if keys:
            resp["Contents"] = [{"Key": k, "Size": len(self.objects[(kw["Bucket"], k)])} for k in keys]
        self._hook("after", "list_objects_v2", kw, resp)
        return resp

    def get_paginator(self, name):
        assert name == "list_objects_v2"
        outer = self

        class P:
            def paginate(self, **kw):
                resp = outer.list_objects_v2(**kw)
                contents = resp.get("Contents", [])
                if not contents:
                    yield {"KeyCount": 0}
                    return
                for i in range(0, len(contents), 2):  # small pages on purpose
                    yield {"Contents": contents[i:i + 2], "KeyCount": len(contents[i:i + 2])}
        return P()
