"""Fault-injecting / scheduling proxy around a real StorageBackend, used by replay scripts (never by proofs)."""


class FaultyStorage:
    """Delegates everything to `inner`.  `plan` is a list of rules
         {"op": name, "match": substring-or-None, "nth": k (1-based, default 1), "raise": exception-instance-or-None,
          "before": callable-or-None, "after": callable-or-None, "when": "before"|"after"}
    A rule fires on the k-th call of `op` whose first argument contains `match`."""

    def __init__(self, inner, plan=()):
        self.__dict__["_inner"] = inner
        self.__dict__["_plan"] = [dict(r) for r in plan]
        self.__dict__["calls"] = []

    def __getattr__(self, name):
        target = getattr(self._inner, name)
        if not callable(target):
            return target

        def wrapper(*a, **k):
            self.calls.append((name, a[0] if a else None))
            fired = None
            for r in self._plan:
                if r.get("op") != name:
                    continue
                m = r.get("match")
                if m is not None and (not a or m not in str(a[0])):
                    continue
                r["seen"] = r.get("seen", 0) + 1
                if r["seen"] == r.get("nth", 1):
                    fired = r
                    break
            if fired is not None:
                if fired.get("before"):
                    fired["before"]()
                if fired.get("raise") is not None and fired.get("when", "before") == "before":
                    raise fired["raise"]
            out = target(*a, **k)
            if fired is not None:
                if fired.get("after"):
                    fired["after"]()
                if fired.get("raise") is not None and fired.get("when") == "after":
                    raise fired["raise"]
            return out
        return wrapper

    def __setattr__(self, name, value):
        setattr(self._inner, name, value)


def install(table, plan):
    """Patch the methods of table.storage *in place* (instance attributes), so isinstance checks on the backend keep
    working and every manager (they share the one storage object) sees the faults. Returns a handle with .calls."""
    storage = table.storage
    proxy = FaultyStorage(storage, plan)
    names = ["read_file", "write_file", "exists", "list_files", "delete_file", "get_modified_time", "get_size",
             "open_file", "read_json", "write_json", "makedirs", "read_file_with_etag", "write_file_cas", "open_seekable"]
    originals = {n: getattr(storage, n) for n in names if hasattr(storage, n)}

    class _Inner:
        pass
    inner = _Inner()
    for n, f in originals.items():
        setattr(inner, n, f)
    proxy.__dict__["_inner"] = inner
    for n in originals:
        setattr(storage, n, getattr(proxy, n))
    return proxy
