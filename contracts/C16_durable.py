"""C16 - commits are durable: the pointer never outruns the data it references.

  DURABLE-WRITE  LocalStorageBackend.write_file: content written to a temp file in the target's directory, fsync(temp) after the
                 last write and before os.replace(temp, target), directory fsync after the rename; on any exception the rename
                 did not happen (atomic_write_failures) and the temp file is removed.  Power-loss reading: at every prefix of
                 the OS-call trace, a name that is durably visible refers to fully flushed content.
  DURABLE-DATA   DataFileWriter.close: the finished parquet temp file is fsynced before the rename onto the data file, directory
                 fsync after; DataFileWriter.open puts the temp file in the target's directory.
  ORDER          the pointer is written after the metadata file (MetadataManager.commit), the snapshot is committed after all
                 manifests / the manifest list (Transaction._commit_file_ops), manifest writers write through write_file before
                 returning, write_data_file closes (renames + fsyncs) the file before it is described.
"""
from __future__ import annotations

import z3

from contracts import commitpath as cp
from pyvc import pyops
from pyvc.ctx import Unsupported
from pyvc.engine import LoopSpec, PyRaise
from pyvc.pyops import PyExc
from pyvc.runner import H, Unit, register, set_registry_factory
from pyvc.theories import misc
from pyvc.theories.osfs import DN, NORMABS, REAL, RP, SLASH, OsTheory, inside
from pyvc.values import (ClassVal, ModuleVal, PDict, PList, SBool, SBytes, SExc, SInt, SObj, SOpt, SStr, TheoryObj, to_z3)

P = "C16"
SB = "storage_backend"
DO = "data_operations"
set_registry_factory(P, cp.registry)

META = {
    "explanation": "Ordering obligations over the trace of T-os calls issued by the real code (page-cache/durable reading: fsync(fd) "
                   "makes the inode's content durable, fsync(dirfd) makes the directory's entries durable, os.replace is atomic).",
    "trusted": [
        "T-os: os.write writes the whole buffer (A-write); fsync(fd) flushes everything written through any descriptor of that inode "
        "before the call; os.replace is atomic in the namespace; a swallowed OSError of the directory fsync means 'not supported by "
        "this file system' (then durability of the rename is the file system's own ordering guarantee)",
        "T-arrow: ParquetWriter.close() finishes the file in the page cache (all bytes written before it returns)",
        "files handed in through append_files were written by the caller - their durability is outside the library",
        "S3 durability of a completed PUT = T-s3",
    ],
    "assumptions": [],
}


def events_of(os_t, *ops):
    return [e for e in os_t.events if e["op"] in ops]


def h_write_file(faults: bool, via_json: bool = False):
    """via_json: enter through LocalStorageBackend.write_json (metadata files are written through it) - the same durability
    obligations must hold for the write it delegates to, whatever arguments it passes along."""
    def harness(h: H):
        c = h.ctx
        os_t = OsTheory(h, fault_classes=["OSError"] if faults else [], max_faults=1)
        os_t.install(h.reg)
        be = h.obj("LocalStorageBackend", base_path=h.str("base_path"))
        full = z3.String("resolved_target")
        rb = RP(be.fields["base_path"].z)
        h.assume(z3.And(NORMABS(full), inside(rb, full), full != rb))
        h.reg.contracts[f"{SB}:LocalStorageBackend._resolve_path"] = lambda I, fv, a, k: SStr(full)
        h.reg.contracts[f"{SB}:LocalStorageBackend._real_base_path"] = lambda I, fv, a, k: SStr(rb)
        # contract of check_disk_space (unit DISK/check_disk_space): returns None or raises OSError before anything is written
        h.reg.contracts["disk_utils:check_disk_space"] = lambda I, fv, a, k: os_t.maybe_fault(I, "check_disk_space")
        h.reg.contracts["disk_utils:estimate_write_size"] = lambda I, fv, a, k: SInt(I.ctx.fresh_int("est"))
        h.reg.contracts["integrity:IntegrityChecker.compute_checksum"] = lambda I, fv, a, k: SStr(I.ctx.fresh_str("sha"))
        content = h.bytes("content")
        if via_json:
            js = z3.String("json_text")
            h.reg.modfuncs["json.dumps"] = lambda I, a, k: SStr(js)
            content = SBytes(z3.Function("utf8.encode", z3.StringSort(), z3.StringSort())(js))
            out, val = h.run(f"{SB}:LocalStorageBackend.write_json", [be, h.str("path"), PDict({})])
        else:
            out, val = h.run(f"{SB}:LocalStorageBackend.write_file", [be, h.str("path"), content])
        ev = os_t.events
        mk = events_of(os_t, "mkstemp")
        wr = events_of(os_t, "os.write")
        fs = events_of(os_t, "os.fsync")
        rp = events_of(os_t, "replace")
        rm = events_of(os_t, "remove")
        fault = events_of(os_t, "FAULT")
        # the target keeps its previous content until the rename swaps the new one in: nothing but the temp file is ever unlinked
        h.ensure("ATOMIC:the-target-is-never-unlinked(only-the-temp-file-may-be-removed)",
                 all(mk and z3.is_true(z3.simplify(e["path"] == mk[0]["path"])) for e in rm),
                 detail="between an unlink of the target and the rename a reader (or a crash) finds no file at all")
        if out == "raise":
            h.ensure("DURABLE-WRITE:raises-only-on-an-OS-fault", len(fault) == 1 and bool(val.fields.get("fault")), detail=repr(val))
            h.ensure("ATOMIC:an-exception-means-the-rename-did-not-happen", len(rp) == 0)
            if mk:
                probe = [e for e in events_of(os_t, "exists") if z3.is_true(z3.simplify(e["path"] == mk[0]["path"])) and e["n"] > fault[0]["n"]]
                h.ensure("ATOMIC:temp-file-cleanup-attempted-on-failure",
                         (len(rm) == 1 and z3.is_true(z3.simplify(rm[0]["path"] == mk[0]["path"]))) or (len(probe) == 1 and not rm))
            return
        h.ensure("DURABLE-WRITE:one-temp-file-in-the-target's-directory", len(mk) == 1 and z3.is_true(z3.simplify(mk[0]["dir"] == DN(full))))
        h.ensure("DURABLE-WRITE:the-whole-content-written-to-the-temp-file", len(wr) == 1 and len(mk) == 1 and
                 z3.is_true(z3.simplify(wr[0]["fd"] == mk[0]["fd"])) and z3.is_true(z3.simplify(wr[0]["data"] == content.z)))
        h.ensure("DURABLE-WRITE:exactly-one-rename-temp->target", len(rp) == 1 and len(mk) == 1 and
                 z3.is_true(z3.simplify(z3.And(rp[0]["src"] == mk[0]["path"], rp[0]["dst"] == full))))
        if len(rp) == 1 and len(mk) == 1 and wr:
            file_sync = [e for e in fs if z3.is_true(z3.simplify(e["fd"] == mk[0]["fd"]))]
            h.ensure("DURABLE-WRITE:fsync(temp)-after-the-last-write-and-before-the-rename",
                     len(file_sync) >= 1 and wr[-1]["n"] < file_sync[-1]["n"] < rp[0]["n"])
            dir_open = [e for e in events_of(os_t, "os.open") if z3.is_true(z3.simplify(e["path"] == DN(full)))]
            dir_sync = [e for e in fs if dir_open and z3.is_true(z3.simplify(e["fd"] == dir_open[-1]["fd"]))]
            if not fault:
                h.ensure("DURABLE-WRITE:directory-fsync-after-the-rename", len(dir_sync) == 1 and dir_sync[0]["n"] > rp[0]["n"])
            else:
                h.ensure("DURABLE-WRITE:only-a-directory-fsync-failure-is-tolerated", fault[0]["at"] in ("os.open", "os.fsync") and fault[0]["n"] > rp[0]["n"])
            h.ensure("DURABLE-WRITE:no-write-to-the-target-outside-the-rename",
                     not [e for e in events_of(os_t, "open") if e.get("mode", "r") != "rb"])
    return harness


def _replay_write_file(ob):
    return '''
import sys, os, tempfile, shutil
import datashard.storage_backend as sb
from datashard.storage_backend import LocalStorageBackend
root = tempfile.mkdtemp(prefix="pyvc_replay_")
bad = []
try:
    be = LocalStorageBackend(root)
    trace = []
    real = {n: getattr(os, n) for n in ("write", "fsync", "replace", "open", "close")}
    fds = {}
    def w_open(p, *a, **k):
        fd = real["open"](p, *a, **k); fds[fd] = ("dir" if os.path.isdir(p) else "file", p); trace.append(("open", p)); return fd
    def w_write(fd, data): trace.append(("write", fd)); return real["write"](fd, data)
    def w_fsync(fd): trace.append(("fsync", fds.get(fd, ("tmp", None))[0], fd)); return real["fsync"](fd)
    def w_replace(a, b): trace.append(("replace", a, b)); return real["replace"](a, b)
    os.open, os.write, os.fsync, os.replace = w_open, w_write, w_fsync, w_replace
    try:
        be.write_file("metadata/x.json", b"hello")
    finally:
        os.open, os.write, os.fsync, os.replace = real["open"], real["write"], real["fsync"], real["replace"]
    kinds = [t[0] if t[0] != "fsync" else "fsync-" + t[1] for t in trace]
    try:
        i_w = max(i for i, k in enumerate(kinds) if k == "write"); i_r = kinds.index("replace")
        i_f = max(i for i, k in enumerate(kinds[:i_r]) if k in ("fsync-tmp", "fsync-file"))
        if not (i_w < i_f < i_r): bad.append(("file fsync not between last write and rename", kinds))
        if "fsync-dir" not in kinds[i_r:]: bad.append(("no directory fsync after the rename", kinds))
    except ValueError:
        bad.append(("missing write / file fsync / rename", kinds))
    if open(os.path.join(root, "metadata/x.json"), "rb").read() != b"hello": bad.append("content")
    # the same through write_json (how metadata files are written)
    trace2 = []
    def w_fsync2(fd):
        try: kind = "dir" if os.path.isdir("/proc/self/fd/%d" % fd) else "file"
        except Exception: kind = "file"
        trace2.append("fsync-" + kind); return real["fsync"](fd)
    def w_replace2(a, b): trace2.append("replace"); return real["replace"](a, b)
    os.fsync, os.replace = w_fsync2, w_replace2
    try:
        be.write_json("metadata/y.json", {"k": 1})
    finally:
        os.fsync, os.replace = real["fsync"], real["replace"]
    if "replace" not in trace2 or "fsync-dir" not in trace2[trace2.index("replace"):]:
        bad.append(("write_json: no directory fsync after the rename", trace2))
    if "fsync-file" not in trace2[:trace2.index("replace")] if "replace" in trace2 else True:
        bad.append(("write_json: no file fsync before the rename", trace2))
finally:
    shutil.rmtree(root, ignore_errors=True)
print("replay write_file trace ->", bad or "write, fsync(file), rename, fsync(dir)")
sys.exit(1 if bad else 0)
'''


register(Unit(P, "DURABLE-WRITE/write_file", h_write_file(False), functions=[f"{SB}:LocalStorageBackend.write_file"], replay=_replay_write_file))
register(Unit(P, "DURABLE-WRITE/write_file-faults", h_write_file(True), functions=[f"{SB}:LocalStorageBackend.write_file"], replay=_replay_write_file))
register(Unit(P, "DURABLE-WRITE/write_json", h_write_file(False, via_json=True), functions=[f"{SB}:LocalStorageBackend.write_json", f"{SB}:LocalStorageBackend.write_file"], replay=_replay_write_file))


# =================================================================================== DataFileWriter
def h_writer_close(faults: bool):
    def harness(h: H):
        c = h.ctx
        os_t = OsTheory(h, fault_classes=["OSError"] if faults else [], max_faults=1)
        os_t.install(h.reg)
        target = z3.String("data_file_path")
        h.assume(NORMABS(target))
        tmpname = z3.String("temp_name")
        closed = []
        writer = TheoryObj("pqwriter")
        h.reg.theory_methods[("pqwriter", "close")] = lambda I, o, a, k: closed.append(len(os_t.events)) and None
        tmp = TheoryObj("namedtemp", fields={"name": SStr(tmpname)})
        w = h.obj("DataFileWriter", file_path=SStr(target), _writer=writer, _temp_file=tmp, _row_count=SInt(c.fresh_int("rows")))
        out, val = h.run(f"{DO}:DataFileWriter.close", [w])
        fs, rp, op = events_of(os_t, "os.fsync"), events_of(os_t, "replace"), events_of(os_t, "os.open")
        fault = events_of(os_t, "FAULT")
        h.ensure("DURABLE-DATA:parquet-writer-finished-first", len(closed) == 1 and closed[0] == 0)
        if out == "raise":
            h.ensure("DURABLE-DATA:raises-only-on-an-OS-fault", len(fault) == 1 and bool(val.fields.get("fault")), detail=repr(val))
            h.ensure("DURABLE-DATA:an-exception-means-the-rename-did-not-happen", len(rp) == 0)
            h.ensure("DURABLE-DATA:writer-reference-cleared", w.fields["_writer"] is None)
            return
        h.ensure("DURABLE-DATA:exactly-one-rename-temp->data-file", len(rp) == 1 and
                 z3.is_true(z3.simplify(z3.And(rp[0]["src"] == tmpname, rp[0]["dst"] == target))))
        if len(rp) == 1:
            topen = [e for e in op if z3.is_true(z3.simplify(e["path"] == tmpname)) and e["n"] < rp[0]["n"]]
            tsync = [e for e in fs if topen and z3.is_true(z3.simplify(e["fd"] == topen[-1]["fd"]))]
            h.ensure("DURABLE-DATA:fsync(temp)-after-the-writer-closed-and-before-the-rename",
                     len(tsync) == 1 and tsync[0]["n"] < rp[0]["n"])
            dopen = [e for e in op if z3.is_true(z3.simplify(e["path"] == DN(target))) and e["n"] > rp[0]["n"]]
            dsync = [e for e in fs if dopen and z3.is_true(z3.simplify(e["fd"] == dopen[-1]["fd"]))]
            if not fault:
                h.ensure("DURABLE-DATA:directory-fsync-after-the-rename", len(dsync) == 1 and dsync[0]["n"] > rp[0]["n"])
            else:
                h.ensure("DURABLE-DATA:only-a-directory-fsync-failure-is-tolerated", fault[0]["n"] > rp[0]["n"])
        h.ensure("DURABLE-DATA:state-cleared", w.fields["_writer"] is None and w.fields["_temp_file"] is None)
    return harness


def h_writer_open(h: H):
    os_t = OsTheory(h)
    os_t.install(h.reg)
    target = z3.String("data_file_path")
    h.assume(NORMABS(target))
    made = []

    def ntf(I, a, k):
        made.append(dict(k))
        return TheoryObj("namedtemp", fields={"name": SStr(I.ctx.fresh_str("tempname"))})
    h.reg.modfuncs["tempfile.NamedTemporaryFile"] = ntf
    h.reg.theory_attrs[("namedtemp", "name")] = lambda I, o: o.fields["name"]
    h.reg.theory_methods[("namedtemp", "close")] = lambda I, o, a, k: None
    pws = []
    h.reg.modfuncs["pyarrow.parquet.ParquetWriter"] = lambda I, a, k: pws.append(a) or TheoryObj("pqwriter")
    schema = TheoryObj("arrowschema")
    h.reg.theory_attrs[("arrowschema", "metadata")] = lambda I, o: None
    h.reg.theory_methods[("arrowschema", "with_metadata")] = lambda I, o, a, k: o
    w = h.obj("DataFileWriter", file_path=SStr(target), file_format=__import__("pyvc.values", fromlist=["EnumVal"]).EnumVal("FileFormat", "PARQUET", "parquet"),
              _schema=schema, metadata=PDict({}), _filesystem=None, _writer=None, _temp_file=None, _row_count=0)
    out, val = h.run(f"{DO}:DataFileWriter.open", [w])
    h.ensure("DURABLE-DATA:open-no-raise", out == "ok", detail=repr(val) if out != "ok" else "")
    h.ensure("DURABLE-DATA:temp-file-in-the-target's-directory(same-filesystem-rename)",
             len(made) == 1 and made[0].get("delete") is False and z3.is_true(z3.simplify(pyops.str_z(made[0].get("dir")) == DN(target))))
    h.ensure("DURABLE-DATA:parquet-written-to-the-temp-file-not-the-target", len(pws) == 1 and pws[0][0] is w.fields["_temp_file"].fields["name"])


def _replay_writer(ob):
    return '''
import sys, os, tempfile, shutil
from datashard import create_table
from datashard.data_structures import Schema
root = tempfile.mkdtemp(prefix="pyvc_replay_")
bad = []
try:
    t = create_table(os.path.join(root, "t"), schema=Schema(schema_id=1, fields=[{"id": 1, "name": "a", "type": "long", "required": False}]))
    trace = []
    real_fsync, real_replace, real_open = os.fsync, os.replace, os.open
    fds = {}
    def w_open(p, *a, **k):
        fd = real_open(p, *a, **k); fds[fd] = p; return fd
    def w_fsync(fd): trace.append(("fsync", fds.get(fd))); return real_fsync(fd)
    def w_replace(a, b): trace.append(("replace", a, b)); return real_replace(a, b)
    os.open, os.fsync, os.replace = w_open, w_fsync, w_replace
    try:
        t.append_records([{"a": 1}])
    finally:
        os.open, os.fsync, os.replace = real_open, real_fsync, real_replace
    renames = [x for x in trace if x[0] == "replace"]
    hint = [i for i, x in enumerate(trace) if x[0] == "replace" and x[2].endswith("metadata.version-hint.text")]
    if not hint: bad.append("no pointer rename seen")
    for i, x in enumerate(trace):
        if x[0] == "replace":
            synced_before = any(y[0] == "fsync" and y[1] == x[1] for y in trace[:i])
            if not synced_before: bad.append(("renamed without fsync of the temp file", x[2]))
            if hint and i > hint[-1]: bad.append(("file renamed after the pointer flip", x[2]))
    parquet = [x for x in renames if x[2].endswith(".parquet")]
    if not parquet: bad.append("no data file rename seen")
finally:
    shutil.rmtree(root, ignore_errors=True)
print("replay append trace ->", bad or "every file fsynced before its rename, pointer renamed last")
sys.exit(1 if bad else 0)
'''


register(Unit(P, "DURABLE-DATA/DataFileWriter.close", h_writer_close(False), functions=[f"{DO}:DataFileWriter.close"], replay=_replay_writer))
register(Unit(P, "DURABLE-DATA/DataFileWriter.close-faults", h_writer_close(True), functions=[f"{DO}:DataFileWriter.close"], replay=_replay_writer))
register(Unit(P, "DURABLE-DATA/DataFileWriter.open", h_writer_open, functions=[f"{DO}:DataFileWriter.open"], replay=_replay_writer))
register(Unit(P, "ORDER/MetadataManager.commit", cp.h_mm_commit("local"), functions=[f"{cp.MM}:MetadataManager.commit"], replay=_replay_writer))
for _mode in ("append", "both"):
    register(Unit(P, f"ORDER/_commit_file_ops-{_mode}", cp.h_commit_file_ops(_mode), functions=[f"{cp.TX}:Transaction._commit_file_ops"], replay=_replay_writer))

from contracts import helpers as _HLP  # noqa: E402
_HLP.register_under("C16", ["HELPER/validate_data_files", "HELPER/validate_file_exists", "HELPER/metadata-file-io", "DISK/check_disk_space", "DISK/estimate_write_size"])

from contracts import lemmas as _L  # noqa: E402
register(Unit(P, "LEMMA/POWER-LOSS", _L.h_powerloss, functions=[], replay=_replay_writer, uses=_L.POWER_USES))


# table creation is a pointer advance too: the first metadata file is written (durably, units above) BEFORE the pointer names it
from contracts import C10_hint as _c10i  # noqa: E402
for _cas in (False, True):
    register(Unit(P, f"ORDER-INIT/initialize_table-{'cas' if _cas else 'local'}", _c10i.h_initialize_table(_cas),
                  functions=[f"{_c10i.MM}:MetadataManager.initialize_table"], replay=_c10i._replay_init if hasattr(_c10i, "_replay_init") else None))
