"""C19 - locks exclude, time out, and never report a lock that is not held.

  local (T-flock)  ACQ      _try_acquire_once/acquire return True only after flock(LOCK_EX|LOCK_NB) succeeded on a descriptor of the
                            persistent lock file that is kept open; a failed attempt closes its descriptor and holds nothing
                   HELD     is_held() <=> this object keeps the descriptor with the flock (object invariant _locked <=> _lock_fd)
                   REL      release() unlocks and closes, and in flock mode NEVER unlinks the lock file (inode identity)
                   TIMEOUT  TimeoutError only after a clock reading at/after the deadline, and then nothing is held
  S3 (T-s3, RG)    CREATE   create succeeds only through PUT If-None-Match:*
                   TAKEOVER only after HEAD showed age > lease, and only through PUT If-Match:<etag of that HEAD>
                   RENEW    PUT If-Match:<own last etag>; a failed precondition clears is_locked
                   HELD-S3  is_held() True => the lock object's content READ IN THIS CALL equals lock_id
                   REL-S3   release deletes only while the object still carries the own id AT THE INSTANT of the delete
                            (refuted: GET-then-unconditional-DELETE; known finding - S3 offers no portable conditional delete)
"""
from __future__ import annotations

import z3

from pyvc import pyops
from pyvc.ctx import PathEnd, Unsupported
from pyvc.engine import LoopSpec, PyRaise
from pyvc.pyops import PyExc
from pyvc.runner import H, Unit, base_registry, register, set_registry_factory
from pyvc.theories import misc, pybuiltins as pb
from pyvc.theories.osfs import OsTheory
from pyvc.values import (ClassVal, PDict, PList, SBool, SBytes, SExc, SInt, SObj, SOpt, SStr, SXReal, TheoryObj, to_z3)

P = "C19"
FL = "file_lock"
LP = "lock_provider"
STR = z3.StringSort()

META = {
    "explanation": "Action contracts of the two lock implementations; mutual exclusion itself (lemma EXCL) follows from T-flock for the "
                   "local lock and, for the S3 lock, from 'every mutation of the lock object is a conditional PUT or a delete that "
                   "satisfies REL-S3' - the latter does not hold (known finding).",
    "trusted": [
        "T-flock: flock(fd, LOCK_EX|LOCK_NB) succeeds iff no other open file description on the same inode holds the lock; released "
        "on LOCK_UN, close, or death of the holder; the lock belongs to the inode, not to the path",
        "T-s3: conditional PUT (If-None-Match:*, If-Match:etag) evaluated atomically; LastModified/ETag of HEAD describe the object at "
        "that instant; clocks of S3 and the client agree (A-clock)",
        "lemma EXCL (meta-argument over the action contracts)",
        "configuration: fcntl present (FCNTL_AVAILABLE), msvcrt absent",
    ],
    "assumptions": [],
}


def registry():
    reg = base_registry()
    misc.install_rlock(reg)
    reg.modconsts["file_lock.FCNTL_AVAILABLE"] = True
    reg.modconsts["file_lock.MSVCRT_AVAILABLE"] = False
    reg.modconsts["fcntl.LOCK_EX"] = 2
    reg.modconsts["fcntl.LOCK_NB"] = 4
    reg.modconsts["fcntl.LOCK_UN"] = 8
    return reg


for _pp in ("C19",): set_registry_factory(_pp, registry)


# =================================================================================== local: FileLock
def flock_theory(h: H, os_t: OsTheory, g):
    """fcntl.flock: LOCK_EX|LOCK_NB succeeds or raises BlockingIOError (another description holds it); LOCK_UN releases."""
    def flock(I, a, k):
        fd, op = a
        os_t.log("flock", fd=pyops.int_z(fd), flags=op)
        if op == (2 | 4):
            if I.ctx.flip("flock-busy"):
                raise PyRaise(SExc("BlockingIOError", origin="flock: held by another description", fields={"busy": True}))
            g["flocked"].append(pyops.int_z(fd))
            return None
        if op == 8:
            g["unlocked"].append(pyops.int_z(fd))
            return None
        if op == 2:
            g["blocking_flock"] = True
            return None
        raise Unsupported(f"flock flags {op}")
    h.reg.modfuncs["fcntl.flock"] = flock


def filelock(h: H, locked: bool):
    c = h.ctx
    fdz = SInt(c.fresh_int("held_fd")) if locked else None
    return h.obj("FileLock", lock_file=h.str("lock_file"), timeout=SXReal(z3.BoolVal(False), z3.IntVal(0), z3.Real("timeout")),
                 _lock_fd=fdz, _locked=locked, _used_excl_fallback=False)


def fd_eq(a, b):
    return z3.is_true(z3.simplify(a == b))


def h_try_acquire_once(h: H):
    os_t = OsTheory(h, fault_classes=["OSError", "PermissionError"], max_faults=1)
    os_t.install(h.reg)
    g = {"flocked": [], "unlocked": []}
    flock_theory(h, os_t, g)
    lk = filelock(h, False)
    out, val = h.run(f"{FL}:FileLock._try_acquire_once", [lk])
    h.ensure("ACQ:attempt-never-raises", out == "ok", detail=repr(val) if out != "ok" else "")
    if out != "ok":
        return
    opens = [e for e in os_t.events if e["op"] == "os.open"]
    closes = [e for e in os_t.events if e["op"] == "os.close"]
    if val is True:
        h.ensure("ACQ:True=>flock-succeeded-on-a-descriptor-of-the-lock-file",
                 len(opens) == 1 and len(g["flocked"]) == 1 and fd_eq(g["flocked"][0], opens[0]["fd"]) and
                 z3.is_true(z3.simplify(opens[0]["path"] == lk.fields["lock_file"].z)))
        h.ensure("ACQ:True=>descriptor-kept-open-and-recorded", not closes and lk.fields["_locked"] is True and
                 isinstance(lk.fields["_lock_fd"], SInt) and opens and fd_eq(lk.fields["_lock_fd"].z, opens[0]["fd"]))
        h.ensure("REL:flock-mode-recorded", lk.fields["_used_excl_fallback"] is False)
    else:
        h.ensure("ACQ:False=>nothing-held-and-no-descriptor-leaked",
                 val is False and lk.fields["_locked"] is False and len(g["flocked"]) == 0 and
                 all(any(fd_eq(cl["fd"], o["fd"]) for cl in closes) for o in opens))
    h.ensure("REL:an-attempt-never-unlinks-the-lock-file", not [e for e in os_t.events if e["op"] == "remove"])


def h_acquire(h: H):
    c = h.ctx
    os_t = OsTheory(h)
    os_t.install(h.reg)
    misc.install_clock(h.reg, c)
    c.ghost["clock"]["monotone"] = True
    lk = filelock(h, False)
    attempts = []

    def tao(I, fv, args, kwargs):
        ok = I.ctx.flip("attempt-succeeds")
        attempts.append(ok)
        if ok:
            args[0].fields["_locked"] = True
            args[0].fields["_lock_fd"] = SInt(I.ctx.fresh_int("fd"))
        return ok
    h.reg.contracts[f"{FL}:FileLock._try_acquire_once"] = tao
    blocking = [True, False][c.choose(2, "blocking")]

    def inv(I, env, it):
        res = [("ACQ:loop-head=>not-yet-held", z3.BoolVal(lk.fields["_locked"] is False))]
        if it.get("after_body"):
            # bounded waiting: an iteration that goes round again has looked at the clock and found it before the deadline
            reads = c.ghost["clock"]["reads"]
            new_reads = reads[g_loop["reads_at_iteration_start"]:]
            deadline = (reads[0] + lk.fields["timeout"].r) if reads else None
            res.append(("TIMEOUT:a-blocked-acquirer-rechecks-the-deadline-every-round",
                        z3.BoolVal(False) if not new_reads or deadline is None else new_reads[-1] < deadline))
        return res

    def havoc(I, env, it):
        del attempts[:]
        g_loop["reads_at_iteration_start"] = len(c.ghost["clock"]["reads"])
    g_loop = {"reads_at_iteration_start": 0}
    h.reg.loops[f"{FL}:FileLock.acquire"] = {"*": LoopSpec(invariant=inv, havoc=havoc, name="attempts", skip=["acquired"])}
    out, val = h.run(f"{FL}:FileLock.acquire", [lk, blocking])
    reads = c.ghost["clock"]["reads"]
    if out == "ok" and val is True:
        h.ensure("ACQ:True-only-right-after-a-successful-attempt", attempts and attempts[-1] is True and lk.fields["_locked"] is True)
    elif out == "ok":
        h.ensure("ACQ:False-only-for-a-non-blocking-caller-after-a-failed-attempt", val is False and not blocking and attempts == [False] and lk.fields["_locked"] is False)
    else:
        h.ensure("TIMEOUT:raises-only-TimeoutError", val.cls == "TimeoutError", detail=repr(val))
        deadline = reads[0] + lk.fields["timeout"].r if reads else None
        h.ensure("TIMEOUT:only-after-a-clock-reading-at-or-after-the-deadline",
                 z3.BoolVal(False) if len(reads) < 2 else reads[-1] >= deadline)
        h.ensure("TIMEOUT:nothing-held-when-it-fires", lk.fields["_locked"] is False and attempts and attempts[-1] is False)
        h.ensure("TIMEOUT:only-blocking-callers-time-out", blocking is True)


def h_release(h: H):
    c = h.ctx
    os_t = OsTheory(h)
    os_t.install(h.reg)
    g = {"flocked": [], "unlocked": []}
    flock_theory(h, os_t, g)
    locked = c.flip("locked")
    lk = filelock(h, locked)
    fd0 = lk.fields["_lock_fd"]
    out, val = h.run(f"{FL}:FileLock.release", [lk])
    h.ensure("REL:release-never-raises", out == "ok")
    closes = [e for e in os_t.events if e["op"] == "os.close"]
    removes = [e for e in os_t.events if e["op"] == "remove"]
    h.ensure("REL:flock-mode-never-unlinks-the-lock-file(inode-identity)", not removes,
             detail="unlinking lets a newcomer lock a NEW inode while a waiter still holds/gets the old one")
    if locked:
        h.ensure("REL:unlocks-then-closes-the-held-descriptor",
                 len(g["unlocked"]) == 1 and fd_eq(g["unlocked"][0], fd0.z) and len(closes) == 1 and fd_eq(closes[0]["fd"], fd0.z))
        h.ensure("HELD:not-held-afterwards", lk.fields["_locked"] is False and lk.fields["_lock_fd"] is None)
    else:
        h.ensure("REL:no-op-when-not-held", not os_t.events and not g["unlocked"])


def h_is_held_local(h: H):
    c = h.ctx
    locked = c.flip("locked")
    lk = filelock(h, locked)
    out, val = h.run(f"{FL}:FileLock.is_held", [lk])
    h.ensure("HELD:is_held<=>the-object-keeps-the-flocked-descriptor", out == "ok" and val is locked)
    prov = h.obj("LocalLockProvider", lock=lk)
    out, val = h.run(f"{LP}:LocalLockProvider.is_held", [prov])
    h.ensure("HELD:provider-reports-the-file-lock's-state", out == "ok" and val is locked)


def h_provider_acquire_local(h: H):
    """PROVIDER/local: the provider's acquire() is what commit / table creation call WITHOUT looking at the result - returning at
    all means "held".  Contract of FileLock.acquire (units LOCAL/acquire): called blocking, it returns True holding the lock or
    raises TimeoutError holding nothing."""
    c = h.ctx
    lk = filelock(h, False)
    prov = h.obj("LocalLockProvider", lock=lk)
    calls = []

    def fl_acquire(I, fv, args, kwargs):
        blocking = kwargs.get("blocking", args[1] if len(args) > 1 else True)
        calls.append(blocking)
        if blocking is True and I.ctx.flip("lock-stays-busy-until-the-deadline"):
            raise PyRaise(SExc("TimeoutError", origin="FileLock.acquire: deadline passed", fields={"timeout": True}))
        if blocking is not True and I.ctx.flip("busy-now"):
            return False
        args[0].fields["_locked"] = True
        return True
    h.reg.contracts[f"{FL}:FileLock.acquire"] = fl_acquire
    out, val = h.run(f"{LP}:LocalLockProvider.acquire", [prov])
    h.ensure("PROVIDER:local:asks-the-file-lock-exactly-once", len(calls) == 1)
    if out == "ok":
        h.ensure("PROVIDER:local:returns-only-while-holding-the-lock(callers-do-not-look-at-the-result)",
                 val is True and lk.fields["_locked"] is True,
                 detail="MetadataManager.commit / initialize_table call acquire() as a statement: any normal return is taken as success")
    else:
        h.ensure("TIMEOUT:provider:a-blocked-acquirer-fails-with-TimeoutError", val.cls == "TimeoutError" and lk.fields["_locked"] is False, detail=repr(val))
    h.cover("PROVIDER:local:timeout-path-reachable", out == "raise")


def h_provider_acquire_s3(h: H):
    """PROVIDER/s3: S3LockProviderBase.acquire returns (True) only right after an attempt that took the lock, marks itself held,
    starts the heartbeat; gives up with TimeoutError only after a clock reading at or past start+timeout, holding nothing; it
    never returns otherwise."""
    c = h.ctx
    g = {"faults": False}
    prov, lock_id, lease = s3provider(h, g, locked=False)
    attempts, beats, breaks = [], [], []

    def try_acquire(I, fv, args, kwargs):
        ok = I.ctx.flip("attempt-takes-the-lock")
        attempts.append(ok)
        return ok
    h.reg.contracts[f"{LP}:S3LockProvider._try_acquire"] = try_acquire
    h.reg.contracts[f"{LP}:S3LockProviderBase._start_heartbeat"] = lambda I, fv, a, k: beats.append(len(attempts)) or None
    # _check_and_break_expired_lock is NOT stubbed: the conditional-write provider inherits the base's no-op, interpreted here; any
    # S3 request it (or the loop) issued would show up in the world's log
    w = s3lock_world(h, g)
    g_loop = {"reads_at": 0}

    def inv(I, env, it):
        res = [("ACQ-S3:loop-head=>not-yet-held", z3.BoolVal(prov.fields["is_locked"] is False))]
        if it.get("after_body"):
            reads = c.ghost["clock"]["reads"]
            new = reads[g_loop["reads_at"]:]
            res.append(("TIMEOUT:s3:a-blocked-acquirer-rechecks-the-deadline-every-round",
                        z3.BoolVal(False) if not new or not reads else new[-1] - reads[0] < prov.fields["timeout"].r))
        return res

    def havoc(I, env, it):
        del attempts[:]
        g_loop["reads_at"] = len(c.ghost["clock"]["reads"])
    h.reg.loops[f"{LP}:S3LockProviderBase.acquire"] = {"*": LoopSpec(invariant=inv, havoc=havoc, name="attempts")}
    out, val = h.call(h.I.getattr(prov, "acquire"), [])
    reads = c.ghost["clock"]["reads"]
    if out == "ok":
        h.ensure("PROVIDER:s3:returns-only-right-after-an-attempt-that-took-the-lock(callers-do-not-look-at-the-result)",
                 val is True and bool(attempts) and attempts[-1] is True and prov.fields["is_locked"] is True)
        h.ensure("PROVIDER:s3:heartbeat-started-after-the-lock-was-taken", len(beats) == 1)
    else:
        h.ensure("TIMEOUT:s3:a-blocked-acquirer-fails-with-TimeoutError", val.cls == "TimeoutError", detail=repr(val))
        h.ensure("TIMEOUT:s3:only-after-a-clock-reading-at-or-past-the-deadline",
                 z3.BoolVal(False) if len(reads) < 2 else reads[-1] - reads[0] >= prov.fields["timeout"].r)
        h.ensure("TIMEOUT:s3:nothing-held-when-it-fires", prov.fields["is_locked"] is False and bool(attempts) and attempts[-1] is False and not beats)
    h.ensure("PROVIDER:s3:no-request-to-the-lock-object-outside-the-conditional-attempts(nothing-is-broken-or-deleted-while-waiting)",
             not [e for e in w["log"] if e[0] != "env"])
    h.cover("PROVIDER:s3:timeout-path-reachable", out == "raise")


def h_heartbeat_loop(h: H):
    """HEARTBEAT: the renewal thread renews only while this provider believes it holds the lock, one renewal per waiting round,
    stops when told to or when the lock is no longer held, and never dies of a renewal error (which _renew_once turns into a
    cleared is_locked)."""
    c = h.ctx
    g = {"faults": False}
    prov, lock_id, lease = s3provider(h, g, locked=True)
    renews, waits = [], []

    def wait(I, o, a, k):
        stop = I.ctx.flip("stop-requested")
        waits.append(stop)
        return stop
    h.reg.theory_methods[("event", "wait")] = wait

    def renew(I, fv, args, kwargs):
        renews.append(args[0].fields["is_locked"])
        k = I.ctx.choose(3, "renewal-outcome")
        if k == 1:
            args[0].fields["is_locked"] = False            # loss detected
        if k == 2:
            raise PyRaise(SExc("RuntimeError", origin="unexpected renewal error", fields={"fault": True}))
        return None
    h.reg.contracts[f"{LP}:S3LockProvider._renew_once"] = renew

    def inv(I, env, it):
        res = []
        if it.get("after_body"):
            res.append(("HEARTBEAT:at-most-one-renewal-per-waiting-round,only-while-held", z3.BoolVal(len(renews) <= 1 and all(r is True for r in renews))))
        return res

    def havoc(I, env, it):
        del renews[:]
        del waits[:]
        prov.fields["is_locked"] = [True, False][I.ctx.choose(2, "held-at-loop-head")]
    h.reg.loops[f"{LP}:S3LockProviderBase._heartbeat_loop"] = {"*": LoopSpec(invariant=inv, havoc=havoc, name="rounds", covers=["is_locked"])}
    out, val = h.call(h.I.getattr(prov, "_heartbeat_loop"), [])
    h.ensure("HEARTBEAT:the-thread-never-dies-of-an-exception", out == "ok", detail=repr(val) if out != "ok" else "")
    h.ensure("HEARTBEAT:ends-only-when-told-to-stop-or-no-longer-holding", bool(waits and waits[-1] is True) or prov.fields["is_locked"] is False)
    h.ensure("HEARTBEAT:no-renewal-in-the-round-that-ends-the-loop", all(r is True for r in renews))


def _replay_flock(ob):
    return '''
import sys, os, tempfile, shutil, threading, time
from datashard.file_lock import FileLock
root = tempfile.mkdtemp(prefix="pyvc_replay_")
bad = []
try:
    p = os.path.join(root, ".locks", "m.lock")
    a, b, c = FileLock(p, 0.3), FileLock(p, 0.3), FileLock(p, 0.3)
    assert a.acquire()
    ino = os.stat(p).st_ino
    t0 = time.monotonic()
    try: b.acquire(); bad.append("second holder acquired while the first holds")
    except TimeoutError:
        if time.monotonic() - t0 > 0.3 + 0.5: bad.append("timeout far beyond the configured bound")
    if b.is_held(): bad.append("is_held() true after a timeout")
    if b.acquire(blocking=False): bad.append("non-blocking acquire succeeded while held")
    # a waiter opens the file, then the holder releases; a newcomer must contend on the SAME inode
    fdw = os.open(p, os.O_CREAT | os.O_RDWR)
    a.release()
    if not os.path.exists(p) or os.stat(p).st_ino != ino: bad.append("release() unlinked/replaced the lock file (inode identity lost)")
    import fcntl
    fcntl.flock(fdw, fcntl.LOCK_EX | fcntl.LOCK_NB)          # the waiter now holds the lock on the old inode
    if c.acquire(blocking=False): bad.append("newcomer acquired although a waiter holds the lock (different inode)")
    os.close(fdw)
    if a.is_held(): bad.append("is_held() true after release")
    # provider level: commit / create call provider.acquire() as a statement - it must not return while another holder is live
    from datashard.lock_provider import LocalLockProvider
    p2 = os.path.join(root, ".locks", "prov.lock")
    P1, P2 = LocalLockProvider(p2, 0.3), LocalLockProvider(p2, 0.3)
    P1.acquire()
    try:
        r = P2.acquire()
        bad.append("blocked LocalLockProvider.acquire() returned %r instead of raising TimeoutError while another holder is live" % (r,))
    except TimeoutError:
        pass
    P1.release()
finally:
    shutil.rmtree(root, ignore_errors=True)
print("replay FileLock ->", bad or "ok")
sys.exit(1 if bad else 0)
'''


register(Unit(P, "LOCAL/_try_acquire_once", h_try_acquire_once, functions=[f"{FL}:FileLock._try_acquire_once"], replay=_replay_flock))
register(Unit(P, "LOCAL/acquire", h_acquire, functions=[f"{FL}:FileLock.acquire"], replay=_replay_flock))
register(Unit(P, "LOCAL/release", h_release, functions=[f"{FL}:FileLock.release"], replay=_replay_flock))
register(Unit(P, "PROVIDER/LocalLockProvider.acquire", h_provider_acquire_local, functions=[f"{LP}:LocalLockProvider.acquire"], replay=_replay_flock))
register(Unit(P, "LOCAL/is_held", h_is_held_local, functions=[f"{FL}:FileLock.is_held", f"{LP}:LocalLockProvider.is_held"], replay=_replay_flock))


# =================================================================================== S3 lock
def s3lock_world(h: H, g):
    """The lock object: (exists, content, etag, last_modified).  Environment steps (other agents: create / renew / take over /
    release, all by the same protocol) may change it at every request boundary."""
    c = h.ctx
    # T-s3 (faithful to S3): the ETag of a single-part object is a function of its CONTENT (MD5) - writing identical bytes again
    # (a renewal with a constant body) changes LastModified but NOT the ETag
    ETAG = z3.Function("s3.etag_of_content", STR, z3.IntSort())
    w = {"ex": z3.Bool("lock_exists0"), "content": z3.String("lock_content0"), "etag": z3.Int("lock_etag0"), "lm": z3.Real("lock_last_modified0"),
         "log": [], "ETAG": ETAG}
    c.assume(w["etag"] == ETAG(w["content"]))

    def own(ct):
        """content written by this provider: its id, optionally followed by a newline and a per-write nonce"""
        lid = g["lock_id"].z
        return z3.Or(ct == lid, z3.PrefixOf(z3.Concat(lid, z3.StringVal("\n")), ct))
    w["own"] = own

    def etag_injective(a, b):
        c.assume(z3.Implies(ETAG(a) == ETAG(b), a == b), "T-s3: distinct contents have distinct ETags (no MD5 collision)")
    w["inj"] = etag_injective

    def env_step(I, when):
        if not g.get("env", True):
            return
        ex2, ct2, tag2, lm2 = I.ctx.fresh_bool("lock_exists"), I.ctx.fresh_str("lock_content"), I.ctx.fresh_int("lock_etag"), I.ctx.fresh("lock_lm", z3.RealSort())
        changed = I.ctx.fresh_bool("env_changed_lock")
        # other agents write THEIR ids (never ours); an agent re-writing the same content (its renewal) keeps the ETag
        # rely R-nonce: other agents run the same protocol, whose every write changes the content (guarantee G-nonce, proved for
        # this code's own PUTs by the obligation NONCE below) - unless the object was deleted and re-created in between
        I.ctx.assume(z3.Implies(z3.And(changed, ex2, w["ex"], lm2 != w["lm"]), ct2 != w["content"]), "R-nonce")
        I.ctx.assume(z3.If(changed, z3.And(tag2 == ETAG(ct2), z3.Not(own(ct2)), lm2 >= w["lm"]),
                           z3.And(ex2 == w["ex"], ct2 == w["content"], tag2 == w["etag"], lm2 == w["lm"])))
        I.ctx.assume(z3.Implies(ETAG(ct2) == ETAG(w["content"]), ct2 == w["content"]))
        w["ex"], w["content"], w["etag"], w["lm"] = ex2, ct2, tag2, lm2
        w["log"].append(("env", when, changed))

    def err(code, origin):
        return SExc("ClientError", origin=origin, fields={"response": PDict({"Error": PDict({"Code": code})}), "s3": True})

    def fault(I, op):
        if g.get("faults") and g.setdefault("nfaults", 0) < 1 and I.ctx.flip(f"s3-fault:{op}"):
            g["nfaults"] += 1
            code = SStr(I.ctx.fresh_str("errcode"))
            for nf in ("404", "NoSuchKey", "PreconditionFailed", "412", "ConditionalRequestConflict"):
                I.ctx.assume(code.z != z3.StringVal(nf))
            raise PyRaise(err(code, f"fault:{op}"))

    def put_object(I, o, a, k):
        env_step(I, "put")
        fault(I, "put_object")
        body = k["Body"]
        if "IfNoneMatch" in k:
            ok = z3.Not(w["ex"])
        elif "IfMatch" in k:
            ok = z3.And(w["ex"], w["etag"] == pyops.int_z(I.force(k["IfMatch"])))
        else:
            ok = z3.BoolVal(True)
        cond = "IfNoneMatch" if "IfNoneMatch" in k else ("IfMatch" if "IfMatch" in k else None)
        if not I.ctx.decide(ok, "put-precondition"):
            w["log"].append(("put-rejected", cond))
            code = ["PreconditionFailed", "412"][I.ctx.choose(2, "cas-code")] if "IfNoneMatch" in k or w_true(w["ex"]) else "PreconditionFailed"
            raise PyRaise(err(code, "precondition failed"))
        bz = pyops.str_z(body)
        text = bz.arg(0) if z3.is_app(bz) and bz.decl().name() == "utf8.encode" else z3.Function("utf8.decode", STR, STR)(bz)
        newtag = ETAG(text)
        I.ctx.assume(z3.Implies(newtag == w["etag"], text == w["content"]), "T-s3: distinct contents have distinct ETags")
        fresh_tokens = [hx for hx in I.ctx.ghost.get("uuid", {}).get("hex", [])]
        if fresh_tokens:
            # A-uuid: a body that carries a token generated during this call differs from every content written before
            I.ctx.assume(z3.Implies(z3.Or(*[z3.Contains(text, hx) for hx in fresh_tokens]), text != w["content"]),
                         "A-uuid: a freshly generated nonce makes the body differ from the current content")
        h.ensure("NONCE:every-write-carries-a-fresh-token(so-the-content-and-its-ETag-change-with-every-write)",
                 z3.Or(*[z3.Contains(text, hx) for hx in fresh_tokens]) if fresh_tokens else z3.BoolVal(False),
                 classes=[("renewal-with-identical-body-keeps-the-etag", z3.BoolVal(True))])
        was = (w["ex"], w["content"], w["etag"], w["lm"])
        w["ex"], w["content"], w["etag"], w["lm"] = z3.BoolVal(True), text, newtag, g["now"](I)
        w["log"].append(("put", cond, k.get("IfMatch"), was, text))
        return PDict({"ETag": SInt(newtag)})

    def w_true(b):
        return True

    def head_object(I, o, a, k):
        env_step(I, "head")
        fault(I, "head_object")
        if not I.ctx.decide(w["ex"], "head-exists"):
            raise PyRaise(err("404", "head: no such key"))
        lm = TheoryObj("s3time", fields={"t": w["lm"]})
        w["log"].append(("head", w["etag"], w["lm"], w["content"]))
        return PDict({"LastModified": lm, "ETag": SInt(w["etag"])})

    def get_object(I, o, a, k):
        env_step(I, "get")
        fault(I, "get_object")
        if not I.ctx.decide(w["ex"], "get-exists"):
            raise PyRaise(err("NoSuchKey" if I.ctx.flip("nosuchkey-spelling") else "404", "get: no such key"))
        w["log"].append(("get", w["content"], w["etag"]))
        body = TheoryObj("s3body", fields={"data": SBytes(z3.Function("utf8.encode", STR, STR)(w["content"]))})
        return PDict({"Body": body, "ETag": SInt(w["etag"])})

    def delete_object(I, o, a, k):
        env_step(I, "delete")
        fault(I, "delete_object")
        w["log"].append(("delete", w["ex"], w["content"], w["etag"], w["lm"]))
        w["ex"] = z3.BoolVal(False)
        return PDict({})
    T = h.reg.theory_methods
    T[("s3client", "put_object")] = put_object
    T[("s3client", "head_object")] = head_object
    T[("s3client", "get_object")] = get_object
    T[("s3client", "delete_object")] = delete_object
    T[("s3body", "read")] = lambda I, o, a, k: o.fields["data"]

    def decode(I, recv, a, k):
        return recv
    # body.read().decode('utf-8') : the lock content (utf-8 of an ASCII uuid): decode(encode(s)) = s
    return w


def s3provider(h: H, g, cls="S3LockProvider", locked=False):
    c = h.ctx
    lock_id = h.str("lock_id")
    g["lock_id"] = lock_id
    misc.install_uuid(h.reg, c)
    h.assume(pb.not_contains(lock_id.z, "\n"), "lock ids are uuid strings")
    misc.install_clock(h.reg, c)
    c.ghost["clock"]["monotone"] = True
    g["now"] = lambda I: (c.ghost["clock"]["last"] if c.ghost["clock"]["last"] is not None else z3.RealVal(0))
    lease = h.int("lease_seconds")
    h.assume(lease.z > 0)
    # datetime.now(timezone.utc) - last_modified  -> timedelta.total_seconds()
    h.reg.modfuncs["datetime.datetime.now"] = lambda I, a, k: TheoryObj("utcnow", fields={"t": misc_clock_read(I), "__overloads__": True})

    def misc_clock_read(I):
        r = I.ctx.fresh("utcnow", z3.RealSort())
        last = c.ghost["clock"]["last"]
        if last is not None:
            I.ctx.assume(r >= last)
        c.ghost["clock"]["last"] = r
        return r
    h.reg.modconsts["datetime.timezone.utc"] = "UTC"
    T = h.reg.theory_methods
    T[("utcnow", "__sub__")] = lambda I, o, a, k: TheoryObj("timedelta", fields={"s": o.fields["t"] - a[0].fields["t"]})
    h.reg.theory_methods[("utcnow", "__sub__")] = T[("utcnow", "__sub__")]
    T[("timedelta", "total_seconds")] = lambda I, o, a, k: SXReal(z3.BoolVal(False), z3.IntVal(0), o.fields["s"])
    prov = h.obj(cls, s3=TheoryObj("s3client"), bucket="bkt", key="locks/metadata.lock", timeout=SXReal(z3.BoolVal(False), z3.IntVal(0), z3.Real("timeout")),
                 lease_seconds=lease, lock_id=lock_id, is_locked=locked,
                 _lease_deadline=(SOpt(c.fresh_bool("lease_deadline_none"), SXReal(z3.BoolVal(False), z3.IntVal(0), c.fresh("lease_deadline", z3.RealSort()))) if locked else None),
                 _heartbeat_thread=None,
                 _stop_heartbeat=TheoryObj("event"), _etag=(SInt(c.fresh_int("own_etag")) if locked else None), _state_lock=TheoryObj("rlock"))
    return prov, lock_id, lease


def install_overloads(h: H):
    for th in ("utcnow",):
        pass


def h_try_acquire(h: H):
    g = {"faults": True}
    prov, lock_id, lease = s3provider(h, g)
    w = s3lock_world(h, g)
    took = []

    def takeover(I, fv, args, kwargs):
        took.append(1)
        return I.ctx.flip("takeover-succeeds")
    h.reg.contracts[f"{LP}:S3LockProvider._try_takeover_expired"] = takeover
    out, val = h.run(f"{LP}:S3LockProvider._try_acquire", [prov])
    puts = [e for e in w["log"] if e[0] == "put"]
    rej = [e for e in w["log"] if e[0] == "put-rejected"]
    for e in puts + [("x", r[1]) for r in rej]:
        h.ensure("CREATE:only-conditional-create(If-None-Match:*)", e[1] == "IfNoneMatch")
    if out == "ok" and val is True and not took:
        h.ensure("CREATE:True-without-takeover=>object-was-absent-when-the-PUT-landed", len(puts) == 1 and z3.Not(puts[0][3][0]))
        h.ensure("CREATE:own-id-written", w["own"](puts[0][4]) if puts else z3.BoolVal(False))
        h.ensure("CREATE:etag-remembered", bool(puts) and isinstance(prov.fields["_etag"], SInt))
    elif out == "ok":
        h.ensure("CREATE:otherwise-the-decision-is-the-takeover's", len(took) == 1 and len(rej) == 1)
    else:
        h.ensure("CREATE:raises-only-on-an-S3-fault", str(val.origin).startswith("fault:"))


def h_takeover(h: H):
    g = {"faults": True}
    prov, lock_id, lease = s3provider(h, g)
    w = s3lock_world(h, g)
    out, val = h.run(f"{LP}:S3LockProvider._try_takeover_expired", [prov])
    heads = [e for e in w["log"] if e[0] == "head"]
    puts = [e for e in w["log"] if e[0] == "put"]
    rej = [e for e in w["log"] if e[0] == "put-rejected"]
    now_reads = [r for r in h.ctx.ghost["clock"]["reads"]]
    if puts or rej:
        h.ensure("TAKEOVER:PUT-only-after-a-HEAD", len(heads) == 1)
        attempts = [(e[1], e[2]) for e in puts] + [(r[1], None) for r in rej]
        h.ensure("TAKEOVER:only-by-conditional-PUT(If-Match)", all(a[0] == "IfMatch" for a in attempts))
    if puts and heads:
        h.ensure("TAKEOVER:conditional-on-the-etag-seen-by-that-HEAD", pyops.bool_z(pyops.py_eq(puts[0][2], SInt(heads[0][1]))))
        h.ensure("TAKEOVER:only-if-the-lease-had-lapsed-at-the-HEAD(age>lease)",
                 z3.BoolVal(False) if h.ctx.ghost["clock"]["last"] is None else
                 h.ctx.ghost["clock"]["last"] - heads[0][2] > z3.ToReal(lease.z))
    if out == "ok" and val is True:
        h.ensure("TAKEOVER:True=>own-PUT-landed", len(puts) == 1)
        if len(puts) == 1 and heads:
            was = puts[0][3]
            # the purpose of the If-Match: the object replaced is the very (expired) one the HEAD looked at
            h.ensure("TAKEOVER:True=>the-lock-was-not-renewed-between-the-HEAD-and-the-takeover",
                     was[3] == heads[0][2],
                     classes=[("renewal-with-identical-body-keeps-the-etag", z3.And(was[1] == heads[0][3], was[3] != heads[0][2]))])
    elif out == "ok":
        h.ensure("TAKEOVER:False=>object-not-modified-by-this-call", not puts)
    else:
        h.ensure("TAKEOVER:raises-only-on-an-S3-fault-of-the-PUT", str(val.origin).startswith("fault:put_object"), detail=repr(val))


def h_renew(h: H):
    g = {"faults": True}
    prov, lock_id, lease = s3provider(h, g, locked=True)
    own = prov.fields["_etag"]
    w = s3lock_world(h, g)
    out, val = h.run(f"{LP}:S3LockProvider._renew_once", [prov])
    puts = [e for e in w["log"] if e[0] == "put"]
    rej = [e for e in w["log"] if e[0] == "put-rejected"]
    h.ensure("RENEW:never-raises", out == "ok", detail=repr(val) if out != "ok" else "")
    for e in puts:
        h.ensure("RENEW:conditional-on-the-own-last-etag", e[1] == "IfMatch" and pyops.bool_z(pyops.py_eq(e[2], own)))
    if rej:
        h.ensure("RENEW:failed-precondition=>lock-considered-lost", prov.fields["is_locked"] is False and rej[0][1] == "IfMatch")
    if puts:
        h.ensure("RENEW:new-etag-remembered", isinstance(prov.fields["_etag"], SInt) and prov.fields["_etag"] is not own)


def h_is_held_s3(h: H):
    c = h.ctx
    g = {"faults": True}
    locked = c.flip("is_locked")
    prov, lock_id, lease = s3provider(h, g, locked=locked)
    w = s3lock_world(h, g)
    h.reg.contracts["s3_consistency:is_permanent_s3_error"] = lambda I, fv, a, k: I.ctx.flip("permanent")
    out, val = h.call(h.I.getattr(prov, "is_held"), [])
    gets = [e for e in w["log"] if e[0] == "get"]
    h.ensure("HELD-S3:never-raises", out == "ok", detail=repr(val) if out != "ok" else "")
    if out == "ok" and pyops.truth(val) is True:
        h.ensure("HELD-S3:True=>content-read-IN-THIS-CALL-is-the-own-id",
                 z3.BoolVal(False) if not gets else w["own"](gets[-1][1]))
        h.ensure("HELD-S3:True-only-while-is_locked", locked is True)
    elif out == "ok":
        if gets:
            h.ensure("HELD-S3:a-foreign-owner-observed=>is_locked-cleared",
                     z3.Implies(z3.Not(w["own"](gets[-1][1])), z3.BoolVal(prov.fields["is_locked"] is False)))
    h.ensure("HELD-S3:is_held-never-mutates-the-lock-object", not [e for e in w["log"] if e[0] in ("put", "delete")])


def h_release_s3(h: H):
    c = h.ctx
    g = {"faults": False}
    prov, lock_id, lease = s3provider(h, g, locked=True)
    w = s3lock_world(h, g)
    h.reg.contracts[f"{LP}:S3LockProviderBase._stop_heartbeat_thread"] = lambda I, fv, a, k: None
    out, val = h.call(h.I.getattr(prov, "release"), [])
    dels = [e for e in w["log"] if e[0] == "delete"]
    h.ensure("REL-S3:release-never-raises", out == "ok")
    h.ensure("REL-S3:not-held-afterwards", prov.fields["is_locked"] is False)
    for d in dels:
        _op, ex_at, content_at, tag_at, lm_at = d
        h.ensure("REL-S3:deletes-only-while-the-object-carries-the-own-id-at-that-instant",
                 z3.Implies(ex_at, w["own"](content_at)),
                 classes=[("takeover-between-GET-and-unconditional-DELETE", z3.And(ex_at, z3.Not(w["own"](content_at))))],
                 detail="release() reads the object, then issues an unconditional delete_object")
    for idx, e in enumerate(w["log"]):
        if e[0] != "delete":
            continue
        before = [x for x in w["log"][:idx] if x[0] in ("get", "put", "head", "delete", "put-rejected")]
        h.ensure("REL-S3:deletes-only-right-after-reading-back-its-own-id-from-the-object",
                 w["own"](before[-1][1]) if before and before[-1][0] == "get" else z3.BoolVal(False),
                 detail="the last request before the DELETE must be a GET that returned this provider's own id")
    h.ensure("REL-S3:never-overwrites-the-lock-object", not [e for e in w["log"] if e[0] == "put"])


def _replay_takeover_renewal(ob):
    """the holder's renewal lands between a contender's HEAD (lease looked lapsed) and its If-Match PUT; ETags as on S3 (MD5)"""
    return '''
import sys, datetime
from doubles.s3 import FakeS3
from datashard.lock_provider import S3LockProvider
import datetime as _d
bad = []
now = {"t": datetime.datetime(2026, 1, 1, tzinfo=datetime.timezone.utc)}
s3 = FakeS3(clock=lambda: now["t"]); s3.content_etags = True
class _DT(datetime.datetime):
    @classmethod
    def now(cls, tz=None): return now["t"]
real_dt = _d.datetime
_d.datetime = _DT
try:
    def mk():
        p = S3LockProvider(s3, "bkt", "locks/metadata.lock", timeout=0.1, lease_seconds=60)
        p._start_heartbeat = lambda: None
        return p
    A, B = mk(), mk()
    assert A._try_acquire(); A.is_locked = True
    now["t"] += datetime.timedelta(seconds=61)          # A's heartbeat is late: the lease looks lapsed
    st = {"armed": True}
    def before(op, kw):
        if op == "put_object" and st["armed"] and kw.get("IfMatch") is not None:
            st["armed"] = False
            A._renew_once()                                 # ... and lands right before B's conditional PUT
    s3.before = before
    took = B._try_takeover_expired()
    s3.before = None
    lm = s3.meta[("bkt", "locks/metadata.lock")]["LastModified"]
    if took and A.is_locked:
        bad.append("takeover succeeded although the holder had just renewed (lease not lapsed at the takeover): both believe they hold")
finally:
    _d.datetime = real_dt
print("replay takeover/renewal ->", bad or "ok")
sys.exit(1 if bad else 0)
'''


def _replay_s3lock(ob):
    # the GET/DELETE race of release() is the listed known finding: it is replayed for that obligation only
    fallback = ob.get("verdict") in ("undecided", "scenario") or "deletes-only-while-the-object-carries-the-own-id" not in str(ob.get("name", ""))
    return f"FALLBACK = {fallback!r}\n" + '''
import sys, datetime, time
from doubles.s3 import FakeS3
from datashard.lock_provider import S3LockProvider
bad = []
now = {"t": datetime.datetime(2026, 1, 1, tzinfo=datetime.timezone.utc)}
s3 = FakeS3(clock=lambda: now["t"])
import datashard.lock_provider as lp
class _DT(datetime.datetime):
    @classmethod
    def now(cls, tz=None): return now["t"]
def mk():
    p = S3LockProvider(s3, "bkt", "locks/metadata.lock", timeout=0.1, lease_seconds=60)
    p._start_heartbeat = lambda: None
    return p
import datetime as _d
real_dt = _d.datetime
_d.datetime = _DT
try:
    A, B, C = mk(), mk(), mk()
    assert A.acquire()
    if B._try_acquire(): bad.append("B acquired while A's lease is fresh")
    # a blocked acquire() (what commit calls, as a statement) must fail with TimeoutError - not return, not wait for ever
    import threading
    res = {}
    def blocked():
        try: res["ret"] = B.acquire()
        except TimeoutError: res["timeout"] = True
        except Exception as e: res["exc"] = repr(e)
    th = threading.Thread(target=blocked, daemon=True); th.start(); th.join(6.0)
    if th.is_alive(): bad.append("blocked acquire() still waiting 6 s after a 0.1 s timeout")
    elif "ret" in res: bad.append("blocked acquire() returned %r while another holder's lease is fresh" % (res["ret"],))
    elif "exc" in res: bad.append("blocked acquire() raised " + res["exc"])
    if B.is_locked: bad.append("blocked acquirer marks itself as holder")
    now["t"] += datetime.timedelta(seconds=30)
    if B._try_acquire(): bad.append("takeover before the lease lapsed")
    # A is paused; lease lapses; B takes over; A must observe that it no longer holds
    now["t"] += datetime.timedelta(seconds=61)
    if not B._try_acquire(): bad.append("takeover after lapse failed")
    B.is_locked = True
    if A.is_held(): bad.append("superseded holder still reports is_held()")
    A.is_locked = True
    # a superseded holder that has not noticed yet releases: the object now carries B's id and must stay
    A.release()
    cur_obj = s3.objects.get(("bkt", "locks/metadata.lock"))
    if cur_obj is None or not cur_obj.decode().startswith(B.lock_id):
        bad.append("release() by a superseded holder removed the lock object of the agent that took over")
    A.is_locked = True
    # REL-S3: A's release interleaved with a takeover between its GET and its DELETE
    state = {}
    def before(op, kw):
        if op == "delete_object" and not state.get("done"):
            state["done"] = True
            s3.objects[("bkt", "locks/metadata.lock")] = C.lock_id.encode(); s3._stamp(("bkt", "locks/metadata.lock"))
    s3.objects[("bkt", "locks/metadata.lock")] = A.lock_id.encode(); s3._stamp(("bkt", "locks/metadata.lock"))
    s3.before = before
    A.release()
    s3.before = None
    if ("bkt", "locks/metadata.lock") not in s3.objects and not FALLBACK:
        bad.append("release() deleted the lock object that another agent had just taken over")
finally:
    _d.datetime = real_dt
print("replay S3 lock ->", bad or "ok")
sys.exit(1 if bad else 0)
'''


register(Unit(P, "S3/_try_acquire", h_try_acquire, functions=[f"{LP}:S3LockProvider._try_acquire"], replay=_replay_s3lock))
register(Unit(P, "S3/_try_takeover_expired", h_takeover, functions=[f"{LP}:S3LockProvider._try_takeover_expired"], replay=_replay_takeover_renewal))
register(Unit(P, "S3/_renew_once", h_renew, functions=[f"{LP}:S3LockProvider._renew_once"], replay=_replay_takeover_renewal))
register(Unit(P, "PROVIDER/S3LockProviderBase.acquire", h_provider_acquire_s3, functions=[f"{LP}:S3LockProviderBase.acquire"], replay=_replay_s3lock))
register(Unit(P, "HEARTBEAT/_heartbeat_loop", h_heartbeat_loop, functions=[f"{LP}:S3LockProviderBase._heartbeat_loop"], replay=_replay_takeover_renewal))
register(Unit(P, "S3/is_held", h_is_held_s3, functions=[f"{LP}:S3LockProviderBase.is_held"], replay=_replay_s3lock))
register(Unit(P, "S3/release", h_release_s3, functions=[f"{LP}:S3LockProviderBase.release"], replay=_replay_s3lock))

from contracts import lemmas as _L  # noqa: E402
register(Unit(P, "LEMMA/EXCL", _L.h_excl, functions=[], replay=_replay_s3lock, uses=_L.EXCL_USES))


def h_lock_identity(h: H):
    """ID-FRESH: every S3 lock provider instance gets an identity that no other instance (in this or any other process, on this
    or any other host) shares - a fresh uuid4.  Ownership checks compare identities; two instances with one identity (host name,
    pid, ...) would each take the other's lock for their own: is_held()'s fence and release() would accept a taken-over lock."""
    c = h.ctx
    misc.install_uuid(h.reg, c)
    prov = SObj("S3LockProvider", {}, label="provider")
    h.reg.modfuncs["threading.Event"] = lambda I, a, k: TheoryObj("event")
    h.reg.modfuncs["threading.Lock"] = lambda I, a, k: TheoryObj("rlock")
    out, val = h.run(f"{LP}:S3LockProviderBase.__init__", [prov, TheoryObj("s3client"), "bkt", "locks/metadata.lock"], {"timeout": 30.0, "lease_seconds": 60.0})
    h.ensure("ID-FRESH:constructor-does-not-raise", out == "ok", detail=repr(val) if out != "ok" else "")
    if out != "ok":
        return
    lid = prov.fields.get("lock_id")
    hx = c.ghost.get("uuid", {}).get("hex", [])
    h.ensure("ID-FRESH:lock-id-is-a-freshly-generated-uuid4(no-two-instances-share-an-identity)",
             z3.Or(*[pyops.str_z(lid) == x for x in hx]) if (hx and lid is not None) else z3.BoolVal(False),
             detail="A-uuid gives uniqueness only for values that come from uuid4()")
    h.ensure("ID-FRESH:a-new-provider-holds-nothing", prov.fields.get("is_locked") is False and prov.fields.get("_etag") is None)


register(Unit(P, "S3/identity", h_lock_identity, functions=[f"{LP}:S3LockProviderBase.__init__"], replay=_replay_s3lock))
