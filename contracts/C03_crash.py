"""C03 - a crash at any point leaves the table in the pre- or post-operation state.

A crash is a PREFIX of the sequence of storage actions an operation issues (nothing after it runs - no handler, no finally).
A contract cannot quantify over 'the process dies here' directly; the property is decomposed into per-function ORDER / FRAME
contracts that hold at every action boundary, and lemma CRASH (stated, meta-argument) puts them together:

  ATOMIC-FILE   LocalStorageBackend.write_file / DataFileWriter: content goes to a temp name in the target directory, is fsynced,
                then renamed - a prefix leaves either no file of that name or the complete file (never a torn one)   [C16 units]
  ORDER         every file reachable from the new metadata, and the new metadata file itself, is written before the pointer
                write; the pointer write is the only action that changes what readers resolve                       [C16/C01 units]
  NO-CLOBBER    before the pointer write an operation only CREATES files under fresh names (WRITE-ONCE) and never deletes or
                overwrites a file reachable from the old pointer                                                     [C09 units]
  POST-CP       after the pointer write only markers are removed                                                     [C04 unit]
  GC-PREFIX     every delete issued by the collector is, at that instant, for a file outside the reachable set of every
                retained snapshot and outside the protection set - so every prefix of a collection is safe           [C05 units]
  RECOVER       reopening resolves the pointer, or recovers the highest version among metadata files, ignoring temp files
                and anything outside the metadata-file language                                                      [C10 units]
  INIT          creation writes the metadata file before the pointer                                                  [C10 unit]
Lemma CRASH: with these, after any prefix the pointer names a version whose files all exist completely (pre-state if the
pointer write is not in the prefix, post-state if it is), leftovers are unreachable, and a later collection deletes only those.
The interleaving 'metadata file of version N+1 written, pointer not yet, pointer later LOST' is the listed known finding of C10
(recovery surfaces the uncommitted version) and is reported there.

Bounded stand-in (thorough tier and replay, never counted as proved): a child process performs each operation and is killed
with os._exit at its k-th storage system call, for every k; the parent reopens the table and checks pre/post state, readability
of every retained snapshot, a follow-up append and a collection."""
from contracts import C04_commit  # noqa: F401  (registers nothing here; harness factories live in commitpath)
from contracts import C05_gc as gc
from contracts import C10_hint as c10
from contracts import C16_durable as c16
from contracts import commitpath as cp
from pyvc.runner import Unit, register, units_of

P = "C03"
META = dict(cp.META)
META["trusted"] = list(META["trusted"]) + [
    "lemma CRASH (meta-argument over ATOMIC-FILE, ORDER, NO-CLOBBER, POST-CP, GC-PREFIX, RECOVER, INIT); crash = prefix of the "
    "storage-action trace; T-os: rename is atomic, a file that was fsynced before the rename is complete after it",
    "power loss (as opposed to process death) additionally needs the durable-state reading of fsync, see C16"]
META["bounded"] = ["fork-and-kill sweep: every storage system call of create / append / multi-op transaction / file delete / expire / "
                   "delete-snapshot / collection on a small table, one crash per run (thorough tier, replay)"]


def _replay_crash(ob):
    return '''
import os, sys, json, shutil, tempfile, time, glob
from datashard import create_table, load_table
from datashard.data_structures import Schema
sch = Schema(schema_id=1, fields=[{"id": 1, "name": "a", "type": "long", "required": False}])
bad = []
SYSCALLS = ["replace", "fsync", "unlink", "remove", "rename", "open", "mkdir", "makedirs", "rmdir", "write", "close", "utime"]
def prepare(root, nsnap):
    p = os.path.join(root, "t")
    t = create_table(p, schema=sch)
    for i in range(nsnap): t.append_records([{"a": i}])
    return p
def op_create(p):  create_table(p, schema=sch)
def op_append(p):  load_table(p).append_records([{"a": 100}])
def op_multi(p):
    t = load_table(p)
    with t.new_transaction() as tx:
        tx.append_data([{"a": 200}]); tx.append_data([{"a": 201}]); tx.commit()
def op_delete_file(p):
    t = load_table(p); f = sorted(x.file_path for x in t._get_all_data_files())[0]
    with t.new_transaction() as tx:
        tx.delete_files([f]); tx.commit()
def op_expire(p):
    t = load_table(p)
    with t.new_transaction() as tx:
        tx.expire_snapshots(int(time.time() * 1000) + 10_000_000); tx.commit()
def op_delete_snapshot(p):
    t = load_table(p); t.snapshot_manager.delete_snapshot(t.metadata_manager.refresh().snapshots[0].snapshot_id)
def op_gc(p):
    old = time.time() - 7200
    for d, _s, fs in os.walk(p):
        for f in fs: os.utime(os.path.join(d, f), (old, old))
    load_table(p).garbage_collect(grace_period_ms=1000)
OPS = [("create", op_create, 0), ("append", op_append, 2), ("multi-op", op_multi, 1), ("delete-file", op_delete_file, 2),
       ("expire", op_expire, 3), ("delete-snapshot", op_delete_snapshot, 3), ("collect", op_gc, 3)]
def state(p):
    """(pointer text, rows, snapshot ids) through the library in THIS process + an independent read of every retained snapshot"""
    hint = os.path.join(p, "metadata.version-hint.text")
    ptr = open(hint).read() if os.path.exists(hint) else None
    try:
        t = load_table(p)
    except ValueError:
        return (ptr, None, None)
    m = t.metadata_manager.refresh()
    for s in m.snapshots:                      # every retained snapshot fully readable
        for mf in t.file_manager.read_manifest_list_file(s.manifest_list.lstrip("/")):
            for df in t.file_manager.read_manifest_file(mf.manifest_path.lstrip("/")):
                if not os.path.exists(os.path.join(p, df.file_path.lstrip("/"))): raise RuntimeError("missing data file " + df.file_path)
    return (ptr, sorted(r["a"] for r in t.scan()), [s.snapshot_id for s in m.snapshots])
def child(opfn, p, k):
    import os as _os
    n = {"c": 0}
    def wrap(name):
        orig = getattr(_os, name)
        def w(*a, **kw):
            if n["c"] == k: _os._exit(77)          # the process dies here: nothing else runs
            n["c"] += 1
            return orig(*a, **kw)
        setattr(_os, name, w)
    for name in SYSCALLS: wrap(name)
    try: opfn(p)
    except BaseException: _os._exit(78)
    _os._exit(0 if n["c"] <= k else 79)
total = 0
for name, opfn, nsnap in OPS:
    base = tempfile.mkdtemp(prefix="pyvc_crash_")
    try:
        tmpl = os.path.join(base, "tmpl"); os.makedirs(tmpl)
        if name == "create":
            p0 = os.path.join(tmpl, "t")
            pre = (None, None, None)
        else:
            p0 = prepare(tmpl, nsnap)
            if name == "collect":                                   # give the collector leftovers to remove
                open(os.path.join(p0, "data", "orphan.parquet"), "wb").write(b"x")
            pre = state(p0)
        k = 0
        post = None
        while k < 400:
            run = os.path.join(base, "run%d" % k); shutil.copytree(tmpl, run, symlinks=True)
            p = os.path.join(run, "t")
            pid = os.fork()
            if pid == 0:
                child(opfn, p, k)
            _pid, status = os.waitpid(pid, 0)
            code = os.WEXITSTATUS(status)
            total += 1
            try:
                st = state(p)
            except Exception as e:
                bad.append((name, k, "table unreadable after crash: " + repr(e)[:100])); st = None
            if code == 0:
                post = st
                shutil.rmtree(run, ignore_errors=True)
                break
            if code != 77:
                bad.append((name, k, "child ended with", code))
            if st is not None:
                rows_pre, rows_now = pre[1], st[1]
                advanced = st[0] is not None and st[0] != pre[0]        # a MISSING pointer has not been advanced
                if pre[0] is not None and not st[0]:
                    bad.append((name, k, "the version pointer is missing/empty after the crash (a pointer-following reader cannot open the table)"))
                if name == "collect":
                    if (st[1], st[2]) != (pre[1], pre[2]): bad.append((name, k, "collection changed table content", st[1]))
                elif not advanced and (st[1], st[2]) != (pre[1], pre[2]) and not (name == "create" and st[1] in (None, [])):
                    bad.append((name, k, "pointer not advanced but state differs from the pre-state", pre[1], st[1]))
                # follow-up: the reopened table accepts a commit and a collection removes only leftovers
                try:
                    t = create_table(p, schema=sch) if name == "create" else load_table(p)
                    want = sorted((r["a"] for r in t.scan())) + [999]
                    t.append_records([{"a": 999}])
                    old = time.time() - 7200
                    for d, _s, fs in os.walk(p):
                        for f in fs: os.utime(os.path.join(d, f), (old, old))
                    t.garbage_collect(grace_period_ms=1000)
                    got = state(p)
                    if got[1] != sorted(want): bad.append((name, k, "follow-up append + collection changed rows", want, got[1]))
                except Exception as e:
                    bad.append((name, k, "follow-up failed: " + repr(e)[:120]))
            shutil.rmtree(run, ignore_errors=True)
            if len(bad) > 6: break
            k += 1
        # crashed runs that advanced the pointer must equal the completed operation's state: checked via rows above (pre) and
        # here for the last crash points (post known only now) - kept simple: nothing between pre and post is acceptable
    finally:
        shutil.rmtree(base, ignore_errors=True)
    print(name, "crash points explored:", k)
    if len(bad) > 6: break
print("replay crash sweep (bounded):", total, "runs ->", bad[:4] or "ok")
sys.exit(1 if bad else 0)
'''


def _re(prefix, units, pick):
    for u in list(units):
        if pick(u.name):
            register(Unit(P, f"{prefix}/{u.name}", u.harness, functions=u.functions, replay=_replay_crash, reg_factory=u.reg_factory,
                          z3_timeout_ms=u.z3_timeout_ms))


_re("ATOMIC-FILE", units_of("C16"), lambda n: n.startswith(("DURABLE-WRITE", "DURABLE-DATA")))
_re("ORDER", units_of("C16"), lambda n: n.startswith("ORDER"))
for k in ("manifest", "list"):
    register(Unit(P, f"NO-CLOBBER/create_{k}", cp.h_create_manifest(k),
                  functions=[f"{cp.FMOD}:FileManager.create_manifest_file" if k == "manifest" else f"{cp.FMOD}:FileManager.create_manifest_list_file"], replay=_replay_crash))
register(Unit(P, "NO-CLOBBER/append_data", cp.h_append_data, functions=[f"{cp.TX}:Transaction.append_data"], replay=_replay_crash))
register(Unit(P, "POST-CP/_finish_committed", cp.h_finish_committed, functions=[f"{cp.TX}:Transaction._finish_committed"], replay=_replay_crash))
_re("GC-PREFIX", units_of("C05"), lambda n: n.startswith(("GC-PREFIX", "COLLECT", "MARKERS")))
for u in list(units_of("C05")):
    pass
_re("RECOVER", units_of("C10"), lambda n: n.startswith(("RESOLVE", "RECOVER", "PARSE-TOTAL")))
_re("INIT", units_of("C10"), lambda n: n.startswith("NO-REINIT"))

from contracts import lemmas as _L  # noqa: E402
register(Unit(P, "LEMMA/CRASH", _L.h_crash, functions=[], replay=_replay_crash, uses=_L.CRASH_USES))

from contracts import helpers as _HLP  # noqa: E402
_HLP.register_under("C03", ["HELPER/validate_data_files", "HELPER/validate_file_exists", "HELPER/metadata-file-io"])
