"""C01 - concurrent commits are serializable.
LIN/NOFLIP/STAMP/GUAR-lock on MetadataManager.commit (local: rely RG-lock; CAS: rely RG-any), RETRY and DERIVE on
Transaction.commit / _commit_file_ops / create_snapshot; lemma SER (a chain of flips each satisfying LIN+STAMP+DERIVE is a
serial history) is the stated meta-argument."""
from contracts import commitpath as cp
from pyvc.runner import Unit, register

P = "C01"
META = dict(cp.META)
META["trusted"] = list(META["trusted"]) + [
    "lemma SER (meta-argument): pointer flips each satisfying LIN (replaced == validated), STAMP (stamps strictly increase) and DERIVE "
    "(new = Apply(ops, validated base)) form a linear chain whose final table is the fold of Apply over the acknowledged commits",
    "T-flock: while a holder keeps the flock no other agent writes the pointer (every pointer write lies inside the lock: GUAR-lock)"]
MMC = [f"{cp.MM}:MetadataManager.commit"]
register(Unit(P, "LIN/MetadataManager.commit-local", cp.h_mm_commit("local"), functions=MMC, replay=cp._replay_mm_commit))
register(Unit(P, "LIN/MetadataManager.commit-cas", cp.h_mm_commit("cas"), functions=MMC, replay=cp._replay_mm_commit))
for kind in ("file-ops", "metadata-only"):
    register(Unit(P, f"RETRY/Transaction.commit-{kind}", cp.h_tx_commit(kind, False), functions=[f"{cp.TX}:Transaction.commit"], replay=cp._replay_tx))
for mode in ("append", "delete", "both"):
    register(Unit(P, f"DERIVE/_commit_file_ops-{mode}", cp.h_commit_file_ops(mode), functions=[f"{cp.TX}:Transaction._commit_file_ops"], replay=cp._replay_tx))
from contracts import snapshots as _S
register(Unit(P, "DERIVE/create_snapshot", _S.h_create_snapshot_wf, functions=[f"{cp.SM}:SnapshotManager.create_snapshot"], replay=cp._replay_tx))
register(Unit(P, "DERIVE/delete_snapshot", cp.h_delete_snapshot, functions=[f"{cp.SM}:SnapshotManager.delete_snapshot"], replay=cp._replay_tx))
from contracts import C19_locks as _c19
register(Unit(P, "GUAR-lock/FileLock.release(inode-persistent)", _c19.h_release, functions=["file_lock:FileLock.release"], replay=_c19._replay_flock, reg_factory=_c19.registry))
register(Unit(P, "GUAR-lock/FileLock._try_acquire_once", _c19.h_try_acquire_once, functions=["file_lock:FileLock._try_acquire_once"], replay=_c19._replay_flock, reg_factory=_c19.registry))

from contracts import lemmas as _L  # noqa: E402
register(Unit(P, "LEMMA/SER", _L.h_ser, functions=[], replay=cp._replay_mm_commit, uses=_L.SER_USES))

from contracts import helpers as _HLP  # noqa: E402
_HLP.register_under("C01", ["HELPER/_deep_copy_metadata", "HELPER/validate_data_files", "HELPER/validate_file_exists", "HELPER/metadata-file-io", "NAME/_new_metadata_filename"])

from contracts import C20_storage as _c20  # noqa: E402
_c20.register_cas_map_under(P)

# "a commit that raised is not reflected": after the pointer flip nothing may raise (marker cleanup included)
register(Unit(P, "POST-CP/_finish_committed", cp.h_finish_committed, functions=[f"{cp.TX}:Transaction._finish_committed"], replay=cp._replay_tx))
