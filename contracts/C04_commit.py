"""C04 - a failed, interrupted or ambiguous commit never damages committed data.  Harnesses in commitpath.py:
CLASSIFY (_write_hint_at_commit_point), OUTCOME / DEL-OWN / AMBIG / POST-CP / ACTIVE-INV / USABLE on Transaction.commit,
_rollback, _finish_committed, rollback, __exit__, begin, with fault edges and asynchronous-interrupt edges."""
from contracts import commitpath as cp
from pyvc.runner import Unit, register

P = "C04"
META = dict(cp.META)
TXF = lambda *n: [f"{cp.TX}:Transaction.{x}" for x in n]
for cas, atomic, tag in ((False, True, "local"), (True, False, "cas-s3"), (False, False, "plain-s3")):
    register(Unit(P, f"CLASSIFY/_write_hint_at_commit_point-{tag}", cp.h_write_hint(cas, atomic),
                  functions=[f"{cp.MM}:MetadataManager._write_hint_at_commit_point"], replay=cp._replay_tx))
register(Unit(P, "DEL-OWN/_rollback", cp.h_rollback(True), functions=TXF("_rollback"), replay=cp._replay_tx))
register(Unit(P, "AMBIG/_rollback(delete_files=False)", cp.h_rollback(False), functions=TXF("_rollback"), replay=cp._replay_tx))
register(Unit(P, "ACTIVE-INV/_rollback-guarded", cp.h_rollback_guarded, functions=TXF("_rollback"), replay=cp._replay_tx))
register(Unit(P, "POST-CP/_finish_committed", cp.h_finish_committed, functions=TXF("_finish_committed"), replay=cp._replay_tx))
register(Unit(P, "ACTIVE-INV/rollback+__exit__", cp.h_rollback_public_and_exit, functions=TXF("rollback", "__exit__", "is_active"), replay=cp._replay_tx))
register(Unit(P, "USABLE/begin", cp.h_begin, functions=TXF("begin"), replay=cp._replay_tx))
for kind in ("file-ops", "metadata-only", "empty"):
    register(Unit(P, f"OUTCOME/Transaction.commit-{kind}", cp.h_tx_commit(kind, False), functions=TXF("commit"), replay=cp._replay_tx))
    register(Unit(P, f"ASYNC/Transaction.commit-{kind}", cp.h_tx_commit(kind, True), functions=TXF("commit"), replay=cp._replay_tx))
register(Unit(P, "RELEASE/MetadataManager.commit-local", cp.h_mm_commit("local"), functions=[f"{cp.MM}:MetadataManager.commit"], replay=cp._replay_mm_commit))
from contracts import C16_durable as _c16
register(Unit(P, "ATOMIC/LocalStorageBackend.write_file-faults", _c16.h_write_file(True), functions=["storage_backend:LocalStorageBackend.write_file"], replay=_c16._replay_write_file))

from contracts import helpers as _HLP  # noqa: E402
_HLP.register_under("C04", ["HELPER/_deep_copy_metadata"])


from contracts import C20_storage as _c20  # noqa: E402
_c20.register_cas_map_under(P)
