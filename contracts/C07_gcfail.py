"""C07 - garbage collection fails closed.  The harnesses live in C05_gc.py (same functions, fault edges enabled)."""
from contracts import C05_gc  # noqa: F401  (registers the C07 units)

META = dict(C05_gc.META)
