"""C07 - garbage collection fails closed.  The harnesses live in C05_gc.py (same functions, fault edges enabled)."""
from contracts import C05_gc  # noqa: F401  (registers the C07 units)

META = dict(C05_gc.META)

# the collector's reachability rests on the manifest readers failing closed (T-codec was a trusted assumption; the readers' own
# Avro-then-JSON fallback is verified by the C14 units, re-run here)
from contracts import C14_reads as _c14  # noqa: E402
from pyvc.runner import Unit as _Unit, register as _register  # noqa: E402
for _w in ("manifest", "list"):
    _register(_Unit("C07", f"READERS/read_manifest_{'file' if _w == 'manifest' else 'list_file'}-fallback", _c14.h_reader_fallback(_w),
                    functions=[f"file_manager:FileManager.read_manifest_{'file' if _w == 'manifest' else 'list_file'}"], replay=_c14._replay_fallback))

from contracts import helpers as _HC  # noqa: E402
_HC.register_under("C07", ["COUNT/recorded_manifest_count", "COUNT/expected_entry_count", "COUNT/_check_count"])

# the collector computes reachability from MetadataManager.refresh(): it must be the CURRENT version or an error
from contracts import readpath as _rpr  # noqa: E402
from pyvc.runner import Unit as _U2, register as _r2  # noqa: E402
for _n, _hf, _fs in _rpr.REFRESH_UNITS:
    if "refresh-exact" in _n:
        _r2(_U2("C07", _n, _hf, functions=_fs, replay=None))
