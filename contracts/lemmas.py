"""Lemmas over contracts: the step from discharged per-function obligations to a whole-history statement, as SMT obligations.

A lemma unit runs no repository code.  Its hypotheses are *named obligations of other units of the same property run* (Unit.uses;
the runner refuses the lemma - exit 2 - if a cited obligation was not generated and decided in that run); the harness restates
each hypothesis as a formula over an abstract vocabulary (instants, files, sets), and proves the conclusion for ALL values of that
vocabulary.  What remains trusted is stated per lemma: that the formula is a faithful reading of the cited obligation.
"""
from __future__ import annotations

import z3

from pyvc.runner import H, Unit

R = z3.RealSort()
INT = z3.IntSort()
B = z3.BoolSort()


def _lemma(h: H, name, hyps, concl):
    """prove  (and hyps) => concl  for all values of the free symbols; also that the hypotheses are satisfiable (no vacuity)"""
    h.ensure(name, z3.Implies(z3.And(*[f for _n, f in hyps]), concl))
    h.cover(name + ":hypotheses-consistent", z3.And(*[f for _n, f in hyps]))


# ================================================================================================ C06  STABLE
STABLE_USES = [
    "GUAR-tx:marker-registered-BEFORE-the-data-file-is-written",
    "GUAR-tx:protection-hook-called-with-the-path-BEFORE-the-write",
    "GUAR-tx:g2:markers-and-written-files-are-carried-unchanged-into-every-attempt",
    "DEL-OWN:after-the-commit-point-only-markers-are-removed",
    "GC-RG:markers-observed-no-later-than-the-metadata-read",
    "MARKER-KEEP:every-fresh-listed-marker's-target-is-in-the-result",
    "PROTECT:in-flight-files-protected-under-data",
    "REACH-ALL:data-files-of-EVERY-retained-snapshot-are-in-the-data-set",
]


def h_stable(h: H):
    """Lemma STABLE (C06).  One file f written by a transaction, one collector run.
    instants: tm marker written, tw file written (= its mtime), tc commit point (snapshot referencing f becomes current),
    tr marker removed;  t0 collector observes the markers, t1 collector reads the metadata, td collector decides about f.
    Conclusion: a file referenced by a snapshot that is committed (at any time) and retained is not deleted by the run."""
    tm, tw, tc, tr, t0, t1, td, grace = [z3.Real(n) for n in ("t_marker", "t_file", "t_commit", "t_marker_removed", "t_gc_markers",
                                                              "t_gc_metadata", "t_gc_delete", "grace")]
    committed = z3.Bool("transaction_commits")            # tc is meaningful only then
    retained_at_t1 = z3.Bool("snapshot_retained_when_gc_reads_metadata")
    marker_seen = z3.Bool("marker_listed_at_t0")
    protected, reachable, deleted = z3.Bool("f_in_protection_set"), z3.Bool("f_in_reachable_set"), z3.Bool("gc_deletes_f")
    hyps = [
        ("g1 marker before file                         [GUAR-tx:marker-registered-BEFORE / protection-hook-BEFORE]", tm < tw),
        ("g2 marker removed only after the commit point [GUAR-tx:g2 + DEL-OWN:after-the-commit-point]", z3.And(committed, tc <= tr)),
        ("marker exists from tm until tr                [T-store]", marker_seen == z3.And(tm <= t0, t0 < tr)),
        ("fresh listed marker protects its target       [MARKER-KEEP + PROTECT]   (transaction younger than the abandonment timeout)",
         z3.Implies(marker_seen, protected)),
        ("markers observed no later than metadata       [GC-RG]", t0 <= t1),
        ("metadata read at t1 contains every snapshot committed by t1 and still retained; its files are in the reachable set [REACH-ALL]",
         z3.Implies(z3.And(committed, tc <= t1, retained_at_t1), reachable)),
        ("a delete needs: not reachable, not protected, older than grace at that instant [DELETE-SAFE]",
         z3.Implies(deleted, z3.And(z3.Not(reachable), z3.Not(protected), tw < td - grace))),
        ("the run is shorter than the grace period      [precondition of the property]", z3.And(t1 <= td, td - t0 < grace, grace > 0)),
        # the snapshot is referenced by the final metadata: it was not expired before the collector read the metadata
        ("the snapshot referencing f is retained         [scope of the property: files of retained snapshots]", retained_at_t1),
    ]
    _lemma(h, "LEMMA-STABLE:a-file-of-a-committed-retained-snapshot-is-never-deleted-by-a-concurrent-collection", hyps, z3.Not(deleted))
    # the read order matters: with the two reads the other way round (metadata first) the conclusion is NOT derivable
    swapped = [x for x in hyps if "GC-RG" not in x[0]] + [("metadata BEFORE markers", t1 <= t0)]
    s = z3.Solver()
    s.add(z3.And(*[f for _n, f in swapped]), deleted)
    h.ensure("LEMMA-STABLE:sanity:the-conclusion-fails-if-the-collector-reads-metadata-first", z3.BoolVal(s.check() == z3.sat))


# ================================================================================================ C03  CRASH
CRASH_USES = [
    "ORDER:new-metadata-file-written-before-the-pointer",
    "WRITE-ONCE:name-under-metadata/manifests-with-a-fresh-uuid-token",
    "WRITE-ONCE:data-file-name-carries-a-fresh-uuid-token",
    "DEL-OWN:after-the-commit-point-only-markers-are-removed",
    "DELETE-SAFE:deleted-file-is-not-reachable-or-protected",
    "DURABLE-WRITE",
]


def h_crash(h: H):
    """Lemma CRASH (C03): the store invariant  Inv(s) := Reach(pointer(s)) subset Files(s)  is preserved by every storage action a
    commit, a rollback or a collection can issue, given the proved per-action contracts.  A crash leaves the state after some
    prefix, i.e. a state satisfying Inv: the table is readable in the pre-state (pointer not advanced) or the post-state."""
    S = z3.SetSort(INT)
    files, reach_old, reach_new, own = z3.Const("files", S), z3.Const("reach_old", S), z3.Const("reach_new", S), z3.Const("created_by_this_operation", S)
    markers = z3.Const("marker_files", S)
    advanced = z3.Bool("pointer_advanced")
    x = z3.Int("x")

    def inv(fs, adv, owned):
        return z3.And(z3.IsSubset(z3.If(adv, reach_new, reach_old), fs),
                      z3.Implies(z3.Not(adv), z3.IsSubset(reach_old, fs)),
                      z3.SetIntersect(owned, reach_old) == z3.EmptySet(INT),
                      z3.SetIntersect(markers, z3.SetUnion(reach_old, reach_new)) == z3.EmptySet(INT))
    base = inv(files, advanced, own)
    # CREATE x under a fresh name (WRITE-ONCE + A-uuid: a name never used before, so not a name of the old version either);
    # atomic rename => present completely or not at all
    h.ensure("LEMMA-CRASH:create-under-a-fresh-name-preserves-the-invariant",
             z3.Implies(z3.And(base, z3.Not(z3.IsMember(x, files)), z3.Not(z3.IsMember(x, reach_old)), z3.Not(z3.IsMember(x, markers))),
                        inv(z3.SetAdd(files, x), advanced, z3.SetAdd(own, x))))
    # the aborted half of an atomic write leaves the file set unchanged: nothing to prove (ATOMIC-FILE)
    # FLIP: allowed only when everything reachable from the new metadata exists (ORDER)
    h.ensure("LEMMA-CRASH:pointer-write-after-everything-reachable-exists-preserves-the-invariant",
             z3.Implies(z3.And(base, z3.Not(advanced), z3.IsSubset(reach_new, files)), inv(files, z3.BoolVal(True), own)))
    # after the flip only markers are removed (POST-CP); markers are never reachable
    h.ensure("LEMMA-CRASH:marker-removal-preserves-the-invariant",
             z3.Implies(z3.And(base, z3.IsMember(x, markers)), inv(z3.SetDel(files, x), advanced, own)))
    # rollback deletes only files this operation created, and only while the pointer is not advanced (DEL-OWN, ACTIVE-INV)
    h.ensure("LEMMA-CRASH:rollback-of-own-files-before-the-commit-point-preserves-the-invariant",
             z3.Implies(z3.And(base, z3.Not(advanced), z3.IsMember(x, own)), inv(z3.SetDel(files, x), advanced, own)))
    # a collector delete is for a file outside the reachable set of every retained snapshot (DELETE-SAFE + REACH-ALL)
    h.ensure("LEMMA-CRASH:collector-delete-of-an-unreachable-file-preserves-the-invariant",
             z3.Implies(z3.And(base, z3.Not(z3.IsMember(x, z3.SetUnion(reach_old, reach_new)))), inv(z3.SetDel(files, x), advanced, own)))
    h.ensure("LEMMA-CRASH:invariant=>the-resolved-version-is-fully-readable", z3.Implies(base, z3.IsSubset(z3.If(advanced, reach_new, reach_old), files)))
    h.cover("LEMMA-CRASH:invariant-consistent", base)


# ================================================================================================ C01 SER / C02 MONO
SER_USES = ["LIN:the-replaced-pointer-is-the-validated-one(no-write-in-between)",
            "LIN:acknowledged-only-if-base-has-the-stamp-of-the-validated-version",
            "STAMP:last_updated_ms-strictly-exceeds-the-validated-version's",
            "WRITABLE:next-version=resolved-version+1(1-only-if-nothing-is-resolvable)",
            "DERIVE:commit-uses-the-base-read-in-the-same-attempt"]


def h_ser(h: H):
    """Lemma SER (C01): consider the sequence of acknowledged pointer flips 0..n of a history.  LIN says flip i replaced exactly
    the pointer content its commit validated; STAMP says stamps identify versions (strictly increasing along the chain); DERIVE
    says the new version was derived from the validated base.  Then the version installed by flip i+1 is derived from the version
    installed by flip i: the history is equivalent to the serial execution in flip order (no lost update, no fork)."""
    installed = z3.Function("version_installed_by_flip", INT, INT)        # content (version id) the i-th flip writes
    replaced = z3.Function("version_replaced_by_flip", INT, INT)         # content the i-th flip overwrote (T-store: the pointer's content)
    validated = z3.Function("version_validated_by_commit", INT, INT)     # content read at the validation read of commit i
    base = z3.Function("base_of_commit", INT, INT)                       # the version the new metadata was derived from
    stamp = z3.Function("stamp_of_version", INT, INT)
    i = z3.Int("i")
    hyps = [
        ("the pointer holds what the previous flip installed [T-store: only flips change it]", replaced(i + 1) == installed(i)),
        ("LIN: the replaced pointer is the validated one", replaced(i + 1) == validated(i + 1)),
        ("LIN/STAMP: acknowledged only if base carries the validated version's stamp", stamp(base(i + 1)) == stamp(validated(i + 1))),
        ("STAMP: versions of one chain have distinct stamps", z3.ForAll([z3.Int("a"), z3.Int("b")],
                                                                       z3.Implies(stamp(z3.Int("a")) == stamp(z3.Int("b")), z3.Int("a") == z3.Int("b")))),
    ]
    _lemma(h, "LEMMA-SER:every-acknowledged-commit-is-derived-from-its-immediate-predecessor(serial-in-flip-order)", hyps,
           base(i + 1) == installed(i))


def h_mono(h: H):
    """Lemma MONO (C02): version numbers only advance (WRITABLE: next = resolved + 1), so of two reads of one reader the later
    never observes an older version."""
    ver = z3.Function("pointer_version_at", R, INT)
    t1, t2 = z3.Real("t_read_1"), z3.Real("t_read_2")
    a, b = z3.Real("a"), z3.Real("b")
    hyps = [("every flip installs resolved+1; nobody else writes the pointer => version is monotone in time [WRITABLE + T-store]",
             z3.ForAll([a, b], z3.Implies(a <= b, ver(a) <= ver(b))))]
    _lemma(h, "LEMMA-MONO:successive-reads-never-go-backwards", hyps, z3.Implies(t1 <= t2, ver(t1) <= ver(t2)))


# ================================================================================================ C18 ONE-INIT
def h_one_init(h: H):
    """Lemma ONE-INIT (C18): two initialisers A and B of one table.
    local: both run check+write inside the metadata lock (NO-REINIT:existence-check-inside-the-lock, lock-not-held-afterwards;
           exclusion = T-flock): the critical sections do not overlap, the later one sees the earlier one's pointer.
    CAS:   the pointer write is create-if-absent (NO-REINIT:CAS-backend=>create-if-absent): at most one PUT finds it absent."""
    # local
    a_in, a_out, b_in, b_out = [z3.Real(n) for n in ("a_lock_acquired", "a_lock_released", "b_lock_acquired", "b_lock_released")]
    a_ok, b_ok = z3.Bool("a_returns_normally"), z3.Bool("b_returns_normally")
    ptr_at = z3.Function("pointer_exists_at", R, B)
    a_w, b_w = z3.Real("a_pointer_write"), z3.Real("b_pointer_write")
    a_chk, b_chk = z3.Real("a_existence_check"), z3.Real("b_existence_check")
    t, u = z3.Real("t"), z3.Real("u")
    local = [
        ("lock excludes [T-flock / C19]", z3.Or(a_out <= b_in, b_out <= a_in)),
        ("check and write inside the lock, check first [NO-REINIT]", z3.And(a_in <= a_chk, a_chk < a_w, a_w <= a_out, b_in <= b_chk, b_chk < b_w, b_w <= b_out)),
        ("normal return => nothing resolvable at the check, pointer written [NO-REINIT]",
         z3.And(z3.Implies(a_ok, z3.And(z3.Not(ptr_at(a_chk)), ptr_at(a_w))), z3.Implies(b_ok, z3.And(z3.Not(ptr_at(b_chk)), ptr_at(b_w))))),
        ("a written pointer stays [nobody deletes it]", z3.ForAll([t, u], z3.Implies(z3.And(ptr_at(t), t <= u), ptr_at(u)))),
    ]
    _lemma(h, "LEMMA-ONE-INIT:local:at-most-one-initialiser-returns-normally", local, z3.Not(z3.And(a_ok, b_ok)))
    # CAS
    a_put, b_put = z3.Real("a_conditional_put"), z3.Real("b_conditional_put")
    cas = [
        ("create-if-absent succeeds only when absent at landing, and makes it present [T-s3 + NO-REINIT:CAS]",
         z3.And(z3.Implies(a_ok, z3.And(z3.ForAll([t], z3.Implies(t < a_put, z3.Not(ptr_at(t)))), ptr_at(a_put))),
                z3.Implies(b_ok, z3.And(z3.ForAll([t], z3.Implies(t < b_put, z3.Not(ptr_at(t)))), ptr_at(b_put))))),
        ("two PUTs land at different instants [T-s3: requests are linearised]", a_put != b_put),
    ]
    _lemma(h, "LEMMA-ONE-INIT:cas:at-most-one-create-if-absent-succeeds", cas, z3.Not(z3.And(a_ok, b_ok)))


ONE_INIT_USES = ["NO-REINIT:existence-check-inside-the-lock", "NO-REINIT:lock-not-held-afterwards", "NO-REINIT:existing-table=>TableExistsError",
                 "NO-REINIT:CAS-backend=>create-if-absent"]


# ================================================================================================ C09 IMMUT
IMMUT_USES = ["WRITE-ONCE:name-under-metadata/manifests-with-a-fresh-uuid-token", "DEL-OWN:rollback-deletes-only-files-and-markers-this-transaction-wrote",
              "DELETE-SAFE:deleted-file-is-not-reachable-or-protected", "REACH-ALL:data-files-of-EVERY-retained-snapshot-are-in-the-data-set",
              "DELETE-EXACT"]


def h_immut(h: H):
    """Lemma IMMUT (C09): let RR be the set of files reachable from ANY retained snapshot.  Every storage action of a commit,
    rollback or collection either creates a name that was never used (WRITE-ONCE / A-uuid), or deletes a file outside RR
    (DEL-OWN: files of an uncommitted transaction; DELETE-SAFE + REACH-ALL: collector), and nothing overwrites an existing name
    (deletes rewrite manifests under new names: DELETE-EXACT).  Then existence and content of every file in RR never change."""
    S = z3.SetSort(INT)
    rr, used = z3.Const("reachable_from_retained_snapshots", S), z3.Const("names_ever_used", S)
    exists0 = z3.Const("exists", S)
    content0 = z3.Const("content", z3.ArraySort(INT, INT))
    x, c, w = z3.Int("x"), z3.Int("new_content"), z3.Int("witness_file")
    pre = z3.And(z3.IsSubset(rr, exists0), z3.IsSubset(exists0, used), z3.IsMember(w, rr))

    def same(ex, ct):
        return z3.And(z3.IsMember(w, ex), z3.Select(ct, w) == z3.Select(content0, w))
    h.ensure("LEMMA-IMMUT:creating-a-never-used-name-changes-no-retained-file",
             z3.Implies(z3.And(pre, z3.Not(z3.IsMember(x, used))), same(z3.SetAdd(exists0, x), z3.Store(content0, x, c))))
    h.ensure("LEMMA-IMMUT:deleting-a-file-outside-the-retained-reachable-set-changes-no-retained-file",
             z3.Implies(z3.And(pre, z3.Not(z3.IsMember(x, rr))), same(z3.SetDel(exists0, x), content0)))
    h.cover("LEMMA-IMMUT:premises-consistent", pre)


# ================================================================================================ C19 EXCL
EXCL_USES = ["CREATE:True-without-takeover=>object-was-absent-when-the-PUT-landed", "TAKEOVER:only-if-the-lease-had-lapsed-at-the-HEAD(age>lease)",
             "TAKEOVER:True=>the-lock-was-not-renewed-between-the-HEAD-and-the-takeover", "NONCE:every-write-carries-a-fresh-token",
             "HELD-S3:True=>content-read-IN-THIS-CALL-is-the-own-id", "RENEW:failed-precondition=>lock-considered-lost"]


def h_excl(h: H):
    """Lemma EXCL (C19, S3 lock): ownership is what the single lock object says.  (i) at any instant at most one provider owns it
    (ids are distinct uuids; the object has one content); (ii) ownership passes from A to B only by B's create (object absent) or
    B's takeover, which replaces exactly the object a HEAD showed older than the lease (not renewed in between); (iii) after that,
    A's is_held() reads B's content and answers False, and A's next renewal fails its If-Match."""
    STR = z3.StringSort()
    content = z3.Function("lock_content_at", R, STR)
    ida, idb = z3.String("id_A"), z3.String("id_B")
    t = z3.Real("t")

    def owns(i, tt):
        return z3.Or(content(tt) == i, z3.PrefixOf(z3.Concat(i, z3.StringVal("\n")), content(tt)))
    nl = lambda s: z3.Not(z3.Contains(s, z3.StringVal("\n")))
    hyps = [("lock ids are distinct uuid strings [A-uuid]", z3.And(ida != idb, nl(ida), nl(idb), z3.Length(ida) == z3.Length(idb)))]
    _lemma(h, "LEMMA-EXCL:at-most-one-owner-of-the-lock-object-at-any-instant", hyps, z3.Not(z3.And(owns(ida, t), owns(idb, t))))
    # (iii) a superseded holder observes the loss: is_held() True requires own content read in that call (HELD-S3)
    held_a = z3.Bool("A.is_held()_returns_True_at_t")
    h.ensure("LEMMA-EXCL:a-superseded-holder-observes-that-it-no-longer-holds",
             z3.Implies(z3.And(hyps[0][1], z3.Implies(held_a, owns(ida, t)), owns(idb, t)), z3.Not(held_a)))
    # (ii) takeover only of a lapsed, un-renewed lease
    lm_head, lm_put, now_head, lease = z3.Real("last_modified_seen_by_HEAD"), z3.Real("last_modified_when_the_PUT_landed"), z3.Real("clock_at_HEAD"), z3.Real("lease")
    h.ensure("LEMMA-EXCL:a-lock-is-taken-over-only-after-its-lease-lapsed",
             z3.Implies(z3.And(now_head - lm_head > lease, lm_put == lm_head), now_head - lm_put > lease))


# ================================================================================================ C16 POWER-LOSS
POWER_USES = ["DURABLE-WRITE:fsync(temp)-after-the-last-write-and-before-the-rename", "DURABLE-WRITE:no-write-to-the-target-outside-the-rename",
              "DURABLE-WRITE:directory-fsync-after-the-rename", "DURABLE-DATA:fsync(temp)-after-the-writer-closed-and-before-the-rename",
              "ORDER:new-metadata-file-written-before-the-pointer"]


def h_powerloss(h: H):
    """Lemma POWER-LOSS (C16).  T-os model of a journalling file system: a name space and file contents each exist twice, in the
    page cache and on disk; fsync(fd) makes that inode's CONTENT durable as it is in the cache; a rename may reach the disk at any
    later moment (at the latest with the directory fsync).  Invariant over final (non-temp) names:
        DurInv :=  for every name n on disk:  the inode it names has complete content on disk.
    Proved preserved by each step of the write protocol the cited obligations establish (temp file, full write, fsync(temp), rename,
    directory fsync) and by the kernel persisting the name space at any moment; and for the pointer: when the name of the pointer
    file reaches the disk, the metadata file it names is already on disk completely (ORDER + write_file returning only after its
    directory fsync)."""
    A = z3.ArraySort(INT, INT)
    AB = z3.ArraySort(INT, B)
    ns_c, ns_d = z3.Const("names_in_cache", A), z3.Const("names_on_disk", A)            # name -> inode, 0 = absent
    comp_c, comp_d = z3.Const("content_complete_in_cache", AB), z3.Const("content_complete_on_disk", AB)
    temp = z3.Const("is_temp_name", AB)
    n, t, p, i = z3.Int("n"), z3.Int("temp_name"), z3.Int("final_name"), z3.Int("inode")
    w = z3.Int("witness_name")

    def durinv(nsd, cd):
        x = z3.Select(nsd, w)
        return z3.Implies(z3.And(z3.Not(z3.Select(temp, w)), x != 0), z3.Select(cd, x))
    # cache-side companion: a final name never points (in the cache) at an inode whose content is not yet durable-complete
    def cacheinv(nsc, cd):
        x = z3.Select(nsc, w)
        return z3.Implies(z3.And(z3.Not(z3.Select(temp, w)), x != 0), z3.Select(cd, x))
    base = z3.And(durinv(ns_d, comp_d), cacheinv(ns_c, comp_d), i != 0)
    # 1. create temp name for a new inode: only a temp name changes
    h.ensure("LEMMA-POWER:creating-a-temp-file-preserves-the-invariants",
             z3.Implies(z3.And(base, z3.Select(temp, t)), z3.And(durinv(ns_d, comp_d), cacheinv(z3.Store(ns_c, t, i), comp_d))))
    # 2. writing content only changes the cache copy of the content: nothing in DurInv/CacheInv mentions it
    # 3. fsync(fd of inode i) after the last write: its content on disk becomes what the cache has (complete)
    h.ensure("LEMMA-POWER:fsync-of-the-completely-written-temp-file-preserves-the-invariants",
             z3.Implies(z3.And(base, z3.Select(comp_c, i)), z3.And(durinv(ns_d, z3.Store(comp_d, i, z3.Select(comp_c, i))),
                                                                  cacheinv(ns_c, z3.Store(comp_d, i, z3.Select(comp_c, i))))))
    # 4. rename temp -> final ONLY after that fsync (DURABLE-WRITE / DURABLE-DATA): the final name now points at a durable-complete inode
    h.ensure("LEMMA-POWER:rename-after-fsync-preserves-the-invariants",
             z3.Implies(z3.And(base, z3.Select(temp, t), z3.Not(z3.Select(temp, p)), z3.Select(ns_c, t) == i, z3.Select(comp_d, i)),
                        z3.And(durinv(ns_d, comp_d), cacheinv(z3.Store(z3.Store(ns_c, p, i), t, 0), comp_d))))
    # 5. the kernel persists the name-space entry of ANY name at ANY time (and the directory fsync persists all of them)
    h.ensure("LEMMA-POWER:persisting-a-name-at-any-moment-preserves-the-invariant",
             z3.Implies(base, durinv(z3.Store(ns_d, n, z3.Select(ns_c, n)), comp_d)))
    # 6. sanity: without the fsync before the rename the invariant is NOT preserved (the defect class of fsync-after-rename)
    s = z3.Solver()
    s.add(base, z3.Select(temp, t), z3.Not(z3.Select(temp, p)), z3.Select(ns_c, t) == i, z3.Not(z3.Select(comp_d, i)), w == p,
          z3.Not(cacheinv(z3.Store(z3.Store(ns_c, p, i), t, 0), comp_d)))
    h.ensure("LEMMA-POWER:sanity:rename-before-fsync-breaks-the-invariant", z3.BoolVal(s.check() == z3.sat))
    # 7. pointer: write_file(metadata) returned (directory fsync done => the metadata name is on disk, complete) before the pointer's
    #    temp file is even created (ORDER); nothing removes the metadata file; so whenever the pointer's name is on disk ...
    meta, ptr = z3.Int("metadata_file_name"), z3.Int("pointer_file_name")
    meta_dur_at_ptr_start = z3.And(z3.Select(ns_d, meta) != 0, z3.Select(comp_d, z3.Select(ns_d, meta)))
    h.ensure("LEMMA-POWER:a-durable-pointer-names-a-durable-complete-metadata-file",
             z3.Implies(z3.And(meta_dur_at_ptr_start, meta != ptr, z3.Not(z3.Select(temp, meta))),
                        z3.And(z3.Select(z3.Store(ns_d, ptr, i), meta) != 0, z3.Select(comp_d, z3.Select(z3.Store(ns_d, ptr, i), meta)))))
    h.cover("LEMMA-POWER:invariants-consistent", base)
