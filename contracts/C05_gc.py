"""C05 - garbage collection never deletes anything reachable or in flight (sequential)  [also serves C07 via C07_gcfail.py]

  NORM-AGREE    GarbageCollector._normalize_path: for EVERY table-location string T and every canonical table-relative name r
                (below data/ or metadata/), both spellings the library records (r and '/' + r) normalise to r.
  DELETE-SAFE   _gc_prefix: every delete_file(p) has NORM(p) not in the reachable/protected set and mtime(p) older than grace.
  DELETE-LIVE   _gc_prefix: an unreachable, unprotected, old, non-escaping listed file IS deleted (no fault).
  ESCAPE        _gc_prefix: a listing containing an escaping entry => raises and nothing of that listing was deleted.
  ABORT-LIST    _gc_prefix: list_files failing => GarbageCollectionAborted.
  MARKER-KEEP   _load_inflight_protection/_marker_target: a fresh (or un-stat-able, or undeletable) marker's payload path is in the
                returned set, or the function raises; a marker-listing or marker-read failure raises.
  REACH-ALL     collect: the sets handed to _gc_prefix contain NORM of every manifest list / manifest / data file reachable from
                EVERY retained snapshot (witness chain), united with the protected set; same grace for both prefixes.
  ABORT-REACH   collect: any failure while computing reachability => raises before anything is deleted.
"""
from __future__ import annotations

import z3

from pyvc import pyops
from pyvc.ctx import PathEnd, Unsupported
from pyvc.engine import LoopSpec, PyRaise
from pyvc.pyops import PyExc
from pyvc.runner import H, Unit, base_registry, register, set_registry_factory
from pyvc.theories import misc, pybuiltins as pb
from pyvc.theories.store import Store, under
from pyvc.values import (ClassVal, PDict, PList, PSet, SBool, SBytes, SExc, SInt, SMapZ, SObj, SOpt, SSetZ, SStr, SXReal,
                         TheoryObj, to_z3)

GC = "garbage_collector"
STR = z3.StringSort()
NORM = z3.Function("gc.NORM", STR, STR)   # the contract-level name of _normalize_path's result

META = {
    "explanation": "Per-function contracts on the collector; reachability completeness by a witness chain through the three "
                   "set-building loops (inductive invariants), deletion safety as an obligation at every delete_file event.",
    "trusted": [
        "T-store action contracts; for _gc_prefix the listing is UNTRUSTED (arbitrary strings) because the escape guard exists for that case",
        "T-codec: FileManager.read_manifest_list_file / read_manifest_file return the entries of the named file or raise",
        "rule ALL-VISITED (a completed for-loop visited every element) and set iteration in arbitrary order",
        "A-real-time: timestamps are finite; binary64 rounding of `mtime * 1000` and `now * 1000 - grace` is ignored",
    ],
    "assumptions": ["histories: each operation is verified to preserve the store invariant separately (C09/C15/C04); induction over the history is the meta-argument"],
}


W_SEEN_INIT = z3.BoolVal(False)      # 'the loop has not run yet' (identity-compared)

def registry():
    reg = base_registry()
    misc.install_rlock(reg)
    return reg


for _p in ("C05", "C07"):
    set_registry_factory(_p, registry)


def canonical(r):
    return z3.Or(z3.PrefixOf(z3.StringVal("data/"), r), z3.PrefixOf(z3.StringVal("metadata/"), r))


def escaping(n):
    return z3.Or(n == z3.StringVal(".."), z3.PrefixOf(z3.StringVal("../"), n))


def install_norm_contract(h: H):
    """callee contract of _normalize_path (NORM-AGREE): result = NORM(path); NORM(r) = NORM('/'+r) = r for canonical r."""
    def contract(I, fv, args, kwargs):
        p = pyops.str_z(I.force(args[-1]))
        I.ctx.assume(z3.Implies(canonical(p), NORM(p) == p), "NORM-AGREE (proved by unit NORM-AGREE)")
        I.ctx.assume(z3.Not(z3.PrefixOf(z3.StringVal("/"), NORM(p))), "NORM-REL (proved by unit NORM-AGREE/any-path)")
        return pyops.mk_str(NORM(p))
    h.reg.contracts[f"{GC}:GarbageCollector._normalize_path"] = contract


def gc_object(h: H, st: Store, table_path=None):
    fm = h.obj("FileManager", storage=st.obj, manifests_path="metadata/manifests", data_path="data")
    return h.obj("GarbageCollector", table_path=table_path if table_path is not None else h.str("table_path"),
                 storage=st.obj, file_manager=fm, metadata_manager=h.obj("MetadataManager", storage=st.obj))


# =================================================================================== NORM-AGREE
def h_norm_agree(spelling):
    def harness(h: H):
        T = h.str("table_path")
        st = Store(h)
        gc = gc_object(h, st, T)
        top = ["data", "metadata"][h.ctx.choose(2, "top-dir")]
        rest = h.str("rest")
        r = z3.Concat(z3.StringVal(top + "/"), rest.z)
        path = r if spelling == "relative" else z3.Concat(z3.StringVal("/"), r)
        out, val = h.run(f"{GC}:GarbageCollector._normalize_path", [gc, SStr(path)])
        h.ensure("NORM-AGREE:no-raise", out == "ok")
        if out == "ok":
            h.ensure(f"NORM-AGREE:{spelling}-spelling-normalises-to-the-canonical-name", pyops.str_z(val) == r,
                     detail="for every table location string")
    return harness


def _replay_norm(ob):
    m = ob.get("model") or {}
    return f'''
import sys, os, tempfile, shutil
model = {m!r}
import re
def unz3(s): return re.sub(r"\\\\u\\{{([0-9a-fA-F]+)\\}}", lambda mm: chr(int(mm.group(1), 16)), s) if isinstance(s, str) else s
from datashard import create_table
from datashard.data_structures import Schema
from datashard.garbage_collector import GarbageCollector
cands = ["data", "/data", "m", "metadata", "d", "/da", "./data", "tbl"]
t0 = unz3(model.get("table_path"))
if isinstance(t0, str) and t0 and "\\x00" not in t0 and len(t0) < 40: cands.insert(0, t0)
bad = []
root = tempfile.mkdtemp(prefix="pyvc_replay_")
cwd = os.getcwd()
try:
    os.chdir(root)
    for loc in cands:
        os.chdir(tempfile.mkdtemp(dir=root))             # a fresh working directory per spelling ('data' and './data' alias otherwise)
        if loc.startswith("/"):
            loc_fs = os.path.join(root, "abs") + loc     # keep absolute spellings inside the scratch dir ...
            norm_T = loc                                 # ... but test the normaliser with the literal string too
        else:
            loc_fs, norm_T = loc, loc
        # 1. pure function: both spellings of a canonical name must normalise to it
        g = GarbageCollector.__new__(GarbageCollector); g.table_path = norm_T
        for r in ("data/x.parquet", "metadata/manifests/m.avro", "metadata/v1.metadata.json"):
            for sp in (r, "/" + r):
                if g._normalize_path(sp) != r: bad.append(("normalize", norm_T, sp, g._normalize_path(sp)))
        # 2. end to end on a relative location: collection must not delete live data
        if not loc.startswith("/"):
            try:
                t = create_table(loc_fs, schema=Schema(schema_id=1, fields=[{{"id": 1, "name": "a", "type": "long", "required": False}}]))
                t.append_records([{{"a": 1}}])
                try: t.garbage_collect(grace_period_ms=-10_000)
                except Exception as e: bad.append(("gc raised", loc, repr(e)))
                try:
                    if [r["a"] for r in t.scan()] != [1]: bad.append(("rows lost", loc))
                except Exception as e: bad.append(("scan failed after gc", loc, repr(e)[:80]))
            except Exception as e:
                bad.append(("setup", loc, repr(e)[:80]))
finally:
    os.chdir(cwd); shutil.rmtree(root, ignore_errors=True)
print("replay NORM-AGREE ->", bad[:6] or "ok")
sys.exit(1 if bad else 0)
'''


def h_norm_rel(h: H):
    T, path = h.str("table_path"), h.str("path")
    st = Store(h)
    gc = gc_object(h, st, T)
    out, val = h.run(f"{GC}:GarbageCollector._normalize_path", [gc, path])
    h.ensure("NORM-REL:no-raise", out == "ok")
    if out == "ok":
        h.ensure("NORM-REL:result-never-starts-with-a-slash", z3.Not(z3.PrefixOf(z3.StringVal("/"), pyops.str_z(val))))


register(Unit("C05", "NORM-AGREE/any-path", h_norm_rel, functions=[f"{GC}:GarbageCollector._normalize_path"], z3_timeout_ms=20000))

for _sp in ("relative", "leading-slash"):
    register(Unit("C05", f"NORM-AGREE/{_sp}", h_norm_agree(_sp), functions=[f"{GC}:GarbageCollector._normalize_path"],
                  replay=_replay_norm, z3_timeout_ms=20000))


# =================================================================================== _gc_prefix
def untrusted_listing(h: H, st: Store, witness):
    """list_files for _gc_prefix: may fault; otherwise an arbitrary collection of strings (the escape guard exists for a listing
    that cannot be trusted).  `witness` = (z3 path, z3 Bool inlist)."""
    def list_files(I, obj, a, k):
        st.maybe_fault(I, "list_files", None)
        st.log("list_files", path=pyops.str_z(a[0]) if not isinstance(a[0], str) else z3.StringVal(a[0]))

        def mk(I2):
            if I2.ctx.flip("elem-is-witness"):
                I2.ctx.assume(witness[1])
                return SStr(witness[0])
            e = I2.ctx.fresh_str("listed")
            I2.ctx.assume(z3.Not(z3.PrefixOf(z3.StringVal("/"), e)))   # listings are relative names (possibly '../' escapes)
            return SStr(e)
        return TheoryObj("symiter", fields={"mk": mk, "witnesses": [(SStr(witness[0]), witness[1])]})
    h.reg.theory_methods[("storage", "list_files")] = list_files


def h_gc_prefix(faults: bool):
    def harness(h: H):
        c = h.ctx
        st = Store(h, fault_classes=["OSError", "OtherException"] if faults else [], max_faults=1)
        st.install(h.reg)
        misc.install_clock(h.reg, c)
        install_norm_contract(h)
        gc = gc_object(h, st)
        prefix = ["data", "metadata/manifests"][c.choose(2, "prefix")]
        R = z3.Const("reachable_set", z3.SetSort(STR))
        grace = h.int("grace_period_ms")
        wz = z3.String("witness_listed_path")
        h.report("witness_listed_path", wz)
        w_in = z3.Bool("witness_is_listed")
        h.report("witness_is_listed", w_in)
        h.assume(z3.Not(z3.PrefixOf(z3.StringVal("/"), wz)))
        untrusted_listing(h, st, (wz, w_in))
        g = {"deleted_any": z3.BoolVal(False), "w_seen": z3.BoolVal(False), "cur": None, "cur_deleted": False}
        mt0 = st.mt
        ex0 = st.ex

        def cutoff():
            reads = c.ghost["clock"]["reads"]
            return reads[0] * 1000 - z3.ToReal(grace.z) if reads else None

        def on_event(ev):
            if ev["op"] == "delete_file":
                p = ev["path"]
                cur = g["cur"]
                h.ensure("DELETE-SAFE:deletes-only-the-listed-file-under-examination", p == cur if cur is not None else z3.BoolVal(False))
                h.ensure("DELETE-SAFE:deleted-file-is-not-reachable-or-protected", z3.Not(z3.IsMember(NORM(p), R)))
                h.ensure("DELETE-SAFE:deleted-file-is-older-than-grace", z3.Select(mt0, p) * 1000 < cutoff())
                h.ensure("ESCAPE:no-delete-while-the-listing-holds-an-escaping-entry", z3.Not(z3.And(w_in, escaping(NORM(wz)))),
                         classes=[("delete-interleaved-with-escape-validation", z3.And(w_in, escaping(NORM(wz))))])
                g["deleted_any"] = z3.BoolVal(True)
                g["cur_deleted"] = True
        st.on_event = on_event

        def mk_hook(I, item):
            return None

        def inv(I, env, it, deleting=True):
            res = []
            if it.get("after_body"):
                e = pyops.str_z(it["elem"])
                # an iteration that completes normally has seen a non-escaping entry
                res.append(("ESCAPE:completed-iteration=>entry-not-escaping", z3.Not(escaping(NORM(e)))))
                if not faults and deleting:
                    old = z3.Select(mt0, e) * 1000 < cutoff()
                    must = z3.And(z3.Not(z3.IsMember(NORM(e), R)), z3.Select(ex0, e), old)
                    res.append(("DELETE-LIVE:unreachable-old-file-is-deleted", z3.Implies(must, z3.BoolVal(g["cur_deleted"]))))
                g["w_seen"] = z3.Or(g["w_seen"], e == wz)
            return res

        def havoc(I, env, it):
            g["deleted_any"] = I.ctx.fresh_bool("deleted_any")
            g["w_seen"] = I.ctx.fresh_bool("w_seen")
            g["cur_deleted"] = False

        def on_exit(I, env, it):
            # ALL-VISITED: every element was the element of a completed iteration, hence non-escaping (per-iteration obligation)
            I.ctx.assume(z3.Implies(w_in, z3.Not(escaping(NORM(wz)))), "rule ALL-VISITED")
            itv = it["iter"]
            itv.fields.setdefault("all_satisfy", []).append(lambda I2, item: z3.Not(escaping(NORM(pyops.str_z(item)))))

        # loop 0 = validation pass over the listing (no deletes expected there), last loop = deletion pass.
        # (On a tree with a single combined loop, loop 0 is that loop and DELETE-LIVE is then not claimed for it.)
        spec_validate = LoopSpec(invariant=lambda I, env, it: inv(I, env, it, deleting=False), havoc=havoc, on_exit=on_exit,
                                 name="listing-validate", skip=["norm_path", "file_rel_path"])
        spec_delete = LoopSpec(invariant=inv, havoc=havoc, on_exit=on_exit, name="listing-delete", skip=["norm_path", "file_rel_path"])
        h.reg.loops[f"{GC}:GarbageCollector._gc_prefix"] = {0: spec_validate, "*": spec_delete}
        # remember the element under examination
        orig_assign = h.I.assign

        def track_assign(target, v, env):
            orig_assign(target, v, env)
            import ast as _ast
            if isinstance(target, _ast.Name) and target.id == "file_rel_path" and isinstance(v, (SStr, str)):
                g["cur"] = pyops.str_z(v)
                g["cur_deleted"] = False
        h.I.assign = track_assign
        out, val = h.run(f"{GC}:GarbageCollector._gc_prefix", [gc, prefix, SSetZ("str", R), grace])
        if out == "raise":
            h.ensure("ABORT:raises-only-GarbageCollectionAborted", val.cls == "GarbageCollectionAborted", detail=repr(val))
            if isinstance(val.cause, SExc) and val.cause.fields.get("fault"):
                h.ensure("ABORT-LIST:listing-fault=>abort-before-any-delete", str(val.cause.origin) == "fault-before:list_files"
                         and len(st.deleted) == 0)
                h.cover("ABORT-LIST:reachable")
            else:
                h.cover("ESCAPE:abort-reachable")
        else:
            h.ensure("_gc_prefix:returns-count", isinstance(val, (int, SInt)))
            if faults and st.faults_injected:
                h.ensure("ABORT-LIST:a-listing-fault-never-returns-normally",
                         not any(e["op"] == "FAULT" and e["at"] == "list_files" for e in st.events))
    return harness


def _replay_gc_prefix(ob):
    return '''
import sys, os, time, tempfile, shutil
from datashard import create_table
from datashard.data_structures import Schema
from datashard.garbage_collector import GarbageCollectionAborted
from doubles import faulty
root = tempfile.mkdtemp(prefix="pyvc_replay_")
bad = []
try:
    t = create_table(os.path.join(root, "t"), schema=Schema(schema_id=1, fields=[{"id": 1, "name": "a", "type": "long", "required": False}]))
    t.append_records([{"a": 1}]); t.append_records([{"a": 2}])
    live = set(t.storage.list_files("data")) | set(t.storage.list_files("metadata/manifests"))
    orphan = "data/orphan_old.parquet"; t.storage.write_file(orphan, b"x")
    old = time.time() - 7200
    os.utime(os.path.join(root, "t", orphan), (old, old))
    young = "data/orphan_young.parquet"; t.storage.write_file(young, b"y")
    # listing that holds an old orphan BEFORE an escaping entry
    real_list = t.storage.list_files
    def lying(prefix):
        out = real_list(prefix)
        if prefix == "data": out = sorted(out, key=lambda p: p != orphan) + ["../outside/evil.parquet"]
        return out
    t.storage.list_files = lying
    before = set(real_list("data"))
    try:
        t.garbage_collect(grace_period_ms=3600_000); bad.append("escaping listing did not abort")
    except GarbageCollectionAborted:
        after = set(real_list("data"))
        if after != before: bad.append(("files deleted although the collection raised on an escaping listing", sorted(before - after)))
    t.storage.list_files = real_list
    t.garbage_collect(grace_period_ms=3600_000)
    now = set(real_list("data")) | set(real_list("metadata/manifests"))
    if not live <= now: bad.append(("live files deleted", sorted(live - now)))
    if young not in now: bad.append("young orphan deleted inside the grace period")
    if orphan in now: bad.append("old orphan not removed (non-vacuity)")
    if sorted(r["a"] for r in t.scan()) != [1, 2]: bad.append("rows changed")
finally:
    shutil.rmtree(root, ignore_errors=True)
print("replay _gc_prefix ->", bad or "ok")
sys.exit(1 if bad else 0)
'''


register(Unit("C05", "GC-PREFIX/no-fault", h_gc_prefix(False), functions=[f"{GC}:GarbageCollector._gc_prefix"], replay=_replay_gc_prefix))
register(Unit("C07", "GC-PREFIX/faults", h_gc_prefix(True), functions=[f"{GC}:GarbageCollector._gc_prefix"], replay=_replay_gc_prefix))


# =================================================================================== markers
PAYLOAD = z3.Function("marker.payload_file_path", STR, STR)     # content -> the file_path it names (when it is a JSON dict naming one)
TARGET = z3.Function("marker.TARGET", STR, STR)                 # contract-level result of _marker_target per normalised marker path


def marker_json_theory(h: H, info):
    """json.loads on marker content: T-codec-json. Outcomes: not JSON (raise) | dict with str file_path (possibly empty) |
    dict without / with non-str file_path | a non-dict JSON value."""
    def loads(I, a, k):
        s = a[0]
        kinds = ["not-json", "dict-str", "dict-empty-str", "dict-missing", "dict-nonstr", "list", "number"]
        kind = kinds[I.ctx.choose(len(kinds), "marker-json-shape")]
        info["shape"] = kind
        if kind == "not-json":
            raise PyRaise(SExc("JSONDecodeError", origin="json.loads: marker content is not JSON"))
        if kind == "dict-str":
            t = PAYLOAD(pyops.str_z(s))
            I.ctx.assume(z3.Length(t) > 0)
            return PDict({"file_path": SStr(t)})
        if kind == "dict-empty-str":
            return PDict({"file_path": ""})
        if kind == "dict-missing":
            return PDict({})
        if kind == "dict-nonstr":
            return PDict({"file_path": 7})
        if kind == "list":
            return PList([])
        return 3
    h.reg.modfuncs["json.loads"] = loads


def h_marker_target(faults: bool):
    def harness(h: H):
        c = h.ctx
        st = Store(h, fault_classes=["OSError", "OtherException"] if faults else [], max_faults=1)
        st.install(h.reg)
        install_norm_contract(h)
        gc = gc_object(h, st)
        info = {}
        marker_json_theory(h, info)
        stem = h.str("stem")
        basename = SStr(z3.Concat(stem.z, z3.StringVal(".inflight")))
        marker = SStr(z3.Concat(z3.StringVal("metadata/inflight/"), basename.z))
        h.assume(z3.Select(st.ex, marker.z))
        out, val = h.run(f"{GC}:GarbageCollector._marker_target", [gc, marker, basename])
        fallback = z3.Concat(z3.StringVal("data/"), stem.z)
        if st.faults_injected:
            h.ensure("MARKER-KEEP:unreadable-marker=>raise(never-a-guessed-target)", out == "raise",
                     classes=[("marker-read-fault-falls-back-to-data-basename", z3.BoolVal(True))],
                     detail="an I/O failure reading the marker must not be answered with the legacy fallback path")
            return
        h.ensure("marker_target:no-raise-without-fault", out == "ok")
        if out != "ok":
            return
        content = z3.Select(st.ct, marker.z)
        dec = z3.Function("utf8.decode", STR, STR)
        if info.get("shape") == "dict-str":
            h.ensure("marker_target:payload-path-normalised", pyops.str_z(val) == NORM(PAYLOAD(dec(content))))
        else:
            h.ensure("marker_target:legacy-fallback-only-without-a-usable-payload", pyops.str_z(val) == fallback)
    return harness


def h_load_inflight(faults: bool):
    def harness(h: H):
        c = h.ctx
        st = Store(h, fault_classes=["OSError", "OtherException"] if faults else [], max_faults=1)
        st.install(h.reg)
        misc.install_clock(h.reg, c)
        install_norm_contract(h)
        gc = gc_object(h, st)
        timeout = h.int("inflight_timeout_ms")
        # witness marker: an arbitrary '<stem>.inflight' directly in metadata/inflight
        wstem = z3.String("witness_marker_stem")
        h.report("witness_marker_stem", wstem)
        h.assume(pb.not_contains(wstem, "/"))
        wb = z3.Concat(wstem, z3.StringVal(".inflight"))
        wz = z3.Concat(z3.StringVal("metadata/inflight/"), wb)
        st.witnesses.append(wz)
        ex0, mt0 = st.ex, st.mt
        tcalls = []

        def marker_target(I, fv, args, kwargs):
            _self, mp, bn = args
            tcalls.append((pyops.str_z(mp), pyops.str_z(bn)))
            if faults and I.ctx.flip("marker-unreadable"):
                raise PyRaise(SExc("GarbageCollectionAborted", origin="_marker_target: marker unreadable", fields={"fault": True}))
            return pyops.mk_str(TARGET(pyops.str_z(mp)))
        h.reg.contracts[f"{GC}:GarbageCollector._marker_target"] = marker_target
        g = {"w_seen": W_SEEN_INIT}
        kw = z3.String("witness_abandoned_key")
        h.report("witness_abandoned_key", kw)

        def cutoff():
            reads = c.ghost["clock"]["reads"]
            return reads[0] * 1000 - z3.ToReal(timeout.z)

        def var(env, nm):
            ok, p = env.lookup(nm)
            return p

        def handed_over(ab, key, target=None):
            """key is in the abandoned map (with the given target)"""
            if isinstance(ab, SMapZ):
                e = z3.Select(ab.has, key)
                return z3.And(e, z3.Select(ab.val, key) == target) if target is not None else e
            return z3.BoolVal(False)    # the literal {} before the first iteration

        def inv(I, env, it):
            p, ab = var(env, "protected"), var(env, "abandoned")
            res = []
            if it.get("after_body"):
                e = pyops.str_z(it["elem"])
                g["w_seen"] = z3.Or(g["w_seen"], e == wz)
            fresh = z3.Select(mt0, wz) * 1000 >= cutoff()
            inp = z3.IsMember(TARGET(wz), p.z) if isinstance(p, SSetZ) else z3.BoolVal(False)
            res.append(("MARKER-KEEP:seen-fresh-marker's-target-is-protected", z3.Implies(z3.And(g["w_seen"], fresh), inp)))
            res.append(("MARKER-KEEP:a-marker-handed-to-the-sweep-carries-its-own-target",
                        z3.Implies(handed_over(ab, wz), handed_over(ab, wz, TARGET(wz)))))
            res.append(("MARKER-KEEP:only-stale-markers-are-handed-to-the-sweep",
                        z3.Implies(handed_over(ab, kw), z3.And(z3.Select(mt0, kw) * 1000 < cutoff(),
                                                               z3.PrefixOf(z3.StringVal("metadata/inflight/"), kw)))))
            return res

        def on_event(ev):
            if ev["op"] == "delete_file":
                h.fail("MARKER-KEEP:observing-the-markers-deletes-nothing")
        st.on_event = on_event

        def havoc(I, env, it):
            g["w_seen"] = I.ctx.fresh_bool("w_seen")
            env.vars["protected"] = SSetZ("str", I.ctx.fresh("protected", z3.SetSort(STR)))
            env.vars["abandoned"] = SMapZ("str", "str", I.ctx.fresh("abandoned_has", z3.ArraySort(STR, z3.BoolSort())),
                                          I.ctx.fresh("abandoned_val", z3.ArraySort(STR, STR)))

        orig_list = st.a_list_files

        def list_files(I, obj, a, k):
            it = orig_list(I, obj, a, k)
            mk0 = it.fields["mk"]

            def mk(I2):
                if I2.ctx.flip("elem-is-witness"):
                    I2.ctx.assume(z3.Select(ex0, wz))
                    return SStr(wz)
                e = mk0(I2)
                I2.ctx.assume(pb.not_contains(e.z, "\\"), "A-posix")
                return e
            it.fields["mk"] = mk
            return it
        h.reg.theory_methods[("storage", "list_files")] = list_files
        h.reg.loops[f"{GC}:GarbageCollector._load_inflight_protection"] = {
            "*": LoopSpec(invariant=inv, havoc=havoc, name="markers",
                          skip=["protected", "abandoned", "norm_marker", "age_ok", "basename", "data_rel", "marker_path"])}
        out, val = h.run(f"{GC}:GarbageCollector._load_inflight_protection", [gc, timeout])
        listed_w = z3.Select(ex0, wz)
        listing_fault = any(e["op"] == "FAULT" and e["at"] == "list_files" for e in st.events)
        if out == "raise":
            h.ensure("MARKER-KEEP:raises-only-on-an-I/O-failure", bool(val.fields.get("fault")) or
                     (isinstance(val.cause, SExc) and bool(val.cause.fields.get("fault"))), detail=repr(val))
            return
        if listing_fault:
            h.ensure("MARKER-KEEP:marker-listing-failure=>raise(not-an-empty-protection-set)", z3.BoolVal(False),
                     classes=[("marker-listing-fault-drops-all-protection", z3.BoolVal(True))])
            return
        if g["w_seen"] is not W_SEEN_INIT:       # only a loop that ran has visited the listing (an early return gets no such fact)
            h.assume(z3.Implies(listed_w, g["w_seen"]), "rule ALL-VISITED")
        if not (isinstance(val, tuple) and len(val) == 2):
            h.fail("MARKER-KEEP:returns-(protected,abandoned)")
            return
        pr, ab = val
        fresh = z3.Select(mt0, wz) * 1000 >= cutoff()
        inp = z3.IsMember(TARGET(wz), pr.z) if isinstance(pr, SSetZ) else z3.BoolVal(False)
        h.ensure("MARKER-KEEP:every-fresh-listed-marker's-target-is-in-the-result", z3.Implies(z3.And(listed_w, fresh), inp))
        h.ensure("MARKER-KEEP:a-marker-handed-to-the-sweep-carries-its-own-target",
                 z3.Implies(handed_over(ab, wz), handed_over(ab, wz, TARGET(wz))))
        h.ensure("MARKER-KEEP:only-stale-markers-are-handed-to-the-sweep",
                 z3.Implies(handed_over(ab, kw), z3.And(z3.Select(mt0, kw) * 1000 < cutoff(),
                                                        z3.PrefixOf(z3.StringVal("metadata/inflight/"), kw))))
    return harness


def h_sweep(faults: bool):
    """GarbageCollector._sweep_abandoned_markers(abandoned, timeout): deletes only keys of `abandoned`; a marker that was not
    removed keeps its target in the returned set."""
    def harness(h: H):
        c = h.ctx
        st = Store(h, fault_classes=["OSError", "OtherException"] if faults else [], max_faults=1, fault_ops=["delete_file"])
        st.install(h.reg)
        gc = gc_object(h, st)
        timeout = h.int("inflight_timeout_ms")
        ab = SMapZ("str", "str", c.fresh("abandoned_has", z3.ArraySort(STR, z3.BoolSort())), c.fresh("abandoned_val", z3.ArraySort(STR, STR)))
        has0, val0 = ab.has, ab.val
        # precondition (= postcondition of _load_inflight_protection): keys are normalised marker paths
        ab.key_assume = lambda k: z3.PrefixOf(z3.StringVal("metadata/inflight/"), k)
        wz = z3.String("witness_abandoned_marker")
        h.assume(z3.PrefixOf(z3.StringVal("metadata/inflight/"), wz))
        h.report("witness_abandoned_marker", wz)
        ex0 = st.ex
        g = {"w_seen": W_SEEN_INIT, "w_removed": z3.BoolVal(False)}

        def on_event(ev):
            if ev["op"] == "delete_file":
                h.ensure("MARKER-KEEP:only-markers-handed-over-as-abandoned-are-deleted", z3.Select(has0, ev["path"]))
        st.on_event = on_event

        def inv(I, env, it):
            ok, sp = env.lookup("still_protected")
            if it.get("after_body"):
                k = pyops.str_z(it["elem"][0])
                g["w_seen"] = z3.Or(g["w_seen"], k == wz)
            gone = z3.And(z3.Select(ex0, wz), z3.Not(z3.Select(st.ex, wz)))
            kept = z3.IsMember(z3.Select(val0, wz), sp.z) if isinstance(sp, SSetZ) else z3.BoolVal(False)
            return [("MARKER-KEEP:a-visited-marker-is-removed-or-keeps-protecting",
                     z3.Implies(z3.And(g["w_seen"], z3.Select(ex0, wz)), z3.Or(gone, kept)))]

        def havoc(I, env, it):
            g["w_seen"] = I.ctx.fresh_bool("w_seen")
            env.vars["still_protected"] = SSetZ("str", I.ctx.fresh("still_protected", z3.SetSort(STR)))
            st.ex = I.ctx.fresh("ex_in_loop", st.ex.sort())   # earlier iterations deleted some markers (only wz is tracked)
        h.reg.loops[f"{GC}:GarbageCollector._sweep_abandoned_markers"] = {
            "*": LoopSpec(invariant=inv, havoc=havoc, name="abandoned", skip=["still_protected", "norm_marker", "data_rel"])}
        out, val = h.run(f"{GC}:GarbageCollector._sweep_abandoned_markers", [gc, ab, timeout])
        if out == "raise":
            h.fail("MARKER-KEEP:sweep-never-raises(a-failing-delete-keeps-the-protection)", detail=repr(val))
            return
        if g["w_seen"] is not W_SEEN_INIT:
            h.assume(z3.Implies(z3.Select(has0, wz), g["w_seen"]), "rule ALL-VISITED")
        gone = z3.And(z3.Select(ex0, wz), z3.Not(z3.Select(st.ex, wz)))
        kept = z3.IsMember(z3.Select(val0, wz), val.z) if isinstance(val, SSetZ) else z3.BoolVal(False)
        h.ensure("MARKER-KEEP:an-unswept-marker-keeps-protecting",
                 z3.Implies(z3.And(z3.Select(has0, wz), z3.Select(ex0, wz)), z3.Or(gone, kept)))
    return harness


def _replay_markers(ob):
    return '''
import sys, os, time, tempfile, shutil, json
from datashard import create_table
from datashard.data_structures import Schema
from datashard.garbage_collector import GarbageCollectionAborted
from doubles import faulty
bad = []
def fresh_table(root, name):
    t = create_table(os.path.join(root, name), schema=Schema(schema_id=1, fields=[{"id": 1, "name": "a", "type": "long", "required": False}]))
    t.append_records([{"a": 1}])
    return t
root = tempfile.mkdtemp(prefix="pyvc_replay_")
try:
    # (i) marker directory listing fails while a transaction's two-hour-old data file is in flight
    t = fresh_table(root, "t1")
    tx = t.new_transaction().begin(); tx.append_data([{"a": 2}])
    f = tx._written_files[0]; old = time.time() - 7200
    os.utime(os.path.join(root, "t1", f), (old, old))
    faulty.install(t, [{"op": "list_files", "match": "metadata/inflight", "raise": OSError("listing failed")}])
    try:
        t.garbage_collect(grace_period_ms=3600_000)
        raised = False
    except Exception:
        raised = True
    if not raised and not os.path.exists(os.path.join(root, "t1", f)):
        bad.append("marker listing failed -> protection silently dropped -> in-flight data file deleted")
    # (ii) marker of an in-flight MANIFEST cannot be read
    t = fresh_table(root, "t2")
    man = "metadata/manifests/manifest_inflight_test.avro"; t.storage.write_file(man, b"avro")
    t.storage.write_file("metadata/inflight/manifest_inflight_test.avro.inflight", json.dumps({"file_path": man}).encode())
    os.utime(os.path.join(root, "t2", man), (old, old))
    faulty.install(t, [{"op": "read_file", "match": "metadata/inflight/", "raise": OSError("read failed")}])
    try:
        t.garbage_collect(grace_period_ms=3600_000); raised = False
    except Exception:
        raised = True
    if not raised and not os.path.exists(os.path.join(root, "t2", man)):
        bad.append("unreadable marker -> fallback target data/<basename> -> in-flight manifest deleted")
    # (iii) the age of a marker cannot be determined (stat fails): it must keep protecting, not count as abandoned
    t = fresh_table(root, "t3")
    tx = t.new_transaction().begin(); tx.append_data([{"a": 3}])
    f = tx._written_files[0]
    for d, _s, fs in os.walk(os.path.join(root, "t3")):
        for x in fs: os.utime(os.path.join(d, x), (old, old))
    markers = [m for m in t.storage.list_files("metadata/inflight")]
    faulty.install(t, [{"op": "get_modified_time", "match": "metadata/inflight/", "raise": OSError("stat failed")}])
    try:
        t.garbage_collect(grace_period_ms=3600_000); raised = False
    except Exception:
        raised = True
    if not raised and not os.path.exists(os.path.join(root, "t3", f)):
        bad.append("marker whose age cannot be read was treated as abandoned -> the open transaction's data file was deleted")
    if not raised and markers and not all(os.path.exists(os.path.join(root, "t3", m)) for m in markers):
        bad.append("marker whose age cannot be read was swept")
finally:
    shutil.rmtree(root, ignore_errors=True)
print("replay markers ->", bad or "ok")
sys.exit(1 if bad else 0)
'''


register(Unit("C05", "MARKERS/_marker_target", h_marker_target(False), functions=[f"{GC}:GarbageCollector._marker_target"], replay=_replay_markers))
register(Unit("C05", "MARKERS/_load_inflight_protection", h_load_inflight(False), functions=[f"{GC}:GarbageCollector._load_inflight_protection"], replay=_replay_markers))
register(Unit("C07", "MARKERS/_marker_target-faults", h_marker_target(True), functions=[f"{GC}:GarbageCollector._marker_target"], replay=_replay_markers))
register(Unit("C07", "MARKERS/_load_inflight_protection-faults", h_load_inflight(True), functions=[f"{GC}:GarbageCollector._load_inflight_protection"], replay=_replay_markers))
register(Unit("C05", "MARKERS/_sweep_abandoned_markers", h_sweep(False), functions=[f"{GC}:GarbageCollector._sweep_abandoned_markers"], replay=_replay_markers))
register(Unit("C07", "MARKERS/_sweep_abandoned_markers-faults", h_sweep(True), functions=[f"{GC}:GarbageCollector._sweep_abandoned_markers"], replay=_replay_markers))


# =================================================================================== collect
def h_collect(faults: bool):
    def harness(h: H):
        c = h.ctx
        st = Store(h, fault_classes=["OSError", "OtherException"] if faults else [], max_faults=1, fault_ops=["exists"])
        st.install(h.reg)
        install_norm_contract(h)
        gc = gc_object(h, st)
        grace = h.int("grace_period_ms")
        # ---- witness chain: snapshot -> manifest list -> manifest -> data file
        ml_w, mp_w, dp_w = z3.String("w_manifest_list"), z3.String("w_manifest_path"), z3.String("w_data_file_path")
        in_snap, in_ml, in_mf = z3.Bool("w_snapshot_is_retained"), z3.Bool("w_manifest_in_list"), z3.Bool("w_file_in_manifest")
        for n, t in (("w_manifest_list", ml_w), ("w_manifest_path", mp_w), ("w_data_file_path", dp_w),
                     ("w_snapshot_is_retained", in_snap), ("w_manifest_in_list", in_ml), ("w_file_in_manifest", in_mf)):
            h.report(n, t)
        h.assume(z3.Length(ml_w) > 0)
        h.assume(z3.Length(mp_w) > 0)
        g = {"phase": "reach", "fault_in_iteration": False, "s_seen": z3.BoolVal(False), "m_seen": z3.BoolVal(False),
             "f_seen": z3.BoolVal(False), "cur_is_w": False, "set2_0": None, "set3_0": None, "gc_calls": [], "prot": None,
             "prot_calls": 0, "reach_fault": False, "sweep_calls": 0, "order": [], "still": None, "prot_fault": False}

        from contracts.readpath import install_count_contracts
        install_count_contracts(h, g)
        wsnap = SObj("Snapshot", {"manifest_list": SStr(ml_w), "snapshot_id": SInt(c.fresh_int("w_sid"))}, label="witness-snapshot")
        wman = SObj("ManifestFile", {"manifest_path": SStr(mp_w)}, label="witness-manifest")
        rec_w = SOpt(c.fresh_bool("w_manifest_count_unrecorded"), SInt(c.fresh_int("w_manifest_count")))
        cnt_w = SOpt(c.fresh_bool("w_entry_count_unrecorded"), SInt(c.fresh_int("w_entry_count")))
        g["exp"][("manifests", id(wsnap))] = rec_w
        g["exp"][("entries", id(wman))] = cnt_w

        def passed_is(v, want):
            """z3: the keyword value handed to a reader is exactly the recorded count `want` (a present optional)"""
            if v is None:
                return z3.BoolVal(False)
            if isinstance(v, SOpt):
                return z3.And(z3.Not(v.isnone), pyops.int_z(v.val) == want.val.z)
            return pyops.int_z(v) == want.val.z

        def fresh_map(I, nm):
            return SMapZ("str", "int", I.ctx.fresh(nm + "_has", z3.ArraySort(STR, z3.BoolSort())), I.ctx.fresh(nm + "_val", z3.ArraySort(STR, z3.IntSort())))

        def map_has(env, name, key, want):
            ok, m = env.lookup(name)
            if isinstance(m, SMapZ):
                return z3.And(z3.Select(m.has, key), z3.Select(m.val, key) == want.val.z)
            return z3.BoolVal(False)

        def refresh(I, fv, args, kwargs):
            g["order"].append("refresh")
            if faults and I.ctx.flip("refresh-fault"):
                g["reach_fault"] = True
                raise PyRaise(SExc("OSError", origin="fault:refresh", fields={"fault": True}))
            if I.ctx.flip("no-metadata"):
                return None

            def mk_snap(I2):
                if I2.ctx.flip("snapshot-is-witness"):
                    I2.ctx.assume(in_snap)
                    g["cur_is_w"] = True
                    return wsnap
                g["cur_is_w"] = False
                o = SObj("Snapshot", {"manifest_list": SStr(I2.ctx.fresh_str("ml")), "snapshot_id": SInt(I2.ctx.fresh_int("sid"))})
                # every snapshot has its own manifest list (the name embeds the snapshot id and a uuid token: WRITE-ONCE)
                I2.ctx.assume(NORM(o.fields["manifest_list"].z) != NORM(ml_w), "WF: manifest lists are not shared between snapshots")
                return o
            return SObj("TableMetadata", {"snapshots": TheoryObj("symiter", fields={"mk": mk_snap}),
                                          "current_snapshot_id": SOpt(I.ctx.fresh_bool("cur_none"), SInt(I.ctx.fresh_int("cur_id"))),
                                          "table_uuid": SStr(I.ctx.fresh_str("uuid")), "properties": PDict({})})
        h.reg.contracts["metadata_manager:MetadataManager.refresh"] = refresh

        def reader(kind):
            def contract(I, fv, args, kwargs):
                path = st.key(I, args[1])
                st.log(kind, path=path)
                g["reads_in_iteration"] = g.get("reads_in_iteration", 0) + 1
                raw = pyops.str_z(args[1])      # the element of the reachable set being read (a normal form: what the dicts are keyed by)
                if kind == "read_manifest_list_file":
                    h.ensure("COUNT-CHECK:a-retained-snapshot's-manifest-list-is-read-with-the-manifest-count-that-snapshot-records",
                             z3.Implies(z3.And(raw == NORM(ml_w), in_snap, z3.Not(rec_w.isnone)), passed_is(kwargs.get("expected_manifests"), rec_w)))
                else:
                    h.ensure("COUNT-CHECK:a-listed-manifest-is-read-with-the-entry-count-its-list-entry-records",
                             z3.Implies(z3.And(raw == NORM(mp_w), in_snap, in_ml, z3.Not(cnt_w.isnone)), passed_is(kwargs.get("expected_entries"), cnt_w)))
                if not I.ctx.decide(z3.Select(st.ex, path), f"{kind}-exists"):
                    g["reach_fault"] = True   # the reader itself refuses a missing file
                    g["fault_in_iteration"] = True
                    raise PyRaise(SExc("FileNotFoundError", origin=f"missing:{kind}", fields={"fault": False}))
                if faults and I.ctx.flip(f"{kind}-fault"):
                    g["fault_in_iteration"] = True
                    g["reach_fault"] = True
                    raise PyRaise(SExc(["OSError", "ValueError", "FileNotFoundError"][I.ctx.choose(3, "reader-exc")],
                                       origin=f"fault:{kind}", fields={"fault": True}))

                def mk(I2):
                    if kind == "read_manifest_list_file":
                        if I2.ctx.flip("manifest-is-witness"):
                            I2.ctx.assume(z3.And(path == NORM(ml_w), in_ml))
                            g["cur_is_w"] = True
                            return wman
                        g["cur_is_w"] = False
                        om = SObj("ManifestFile", {"manifest_path": SStr(I2.ctx.fresh_str("mp"))})
                        # a manifest carried over into several lists has the SAME counts in each of them (entries are copied)
                        oc = SOpt(I2.ctx.fresh_bool("entry_count_unrecorded"), SInt(I2.ctx.fresh_int("entry_count")))
                        g["exp"][("entries", id(om))] = oc
                        I2.ctx.assume(z3.Implies(NORM(om.fields["manifest_path"].z) == NORM(mp_w), z3.And(oc.isnone == cnt_w.isnone, oc.val.z == cnt_w.val.z)),
                                      "WRITE-ONCE: list entries naming the same manifest agree on its counts")
                        return om
                    if I2.ctx.flip("file-is-witness"):
                        I2.ctx.assume(z3.And(path == NORM(mp_w), in_mf))
                        g["cur_is_w"] = True
                        return SObj("DataFile", {"file_path": SStr(dp_w)})
                    g["cur_is_w"] = False
                    return SObj("DataFile", {"file_path": SStr(I2.ctx.fresh_str("dp"))})
                return TheoryObj("symiter", fields={"mk": mk, "of": path})
            return contract
        h.reg.contracts["file_manager:FileManager.read_manifest_list_file"] = reader("read_manifest_list_file")
        h.reg.contracts["file_manager:FileManager.read_manifest_file"] = reader("read_manifest_file")

        def load_prot(I, fv, args, kwargs):
            g["prot_calls"] += 1
            g["order"].append("markers")
            if faults and I.ctx.flip("protection-aborts"):
                g["prot_fault"] = True
                raise PyRaise(SExc("GarbageCollectionAborted", origin="fault:_load_inflight_protection", fields={"fault": True}))
            g["prot"] = I.ctx.fresh("protected", z3.SetSort(STR))
            g["abandoned"] = SMapZ("str", "str", I.ctx.fresh("abandoned_has", z3.ArraySort(STR, z3.BoolSort())),
                                   I.ctx.fresh("abandoned_val", z3.ArraySort(STR, STR)))
            return (SSetZ("str", g["prot"]), g["abandoned"])
        h.reg.contracts[f"{GC}:GarbageCollector._load_inflight_protection"] = load_prot

        def sweep(I, fv, args, kwargs):
            g["sweep_calls"] += 1
            g["order"].append("sweep")
            g["phase"] = "protect"
            g["sweep_arg_ok"] = args[1] is g.get("abandoned")
            g["still"] = I.ctx.fresh("still_protected", z3.SetSort(STR))
            return SSetZ("str", g["still"])
        h.reg.contracts[f"{GC}:GarbageCollector._sweep_abandoned_markers"] = sweep

        def gc_prefix(I, fv, args, kwargs):
            _self, prefix, rset, gr = args
            g["phase"] = "delete"
            g["gc_calls"].append((prefix, rset, gr))
            if faults and I.ctx.flip("gc_prefix-aborts"):
                raise PyRaise(SExc("GarbageCollectionAborted", origin="fault:_gc_prefix", fields={"fault": True}))
            return SInt(I.ctx.fresh_int("deleted"))
        h.reg.contracts[f"{GC}:GarbageCollector._gc_prefix"] = gc_prefix

        def setvar(env, name):
            ok, v = env.lookup(name)
            return v

        def fresh_set(I, nm):
            return SSetZ("str", I.ctx.fresh(nm, z3.SetSort(STR)))

        # ---- loop over snapshots
        def inv0(I, env, it):
            s1 = setvar(env, "reachable_manifest_lists")
            if it.get("after_body") and g["cur_is_w"]:
                g["s_seen"] = z3.BoolVal(True) if True else g["s_seen"]
            cnt = ("COUNT-CHECK:inv:recorded-manifest-count-of-a-seen-snapshot-is-remembered-for-its-list",
                   z3.Implies(z3.And(g["s_seen"], z3.Not(rec_w.isnone)), map_has(env, "expected_manifests", NORM(ml_w), rec_w)))
            if isinstance(s1, SSetZ):
                return [("REACH-ALL:inv:retained-snapshot's-list-collected", z3.Implies(g["s_seen"], z3.IsMember(NORM(ml_w), s1.z))), cnt]
            return [("REACH-ALL:inv:retained-snapshot's-list-collected", z3.Not(g["s_seen"])), cnt]

        def havoc0(I, env, it):
            env.vars["reachable_manifest_lists"] = fresh_set(I, "lists")
            env.vars["expected_manifests"] = fresh_map(I, "expected_manifests")
            g["s_seen"] = I.ctx.fresh_bool("s_seen")
            g["cur_is_w"] = False

        def exit0(I, env, it):
            I.ctx.assume(z3.Implies(in_snap, g["s_seen"]), "rule ALL-VISITED")

        # ---- loop over manifest lists (a set) with its inner loop over the list's manifests
        def inv1(I, env, it):
            s2 = setvar(env, "reachable_manifests")
            if it.get("after_body"):
                return [("ABORT-REACH:iteration-with-a-read-failure-does-not-complete", z3.BoolVal(not g["fault_in_iteration"])),
                        ("ABORT-REACH:every-reachable-manifest-list-is-read(missing-or-unreadable=>no-completion)",
                         z3.BoolVal(g.get("reads_in_iteration", 0) == 1))] + \
                    ([("REACH-ALL:inv:manifests-of-processed-lists-collected",
                       z3.Implies(z3.And(z3.IsMember(NORM(ml_w), it["done"]), in_ml), z3.IsMember(NORM(mp_w), s2.z)))] if isinstance(s2, SSetZ) else [])
            cnt = ("COUNT-CHECK:inv:recorded-entry-count-of-a-processed-list's-manifest-is-remembered",
                   z3.Implies(z3.And(z3.IsMember(NORM(ml_w), it["done"]), in_ml, z3.Not(cnt_w.isnone)), map_has(env, "expected_entries", NORM(mp_w), cnt_w)))
            if isinstance(s2, SSetZ):
                return [("REACH-ALL:inv:manifests-of-processed-lists-collected",
                         z3.Implies(z3.And(z3.IsMember(NORM(ml_w), it["done"]), in_ml), z3.IsMember(NORM(mp_w), s2.z))), cnt]
            return [cnt]

        def havoc1(I, env, it):
            env.vars["reachable_manifests"] = fresh_set(I, "manifests")
            env.vars["expected_entries"] = fresh_map(I, "expected_entries")
            g["set2_0"] = env.vars["reachable_manifests"].z
            g["fault_in_iteration"] = False
            g["reads_in_iteration"] = 0

        def inv3(I, env, it):
            s2 = setvar(env, "reachable_manifests")
            if it.get("after_body") and g["cur_is_w"]:
                g["m_seen"] = z3.BoolVal(True)
            return [("REACH-ALL:inv:set-only-grows", z3.IsSubset(g["set2_0"], s2.z)),
                    ("REACH-ALL:inv:seen-manifest-collected", z3.Implies(g["m_seen"], z3.IsMember(NORM(mp_w), s2.z))),
                    ("COUNT-CHECK:inv:recorded-entry-count-of-a-seen-manifest-is-remembered",
                     z3.Implies(z3.And(g["m_seen"], z3.Not(cnt_w.isnone)), map_has(env, "expected_entries", NORM(mp_w), cnt_w)))]

        def havoc3(I, env, it):
            env.vars["reachable_manifests"] = fresh_set(I, "manifests_in")
            env.vars["expected_entries"] = fresh_map(I, "expected_entries_in")
            g["m_seen"] = I.ctx.fresh_bool("m_seen")
            g["cur_is_w"] = False

        def entry3(I, env):
            g["m_seen"] = z3.BoolVal(False)

        def exit3(I, env, it):
            ok, l = env.lookup("m_list_path")
            I.ctx.assume(z3.Implies(z3.And(pyops.str_z(l) == NORM(ml_w), in_ml), g["m_seen"]), "rule ALL-VISITED")

        # ---- loop over manifests (a set) with its inner loop over data files
        def inv2(I, env, it):
            s3 = setvar(env, "reachable_data_files")
            res = []
            if it.get("after_body"):
                res.append(("ABORT-REACH:iteration-with-a-read-failure-does-not-complete", z3.BoolVal(not g["fault_in_iteration"])))
                res.append(("ABORT-REACH:every-reachable-manifest-is-read(missing-or-unreadable=>no-completion)",
                            z3.BoolVal(g.get("reads_in_iteration", 0) == 1)))
            if isinstance(s3, SSetZ):
                res.append(("REACH-ALL:inv:files-of-processed-manifests-collected",
                            z3.Implies(z3.And(z3.IsMember(NORM(mp_w), it["done"]), in_mf), z3.IsMember(NORM(dp_w), s3.z))))
            return res

        def havoc2(I, env, it):
            env.vars["reachable_data_files"] = fresh_set(I, "files")
            g["set3_0"] = env.vars["reachable_data_files"].z
            g["fault_in_iteration"] = False
            g["reads_in_iteration"] = 0

        def inv4(I, env, it):
            s3 = setvar(env, "reachable_data_files")
            if it.get("after_body") and g["cur_is_w"]:
                g["f_seen"] = z3.BoolVal(True)
            return [("REACH-ALL:inv:set-only-grows", z3.IsSubset(g["set3_0"], s3.z)),
                    ("REACH-ALL:inv:seen-file-collected", z3.Implies(g["f_seen"], z3.IsMember(NORM(dp_w), s3.z)))]

        def havoc4(I, env, it):
            env.vars["reachable_data_files"] = fresh_set(I, "files_in")
            g["f_seen"] = I.ctx.fresh_bool("f_seen")
            g["cur_is_w"] = False

        def exit4(I, env, it):
            ok, m = env.lookup("m_path")
            I.ctx.assume(z3.Implies(z3.And(pyops.str_z(m) == NORM(mp_w), in_mf), g["f_seen"]), "rule ALL-VISITED")

        skipv = ["reachable_manifest_lists", "reachable_manifests", "reachable_data_files", "m_list_path", "m_path", "manifests",
                 "data_files", "m", "df", "snapshot", "expected_manifests", "expected_entries", "norm_list", "norm_manifest", "recorded", "count"]
        h.reg.loops[f"{GC}:GarbageCollector.collect"] = {
            "iter:metadata.snapshots": LoopSpec(invariant=inv0, havoc=havoc0, on_exit=exit0, name="snapshots", skip=skipv),
            "iter:reachable_manifest_lists": LoopSpec(invariant=inv1, havoc=havoc1, name="manifest-lists", skip=skipv),
            "iter:manifests": LoopSpec(invariant=inv3, havoc=havoc3, on_exit=exit3, name="manifests-of-list", skip=skipv),
            "iter:reachable_manifests": LoopSpec(invariant=inv2, havoc=havoc2, name="manifests", skip=skipv),
            "iter:data_files": LoopSpec(invariant=inv4, havoc=havoc4, on_exit=exit4, name="files-of-manifest", skip=skipv),
        }
        # the inner loops start with nothing seen: reset at each outer iteration via the havoc of the outer loop
        out, val = h.run(f"{GC}:GarbageCollector.collect", [gc, grace])
        calls = g["gc_calls"]
        if out == "raise":
            if g["reach_fault"] or (isinstance(val.cause, SExc) and str(val.cause.origin).startswith(("fault-before:exists", "line"))) \
                    or "missing" in str(val.origin):
                h.ensure("ABORT-REACH:failure-while-computing-reachability=>nothing-deleted-or-swept",
                         len(calls) == 0 and g["sweep_calls"] == 0 and len(st.deleted) == 0)
            if g["prot_fault"]:
                h.ensure("ABORT-REACH:unobservable-markers=>nothing-deleted-or-swept",
                         len(calls) == 0 and g["sweep_calls"] == 0 and len(st.deleted) == 0)
            if not str(val.origin).startswith("fault:refresh"):
                h.ensure("ABORT:collect-raises-GarbageCollectionAborted", val.cls == "GarbageCollectionAborted", detail=repr(val))
            h.cover("ABORT-REACH:reachable") if g["reach_fault"] else None
            return
        h.ensure("ABORT-REACH:a-reachability-read-failure-never-returns-normally", not g["reach_fault"])
        if not calls:
            h.ensure("collect:no-metadata=>nothing-touched", g["sweep_calls"] == 0 and len(st.deleted) == 0)
            return
        h.ensure("REACH-ALL:protection-loaded-once-before-deleting", g["prot_calls"] == 1 and g["sweep_calls"] <= 1)
        # GC-RG (C06): the marker observation that feeds the protection set happens no later than the (last) metadata read that
        # feeds reachability - a commit whose markers are already gone is then guaranteed to be in the metadata read
        order = g["order"]
        h.ensure("GC-RG:markers-observed-no-later-than-the-metadata-read",
                 "markers" in order and "refresh" in order and order.index("markers") < max(i for i, x in enumerate(order) if x == "refresh"))
        if g["sweep_calls"]:
            h.ensure("GC-RG:sweep-only-what-the-observation-found-abandoned", bool(g.get("sweep_arg_ok")))
        h.ensure("REACH-ALL:two-prefixes(data,manifests)", len(calls) == 2 and calls[0][0] == "data" and calls[1][0] == "metadata/manifests")
        if len(calls) != 2 or not all(isinstance(cl[1], SSetZ) for cl in calls):
            h.fail("REACH-ALL:reachable-sets-passed-as-sets")
            return
        (p1, S1, g1), (p2, S2, g2) = calls
        h.ensure("REACH-ALL:same-grace-for-both-prefixes", z3.And(pyops.int_z(g1) == grace.z, pyops.int_z(g2) == grace.z))
        h.ensure("REACH-ALL:data-files-of-EVERY-retained-snapshot-are-in-the-data-set",
                 z3.Implies(z3.And(in_snap, in_ml, in_mf), z3.IsMember(NORM(dp_w), S1.z)))
        h.ensure("REACH-ALL:manifest-lists-of-every-retained-snapshot-are-in-the-manifest-set",
                 z3.Implies(in_snap, z3.IsMember(NORM(ml_w), S2.z)))
        h.ensure("REACH-ALL:manifests-of-every-retained-snapshot-are-in-the-manifest-set",
                 z3.Implies(z3.And(in_snap, in_ml), z3.IsMember(NORM(mp_w), S2.z)))
        h.ensure("PROTECT:in-flight-files-protected-under-data", z3.IsSubset(g["prot"], S1.z))
        h.ensure("PROTECT:in-flight-files-protected-under-manifests", z3.IsSubset(g["prot"], S2.z))
        if g["still"] is not None:
            h.ensure("PROTECT:files-of-unremovable-markers-protected-under-data", z3.IsSubset(g["still"], S1.z))
            h.ensure("PROTECT:files-of-unremovable-markers-protected-under-manifests", z3.IsSubset(g["still"], S2.z))
    return harness


def _replay_collect(ob):
    return '''
import sys, os, time, tempfile, shutil
from datashard import create_table
from datashard.data_structures import Schema
from datashard.garbage_collector import GarbageCollectionAborted
from doubles import faulty
root = tempfile.mkdtemp(prefix="pyvc_replay_")
bad = []
def age_all(base):
    old = time.time() - 7200
    for d, _s, fs in os.walk(base):
        for f in fs: os.utime(os.path.join(d, f), (old, old))
try:
    p = os.path.join(root, "t")
    t = create_table(p, schema=Schema(schema_id=1, fields=[{"id": 1, "name": "a", "type": "long", "required": False}]))
    t.append_records([{"a": 1}]); t.append_records([{"a": 2}])
    first = [f for f in t.storage.list_files("data")]
    with t.new_transaction() as tx:
        tx.delete_files(["/" + first[0]]); tx.commit()
    t.append_records([{"a": 3}])
    age_all(p)
    # every retained snapshot must stay readable: all files referenced by ANY snapshot must survive
    import json
    md = t.metadata_manager.refresh()
    ref = set()
    for s in md.snapshots:
        ml = s.manifest_list.lstrip("/"); ref.add(ml)
        for m in t.file_manager.read_manifest_list_file(ml):
            mp = m.manifest_path.lstrip("/"); ref.add(mp)
            for df in t.file_manager.read_manifest_file(mp): ref.add(df.file_path.lstrip("/"))
    t.garbage_collect(grace_period_ms=0)
    now = set(t.storage.list_files("data")) | set(t.storage.list_files("metadata/manifests"))
    if not ref <= now: bad.append(("files of retained snapshots deleted", sorted(ref - now)))
    # history: two files in ONE manifest, partial delete (manifest rewritten with carried-over entries), expiry, collection
    p2 = os.path.join(root, "t2")
    u = create_table(p2, schema=Schema(schema_id=1, fields=[{"id": 1, "name": "a", "type": "long", "required": False}]))
    with u.new_transaction() as tx:
        tx.append_data([{"a": 10}]); tx.append_data([{"a": 11}]); tx.commit()
    files = sorted(u.storage.list_files("data"))
    with u.new_transaction() as tx:
        tx.delete_files(["/" + files[0]]); tx.commit()
    time.sleep(0.01)
    with u.new_transaction() as tx:
        tx.expire_snapshots(int(time.time() * 1000) + 10_000); tx.commit()
    age_all(p2)
    want = sorted(r["a"] for r in u.scan())
    try:
        u.garbage_collect(grace_period_ms=0)
        got = sorted(r["a"] for r in u.scan())
        if got != want: bad.append(("rows changed by a collection after delete+expire", want, got))
    except Exception as e:
        bad.append(("collection/scan failed after delete+expire", repr(e)[:120]))
    # history: three commits, the MIDDLE snapshot deleted (its manifests are carried over by the later one), collection
    p3 = os.path.join(root, "t3")
    v = create_table(p3, schema=Schema(schema_id=1, fields=[{"id": 1, "name": "a", "type": "long", "required": False}]))
    for i in range(3): v.append_records([{"a": 20 + i}])
    mid = v.metadata_manager.refresh().snapshots[1].snapshot_id
    v.snapshot_manager.delete_snapshot(mid)
    age_all(p3)
    want3 = sorted(r["a"] for r in v.scan())
    try:
        v.garbage_collect(grace_period_ms=0)
        got3 = sorted(r["a"] for r in v.scan())
        if got3 != want3: bad.append(("rows changed by a collection after deleting a middle snapshot", want3, got3))
    except Exception as e:
        bad.append(("collection/scan failed after deleting a middle snapshot", repr(e)[:120]))
    # a failing manifest read of an OLD snapshot must abort without deleting
    t.storage.write_file("data/orphan.parquet", b"x"); age_all(p)
    oldest = md.snapshots[0].manifest_list.lstrip("/")
    faulty.install(t, [{"op": "open_file", "match": oldest, "raise": OSError("transient")}])
    before = set(os.listdir(os.path.join(p, "data")))
    try:
        t.garbage_collect(grace_period_ms=0); bad.append("read failure of an old snapshot's manifest list did not abort")
    except GarbageCollectionAborted: pass
    except Exception as e: bad.append(("unexpected exception type", repr(e)))
    if set(os.listdir(os.path.join(p, "data"))) != before: bad.append("files deleted although reachability was unknown")
    # an exists() that answers False for the manifest list of an OLD retained snapshot must abort as well
    p3 = os.path.join(root, "t3")
    w = create_table(p3, schema=Schema(schema_id=1, fields=[{"id": 1, "name": "a", "type": "long", "required": False}]))
    w.append_records([{"a": 1}])
    f0 = w.storage.list_files("data")
    with w.new_transaction() as tx:
        tx.delete_files(["/" + f0[0]]); tx.commit()
    w.append_records([{"a": 2}])
    age_all(p3)
    md3 = w.metadata_manager.refresh()
    oldest3 = md3.snapshots[0].manifest_list.lstrip("/")
    real_exists = w.storage.exists
    w.storage.exists = lambda path: False if path.lstrip("/") == oldest3 else real_exists(path)
    before3 = set(os.listdir(os.path.join(p3, "data"))) | set(os.listdir(os.path.join(p3, "metadata", "manifests")))
    try:
        w.garbage_collect(grace_period_ms=0); raised3 = False
    except GarbageCollectionAborted: raised3 = True
    except Exception as e: raised3 = True
    after3 = set(os.listdir(os.path.join(p3, "data"))) | set(os.listdir(os.path.join(p3, "metadata", "manifests")))
    if not raised3 and after3 != before3:
        bad.append(("missing manifest list of an older retained snapshot was skipped and its files deleted", sorted(before3 - after3)))
finally:
    shutil.rmtree(root, ignore_errors=True)
print("replay collect ->", bad or "ok")
sys.exit(1 if bad else 0)
'''


register(Unit("C05", "COLLECT/reach-all", h_collect(False), functions=[f"{GC}:GarbageCollector.collect"], replay=_replay_collect))
register(Unit("C07", "COLLECT/abort-reach", h_collect(True), functions=[f"{GC}:GarbageCollector.collect"], replay=_replay_collect))

from contracts import helpers as _HC  # noqa: E402
_HC.register_under("C05", ["COUNT/recorded_manifest_count", "COUNT/expected_entry_count", "COUNT/_check_count"])

# the collector computes reachability from MetadataManager.refresh(): it must be the CURRENT version or an error
from contracts import readpath as _rpr  # noqa: E402
from pyvc.runner import Unit as _U2, register as _r2  # noqa: E402
for _n, _hf, _fs in _rpr.REFRESH_UNITS:
    if "refresh-exact" in _n:
        _r2(_U2("C05", _n, _hf, functions=_fs, replay=None))
