"""C09 - retained snapshots are immutable and time travel is stable (lookup / repointing part: contracts/snapshots.py)."""
from contracts import snapshots as S
from pyvc.runner import Unit, register

P = "C09"
META = dict(S.META)
for name, (harness, fns, replay) in S.UNITS_C09.items():
    register(Unit(P, name, harness, functions=fns, replay=replay))
