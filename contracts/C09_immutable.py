"""C09 - retained snapshots are immutable and time travel is stable.
  BY-ID / BY-TS / REPOINT-CUR   lookup and repointing contracts over the snapshot forest (contracts/snapshots.py)
  WRITE-ONCE                     every metadata-plane file a commit writes gets a name with a fresh uuid token (manifests, lists)
  immutability of retained content = WRITE-ONCE + 'rollback deletes only own files' (DEL-OWN) + 'GC deletes only unreachable
  files' (C05 DELETE-SAFE / REACH-ALL) + 'deletes rewrite, never edit, manifests' (DELETE-EXACT): units re-registered here."""
from contracts import C05_gc as gc
from contracts import commitpath as cp
from contracts import snapshots as S
from pyvc.runner import Unit, register, units_of

P = "C09"
META = dict(S.META)
META["trusted"] = list(META["trusted"]) + [
    "A-uuid: names with a uuid4 token are never reused; data files are write-once by the same argument (C16 DataFileWriter.open)",
    "lemma IMMUT (meta-argument): no function overwrites or deletes a file reachable from a retained snapshot - writers only "
    "create fresh names (WRITE-ONCE), rollback deletes only files of the failed transaction (DEL-OWN), the collector deletes only "
    "files outside the reachable set of EVERY retained snapshot (C05/C06)"]
for name, (harness, fns, replay) in S.UNITS_C09.items():
    register(Unit(P, name, harness, functions=fns, replay=replay))
register(Unit(P, "REPOINT-CUR/delete_snapshot", S.h_delete_snapshot_wf, functions=[f"{S.SM}:SnapshotManager.delete_snapshot"], replay=S._replay_lookup))
for k in ("manifest", "list"):
    register(Unit(P, f"WRITE-ONCE/create_{k}", cp.h_create_manifest(k),
                  functions=[f"{cp.FMOD}:FileManager.create_manifest_file" if k == "manifest" else f"{cp.FMOD}:FileManager.create_manifest_list_file"], replay=S._replay_carry))
register(Unit(P, "DEL-OWN/_rollback", cp.h_rollback(True), functions=[f"{cp.TX}:Transaction._rollback"], replay=cp._replay_tx))
register(Unit(P, "DELETE-EXACT/_commit_file_ops", cp.h_commit_file_ops("both"), functions=[f"{cp.TX}:Transaction._commit_file_ops"], replay=S._replay_carry))
for u in list(units_of("C05")):
    if u.name.startswith(("GC-PREFIX", "COLLECT", "NORM-AGREE/relative", "NORM-AGREE/leading")):
        register(Unit(P, "GC/" + u.name, u.harness, functions=u.functions, replay=u.replay, reg_factory=u.reg_factory or gc.registry, z3_timeout_ms=u.z3_timeout_ms))

from contracts import lemmas as _L  # noqa: E402
register(Unit(P, "LEMMA/IMMUT", _L.h_immut, functions=[], replay=S._replay_carry, uses=_L.IMMUT_USES))

from contracts import helpers as _HLP  # noqa: E402
_HLP.register_under("C09", ["HELPER/validate_data_files", "HELPER/validate_file_exists"])

from contracts import commitpath as _cpl  # noqa: E402
register(Unit("C09", "LIST-ENTRIES/create_manifest_list_file", _cpl.h_manifest_list_entries, functions=["file_manager:FileManager.create_manifest_list_file"], replay=None))
