"""C06 - garbage collection is safe against concurrently committing transactions.
GUAR-tx (transaction side): g1 marker before file (append_data, manifest writers), g2 markers removed only after the commit
point or together with the files in a known-clean rollback and kept across conflict retries; GC-RG (collector side): the
protection set is observed no later than reachability.  Lemma STABLE (dead files stay dead) is the stated meta-argument."""
from contracts import C05_gc as gc
from contracts import commitpath as cp
from pyvc.runner import Unit, register

P = "C06"
META = dict(cp.META)
META["trusted"] = list(META["trusted"]) + [
    "lemma STABLE (meta-argument): under g1-g3 a file that exists, is unreachable, unprotected and will not be committed stays so; with "
    "markers read no later than metadata and grace > duration of the run, every deleted file is dead at the instant of its deletion",
    "A-clock: collector and writers agree on file mtimes; 'grace period exceeds the run' is a precondition, not verified"]
TXF = lambda *n: [f"{cp.TX}:Transaction.{x}" for x in n]
register(Unit(P, "GUAR-tx/_register_inflight", cp.h_register_inflight, functions=TXF("_register_inflight"), replay=gc._replay_markers))
register(Unit(P, "GUAR-tx/append_data", cp.h_append_data, functions=TXF("append_data"), replay=gc._replay_markers))
for k in ("manifest", "list"):
    register(Unit(P, f"GUAR-tx/create_{k}", cp.h_create_manifest(k),
                  functions=[f"{cp.FMOD}:FileManager.create_manifest_file" if k == "manifest" else f"{cp.FMOD}:FileManager.create_manifest_list_file"], replay=gc._replay_markers))
for kind in ("file-ops",):
    register(Unit(P, f"GUAR-tx/Transaction.commit-{kind}", cp.h_tx_commit(kind, False), functions=TXF("commit"), replay=cp._replay_tx))
register(Unit(P, "GUAR-tx/_finish_committed", cp.h_finish_committed, functions=TXF("_finish_committed"), replay=cp._replay_tx))
register(Unit(P, "GUAR-tx/_rollback", cp.h_rollback(True), functions=TXF("_rollback"), replay=cp._replay_tx))
for mode in ("both",):
    register(Unit(P, f"GUAR-tx/_commit_file_ops-{mode}", cp.h_commit_file_ops(mode), functions=TXF("_commit_file_ops"), replay=cp._replay_tx))
register(Unit(P, "GC-RG/collect", gc.h_collect(False), functions=[f"{gc.GC}:GarbageCollector.collect"], replay=gc._replay_collect, reg_factory=gc.registry))
