"""C06 - garbage collection is safe against concurrently committing transactions.
GUAR-tx (transaction side): g1 marker before file (append_data, manifest writers), g2 markers removed only after the commit
point or together with the files in a known-clean rollback and kept across conflict retries; GC-RG (collector side): the
protection set is observed no later than reachability.  Lemma STABLE (dead files stay dead) is the stated meta-argument."""
from contracts import C05_gc as gc
from contracts import commitpath as cp
from pyvc.runner import Unit, register

P = "C06"


def _replay_gcrace(ob):
    """bounded stand-in / witness replay for GC-RG: one collector, one writer whose data file is older than the grace period;
    the writer's whole commit (and, separately, its rollback) is scheduled before the k-th storage operation of the collector,
    for every k the collector performs."""
    return '''
import sys, os, time, tempfile, shutil
from datashard import create_table
from datashard.data_structures import Schema
import datashard.storage_backend as sb
OPS = ["list_files", "read_file", "exists", "open_file", "get_modified_time", "delete_file", "read_json", "get_size"]
bad = []
def run(k, action):
    root = tempfile.mkdtemp(prefix="pyvc_replay_")
    try:
        t = create_table(os.path.join(root, "t"), schema=Schema(schema_id=1, fields=[{"id": 1, "name": "a", "type": "long", "required": False}]))
        t.append_records([{"a": 1}])
        tx = t.new_transaction().begin(); tx.append_data([{"a": 2}])
        old = time.time() - 7200
        for d, _s, fs in os.walk(os.path.join(root, "t", "data")):
            for f in fs: os.utime(os.path.join(d, f), (old, old))
        cls = type(t.storage); n = {"ops": 0, "armed": True}; saved = {}
        def wrap(name):
            orig = getattr(cls, name)
            def w(self, *a, **kw):
                if n["armed"] and self is t.storage:
                    if n["ops"] == k:
                        n["armed"] = False
                        (tx.commit if action == "commit" else tx.rollback)()
                        n["armed"] = True; n["ops"] += 1
                        return orig(self, *a, **kw)
                    n["ops"] += 1
                return orig(self, *a, **kw)
            saved[name] = orig; setattr(cls, name, w)
        for name in OPS:
            if hasattr(cls, name): wrap(name)
        try:
            try: t.garbage_collect(grace_period_ms=3600_000)
            except Exception as e: pass
        finally:
            n["armed"] = False
            for name, orig in saved.items(): setattr(cls, name, orig)
        fired = n["ops"] > k
        if not fired and action == "commit": tx.commit()
        if action == "commit":
            try:
                got = sorted(r["a"] for r in t.scan())
                if got != [1, 2]: bad.append((action, k, "rows", got))
            except Exception as e:
                bad.append((action, k, "scan failed: " + repr(e)[:100]))
        return fired
    finally:
        shutil.rmtree(root, ignore_errors=True)
for action in ("commit", "rollback"):
    k = 0
    while run(k, action) and k < 200: k += 1
    print(action, "schedules explored:", k)
print("replay gcrace ->", bad[:4] or "ok")
sys.exit(1 if bad else 0)
'''
META = dict(cp.META)
META["trusted"] = list(META["trusted"]) + [
    "lemma STABLE (meta-argument): under g1-g3 a file that exists, is unreachable, unprotected and will not be committed stays so; with "
    "markers read no later than metadata and grace > duration of the run, every deleted file is dead at the instant of its deletion",
    "A-clock: collector and writers agree on file mtimes; 'grace period exceeds the run' is a precondition, not verified"]
TXF = lambda *n: [f"{cp.TX}:Transaction.{x}" for x in n]
register(Unit(P, "GUAR-tx/_register_inflight", cp.h_register_inflight, functions=TXF("_register_inflight"), replay=gc._replay_markers))
register(Unit(P, "GUAR-tx/append_data", cp.h_append_data, functions=TXF("append_data"), replay=gc._replay_markers))
for k in ("manifest", "list"):
    register(Unit(P, f"GUAR-tx/create_{k}", cp.h_create_manifest(k),
                  functions=[f"{cp.FMOD}:FileManager.create_manifest_file" if k == "manifest" else f"{cp.FMOD}:FileManager.create_manifest_list_file"], replay=gc._replay_markers))


def _replay_retry(ob):
    """a writer loses one OCC round; the collector runs during the writer's back-off sleep (grace 1 h, data file 2 h old)"""
    return '''
import sys, os, time, tempfile, shutil
from datashard import create_table, load_table
from datashard.data_structures import Schema
bad = []
root = tempfile.mkdtemp(prefix="pyvc_replay_")
try:
    p = os.path.join(root, "t")
    t = create_table(p, schema=Schema(schema_id=1, fields=[{"id": 1, "name": "a", "type": "long", "required": False}]))
    t.append_records([{"a": 1}])
    tx = t.new_transaction().begin(); tx.append_data([{"a": 2}])
    old = time.time() - 7200
    for d, _s, fs in os.walk(os.path.join(p, "data")):
        for f in fs: os.utime(os.path.join(d, f), (old, old))
    other = load_table(p)
    real_refresh = type(tx.metadata_manager).refresh
    state = {"n": 0}
    def refresh(self):
        m = real_refresh(self)
        if self is tx.metadata_manager and state["n"] == 0:
            state["n"] = 1
            other.append_records([{"a": 3}])          # the competing commit lands after our base was read -> conflict
        return m
    type(tx.metadata_manager).refresh = refresh
    real_sleep = time.sleep
    def sleep(x):
        if state["n"] == 1:
            state["n"] = 2
            for d, _s, fs in os.walk(os.path.join(p, "metadata", "manifests")):
                for f in fs: os.utime(os.path.join(d, f), (old, old))
            try: load_table(p).garbage_collect(grace_period_ms=3600_000)
            except Exception as e: print("gc raised", repr(e)[:100])
    time.sleep = sleep
    try:
        tx.commit()
    except Exception as e:
        bad.append("commit failed after the collector ran during its back-off: " + repr(e)[:120])
    finally:
        time.sleep = real_sleep; type(tx.metadata_manager).refresh = real_refresh
    if state["n"] != 2: print("note: no conflict retry happened (schedule not exercised)")
    try:
        got = sorted(r["a"] for r in load_table(p).scan())
        if got != [1, 2, 3]: bad.append(("rows", got))
    except Exception as e:
        bad.append("scan failed after commit: " + repr(e)[:120])
finally:
    shutil.rmtree(root, ignore_errors=True)
print("replay retry/markers ->", bad or "ok")
sys.exit(1 if bad else 0)
'''


for kind in ("file-ops",):
    register(Unit(P, f"GUAR-tx/Transaction.commit-{kind}", cp.h_tx_commit(kind, False), functions=TXF("commit"), replay=_replay_retry))
register(Unit(P, "GUAR-tx/_finish_committed", cp.h_finish_committed, functions=TXF("_finish_committed"), replay=cp._replay_tx))
register(Unit(P, "GUAR-tx/_rollback", cp.h_rollback(True), functions=TXF("_rollback"), replay=cp._replay_tx))
for mode in ("both",):
    register(Unit(P, f"GUAR-tx/_commit_file_ops-{mode}", cp.h_commit_file_ops(mode), functions=TXF("_commit_file_ops"), replay=cp._replay_tx))
register(Unit(P, "GC-RG/_load_inflight_protection", gc.h_load_inflight(False), functions=[f"{gc.GC}:GarbageCollector._load_inflight_protection"], replay=gc._replay_markers))
register(Unit(P, "GC-RG/_marker_target", gc.h_marker_target(False), functions=[f"{gc.GC}:GarbageCollector._marker_target"], replay=gc._replay_markers))
register(Unit(P, "GC-RG/collect", gc.h_collect(False), functions=[f"{gc.GC}:GarbageCollector.collect"], replay=_replay_gcrace, reg_factory=gc.registry))

# every single delete of the collector (DELETE-SAFE) - hypotheses of lemma STABLE
from pyvc.runner import units_of  # noqa: E402
for _u in list(units_of("C05")):
    if _u.name.startswith("GC-PREFIX"):
        register(Unit(P, "GC-RG/" + _u.name, _u.harness, functions=_u.functions, replay=_replay_gcrace, reg_factory=_u.reg_factory or gc.registry, z3_timeout_ms=_u.z3_timeout_ms))
from contracts import lemmas as _L  # noqa: E402
register(Unit(P, "LEMMA/STABLE", _L.h_stable, functions=[], replay=_replay_gcrace,
              uses=_L.STABLE_USES + ["DELETE-SAFE:deleted-file-is-not-reachable-or-protected", "DELETE-SAFE:deleted-file-is-older-than-grace"]))

from contracts import helpers as _HLP  # noqa: E402
_HLP.register_under("C06", ["HELPER/validate_data_files", "HELPER/validate_file_exists"])
