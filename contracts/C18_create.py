"""C18 - creating a table is idempotent and race-safe.

  INIT-ONCE   MetadataManager.initialize_table (units of C10 NO-REINIT, re-run here): refuses - under the metadata lock, writing
              nothing - whenever a version is resolvable or recoverable; create-if-absent pointer write on CAS backends; a
              concurrent initialiser that lost gets TableExistsError.
  OPEN        Table.__init__ initialises only when create_if_not_exists and one metadata read found nothing; it never writes
              by itself.
  ADOPT       Table._initialize_table hands exactly one freshly built metadata object to initialize_table, swallows
              TableExistsError only (the loser adopts the winner's table: every later read goes through refresh()), lets every
              other error out.
  SCHEMA      the schema supplied at creation is persisted as THE current schema (schemas == [schema], current_schema_id ==
              schema.schema_id); _resolve_table_schema returns the persisted current non-empty schema (else any non-empty one,
              else None); append_data without a schema argument writes with the resolved schema and raises ValueError before
              touching storage when there is none.
Lemma ONE-INIT (meta-argument over INIT-ONCE + the lock / conditional-PUT exclusion of C19/C08): among any number of concurrent
creators exactly one initialize_table returns normally; all others raise TableExistsError or never attempt."""
from __future__ import annotations

import z3

from contracts import C10_hint as c10
from contracts import commitpath as cp
from pyvc import pyops
from pyvc.engine import LoopSpec, PyRaise
from pyvc.runner import H, Unit, register
from pyvc.theories import misc
from pyvc.theories.store import Store
from pyvc.values import ClassVal, PDict, PList, SBool, SExc, SInt, SObj, SOpt, SStr, TheoryObj

P = "C18"
TX = "transaction"
MM = "metadata_manager"
META = dict(cp.META)
META["trusted"] = list(META["trusted"]) + [
    "lemma ONE-INIT: exclusion between concurrent initialisers is the flock (C19 LOCAL) or the create-if-absent conditional PUT "
    "(T-s3); interleavings of creators are not enumerated",
    "constructors of the manager objects (MetadataManager, FileManager, ...) are treated as side-effect free on storage "
    "(A-ctor): they are replaced by opaque objects in the OPEN unit"]


def table_object(h: H, st: Store):
    mm = h.obj("MetadataManager", storage=st.obj)
    return h.obj("Table", table_path=h.str("table_path"), storage=st.obj, metadata_manager=mm), mm


# ----------------------------------------------------------------------------------------------- _initialize_table
def h_initialize(h: H):
    c = h.ctx
    st = Store(h)
    st.install(h.reg)
    misc.install_clock(h.reg, c)
    misc.install_uuid(h.reg, c)
    t, mm = table_object(h, st)
    h.reg.modfuncs["json.dumps"] = lambda I, a, k: SStr(I.ctx.fresh_str("json"))
    with_schema = c.flip("schema-given")
    schema = SObj("Schema", {"schema_id": SInt(c.fresh_int("schema_id")), "fields": PList([PDict({"id": 1, "name": "a", "type": "long"})])}, label="schema") if with_schema else None
    spec = SObj("PartitionSpec", {"spec_id": 0, "fields": PList([])}, label="spec") if c.flip("spec-given") else None
    calls, outcome = [], []

    def init(I, fv, args, kwargs):
        calls.append(args[-1])
        k = I.ctx.choose(3, "initialize-outcome")
        outcome.append(k)
        if k == 1:
            raise PyRaise(SExc("TableExistsError", origin="lost the race / table exists", fields={"exists": True}))
        if k == 2:
            raise PyRaise(SExc("OSError", origin="storage fault", fields={"fault": True}))
        return args[-1]
    h.reg.contracts[f"{MM}:MetadataManager.initialize_table"] = init
    out, val = h.run(f"{TX}:Table._initialize_table", [t, schema, spec])
    h.ensure("ADOPT:exactly-one-initialize_table-call", len(calls) == 1)
    h.ensure("OPEN:_initialize_table-touches-storage-only-through-initialize_table", not st.events)
    if len(calls) != 1:
        return
    m = calls[0]
    ok_obj = isinstance(m, SObj) and m.cls == "TableMetadata"
    h.ensure("SCHEMA:a-TableMetadata-for-this-location", ok_obj and m.fields.get("location") is t.fields["table_path"])
    if ok_obj and with_schema:
        sch = m.fields.get("schemas")
        h.ensure("SCHEMA:the-supplied-schema-is-persisted-as-the-only-and-current-schema",
                 isinstance(sch, PList) and len(sch.items) == 1 and sch.items[0] is schema and
                 z3.is_true(z3.simplify(pyops.bool_z(pyops.py_eq(m.fields.get("current_schema_id"), schema.fields["schema_id"])))))
    if ok_obj:
        h.ensure("SCHEMA:fresh-table-has-no-snapshots", isinstance(m.fields.get("snapshots"), PList) and not m.fields["snapshots"].items)
    if out == "raise":
        h.ensure("ADOPT:only-TableExistsError-is-swallowed(other-errors-propagate)", bool(val.fields.get("fault")), detail=repr(val))
    h.ensure("ADOPT:a-storage-failure-of-the-initialisation-is-not-swallowed", (out == "raise") == (outcome == [2]))


# ----------------------------------------------------------------------------------------------- Table.__init__
def h_open(h: H):
    c = h.ctx
    st = Store(h)
    st.install(h.reg)
    create = c.flip("create_if_not_exists")
    exists = c.flip("metadata-readable")
    reads, inits = [], []
    mmo = h.obj("MetadataManager", storage=st.obj)
    h.reg.modfuncs["datashard.storage_backend.create_storage_backend"] = lambda I, a, k: st.obj
    h.reg.contracts["storage_backend:create_storage_backend"] = lambda I, fv, a, k: st.obj
    for cls in ("MetadataManager", "SnapshotManager", "FileManager", "TransactionManager"):
        h.reg.class_ctor[cls] = (lambda cls_: (lambda I, cv, a, k: mmo if cls_ == "MetadataManager" else SObj(cls_, {}, label=cls_)))(cls)

    def refresh(I, fv, args, kwargs):
        reads.append(1)
        return SObj("TableMetadata", {}, label="existing") if exists else None
    h.reg.contracts[f"{MM}:MetadataManager.refresh"] = refresh

    def init(I, fv, args, kwargs):
        inits.append(args[1:])
        return None
    h.reg.contracts[f"{TX}:Table._initialize_table"] = init
    schema = SObj("Schema", {"schema_id": 1, "fields": PList([])}, label="schema") if c.flip("schema-given") else None
    t = SObj("Table", {}, label="table")
    out, val = h.run(f"{TX}:Table.__init__", [t, h.str("table_path")], {"create_if_not_exists": create, "schema": schema})
    h.ensure("OPEN:constructor-does-not-raise-by-itself", out == "ok", detail=repr(val) if out != "ok" else "")
    h.ensure("OPEN:initialises-iff-asked-to-create-and-no-metadata-was-readable", len(inits) == (1 if (create and not exists) else 0))
    h.ensure("OPEN:opening-never-writes-by-itself", not st.events)
    if inits:
        h.ensure("SCHEMA:the-caller's-schema-is-what-gets-initialised", inits[0][0] is schema)
    if not create:
        h.ensure("OPEN:plain-open-performs-no-initialisation", not inits)


# ----------------------------------------------------------------------------------------------- _resolve_table_schema
def h_resolve_schema(h: H):
    c = h.ctx
    st = Store(h)
    st.install(h.reg)
    tx = cp.tx_object(h, st)
    cur = h.int("current_schema_id")
    w_id, w_nonempty, w_in = z3.Int("witness_schema_id"), z3.Bool("witness_schema_has_fields"), z3.Bool("witness_schema_listed")
    for n, t_ in (("witness_schema_id", w_id), ("witness_schema_has_fields", w_nonempty), ("witness_schema_listed", w_in)):
        h.report(n, t_)
    wit = SObj("Schema", {"schema_id": SInt(w_id), "fields": TheoryObj("symiter", fields={"mk": lambda I: PDict({}), "nonempty": w_nonempty})}, label="witness-schema")

    def mk(I):
        if I.ctx.flip("is-witness"):
            I.ctx.assume(w_in)
            return wit
        ne = I.ctx.fresh_bool("has_fields")
        return SObj("Schema", {"schema_id": SInt(I.ctx.fresh_int("sid")), "fields": TheoryObj("symiter", fields={"mk": lambda I2: PDict({}), "nonempty": ne})}, label="some-schema")
    schemas = TheoryObj("symiter", fields={"mk": mk, "witnesses": [(wit, w_in)]})
    none_md = c.flip("no-metadata")
    h.reg.contracts[f"{MM}:MetadataManager.refresh"] = lambda I, fv, a, k: None if none_md else SObj("TableMetadata", {"schemas": schemas, "current_schema_id": cur}, label="md")
    seen = {"cur": z3.BoolVal(False), "any": z3.BoolVal(False)}

    def nonempty_of(s):
        f = s.fields["fields"]
        return f.fields["nonempty"]

    def mk_inv(which):
        def inv(I, env, it):
            if it.get("after_body") and it.get("elem") is wit:
                seen[which] = z3.BoolVal(True)
            # reaching the next iteration means no visited schema matched
            cond = z3.And(w_id == cur.z, w_nonempty) if which == "cur" else w_nonempty
            return [(f"SCHEMA:inv:{which}:visited-witness-did-not-qualify", z3.Implies(seen[which], z3.Not(cond)))]
        return inv

    def mk_havoc(which):
        def havoc(I, env, it):
            seen[which] = I.ctx.fresh_bool(f"seen_{which}")
        return havoc

    def mk_exit(which):
        def on_exit(I, env, it):
            I.ctx.assume(z3.Implies(w_in, seen[which]), "rule ALL-VISITED")
        return on_exit
    h.reg.loops[f"{TX}:Transaction._resolve_table_schema"] = {
        0: LoopSpec(invariant=mk_inv("cur"), havoc=mk_havoc("cur"), on_exit=mk_exit("cur"), name="current", skip=["s"]),
        1: LoopSpec(invariant=mk_inv("any"), havoc=mk_havoc("any"), on_exit=mk_exit("any"), name="fallback", skip=["s"])}
    out, val = h.run(f"{TX}:Transaction._resolve_table_schema", [tx])
    h.ensure("SCHEMA:resolve-never-raises", out == "ok", detail=repr(val) if out != "ok" else "")
    if out != "ok":
        return
    if val is None:
        h.ensure("SCHEMA:None-only-when-no-persisted-schema-has-fields", z3.BoolVal(True) if none_md else z3.Not(z3.And(w_in, w_nonempty)))
    else:
        h.ensure("SCHEMA:result-is-a-persisted-schema-with-fields", isinstance(val, SObj) and val.cls == "Schema" and not none_md)
        if isinstance(val, SObj):
            h.ensure("SCHEMA:result-has-fields", nonempty_of(val))
            # if the current non-empty schema is listed, a schema with the current id is returned
            h.ensure("SCHEMA:the-current-schema-wins-over-the-fallback",
                     z3.Implies(z3.And(w_in, w_nonempty, w_id == cur.z), pyops.int_z(val.fields["schema_id"]) == cur.z))


def _replay_create(ob):
    return '''
import sys, os, tempfile, shutil, threading
from datashard import create_table, load_table
from datashard.data_structures import Schema
bad = []
root = tempfile.mkdtemp(prefix="pyvc_replay_")
s1 = Schema(schema_id=7, fields=[{"id": 1, "name": "a", "type": "long", "required": False}])
s2 = Schema(schema_id=9, fields=[{"id": 1, "name": "b", "type": "string", "required": False}])
try:
    p = os.path.join(root, "t")
    t = create_table(p, schema=s1); t.append_records([{"a": 1}])
    uuid0 = t.metadata_manager.refresh().table_uuid
    # re-creating (other schema), opening, and re-creating after the pointer is lost never replace identity, schema or data
    for step in ("again", "pointer-lost", "pointer-garbage"):
        if step == "pointer-lost": os.remove(os.path.join(p, "metadata.version-hint.text"))
        if step == "pointer-garbage": open(os.path.join(p, "metadata.version-hint.text"), "w").write("garbage")
        u = create_table(p, schema=s2)
        m = u.metadata_manager.refresh()
        if m.table_uuid != uuid0: bad.append((step, "identity replaced"))
        if [f["name"] for f in u._get_current_schema().fields] != ["a"]: bad.append((step, "schema replaced"))
        if sorted(r["a"] for r in u.scan()) != [1]: bad.append((step, "data lost"))
    # racing creators: all end up on one table
    q = os.path.join(root, "race"); res = []
    def worker(i):
        try:
            tt = create_table(q, schema=s1); res.append(tt.metadata_manager.refresh().table_uuid)
        except Exception as e: res.append(repr(e)[:80])
    th = [threading.Thread(target=worker, args=(i,)) for i in range(6)]
    [x.start() for x in th]; [x.join() for x in th]
    if len(set(res)) != 1: bad.append(("racing creators saw different tables", sorted(set(res))[:3]))
    # schema-less appends use the persisted schema; without any schema they raise and write nothing
    v = create_table(os.path.join(root, "noschema"))
    before = sorted(os.listdir(os.path.join(root, "noschema", "data"))) if os.path.isdir(os.path.join(root, "noschema", "data")) else []
    try:
        v.append_records([{"a": 1}]); bad.append("append without any schema did not raise")
    except ValueError: pass
    after = sorted(os.listdir(os.path.join(root, "noschema", "data"))) if os.path.isdir(os.path.join(root, "noschema", "data")) else []
    if before != after: bad.append("rejected schema-less append left files")
    try: load_table(os.path.join(root, "absent")); bad.append("load_table created/accepted an absent table")
    except ValueError: pass
    if os.path.exists(os.path.join(root, "absent", "metadata.version-hint.text")): bad.append("load_table initialised a table")
finally:
    shutil.rmtree(root, ignore_errors=True)
print("replay create/open ->", bad[:4] or "ok")
sys.exit(1 if bad else 0)
'''


register(Unit(P, "ADOPT/Table._initialize_table", h_initialize, functions=[f"{TX}:Table._initialize_table"], replay=_replay_create))
register(Unit(P, "OPEN/Table.__init__", h_open, functions=[f"{TX}:Table.__init__"], replay=_replay_create))
register(Unit(P, "SCHEMA/_resolve_table_schema", h_resolve_schema, functions=[f"{TX}:Transaction._resolve_table_schema"], replay=_replay_create))
register(Unit(P, "SCHEMA/append_data", cp.h_append_data, functions=[f"{TX}:Transaction.append_data"], replay=_replay_create))
for _cas in (False, True):
    register(Unit(P, f"INIT-ONCE/initialize_table-{'cas' if _cas else 'local'}", c10.h_initialize_table(_cas),
                  functions=[f"{MM}:MetadataManager.initialize_table"], replay=_replay_create))

from contracts import lemmas as _L  # noqa: E402
register(Unit(P, "LEMMA/ONE-INIT", _L.h_one_init, functions=[], replay=_replay_create, uses=_L.ONE_INIT_USES))

from contracts import helpers as _HLP  # noqa: E402
_HLP.register_under("C18", ["HELPER/metadata-file-io"])
