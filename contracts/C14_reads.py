"""C14 - reads fail closed.  Harnesses in readpath.py: PROPAGATE (every fault / parser raise on the read path surfaces),
NOT-EMPTY ([] only for an empty table; dangling id, missing list or manifest raise), ALL-FILES (every file of the listing is
read or the call raises), CHECKSUM (rows parsed from the very bytes whose SHA-256 was compared; default ON)."""
from contracts import readpath as rp
from pyvc.runner import Unit, register

P = "C14"
META = dict(rp.META)
for n, hf, fs in rp.FAULT_UNITS + rp.GADF_UNITS_SEQ + rp.READ_UNITS:
    register(Unit(P, n, hf, functions=fs, replay=rp._replay_gadf if "get_all" in n or "row_count" in n else rp._replay_reads))
for n, hf, fs in rp.REFRESH_UNITS:
    register(Unit(P, n, hf, functions=fs, replay=rp._replay_refresh))


# =================================================================================== the Avro-then-JSON fallback of the manifest readers
import z3  # noqa: E402
from pyvc.runner import H  # noqa: E402
def h_reader_fallback(which: str):
    """FileManager.read_manifest_file / read_manifest_list_file themselves (applied elsewhere at the contract 'return the entries
    or raise'): a normal return means either the Avro reader delivered EVERY record without raising, or the bytes are a legacy JSON
    document that really carries the entry list.  Anything else raises - in particular a file that fails Avro parsing and is JSON
    of another shape (an object without the list) is NOT an empty manifest."""
    fn = "read_manifest_file" if which == "manifest" else "read_manifest_list_file"
    key = "files" if which == "manifest" else "manifests"

    def harness(h: H):
        from pyvc.theories.store import Store
        from pyvc.values import PDict, PList, SBytes, SExc, SInt, SObj, SOpt, SStr, TheoryObj
        from pyvc.engine import PyRaise, LoopSpec
        from pyvc import acc as _acc
        c = h.ctx
        st = Store(h)
        st.install(h.reg)
        _acc.install(h.reg)
        fm = h.obj("FileManager", storage=st.obj, manifests_path="metadata/manifests")
        p = h.str("path")
        g = {"avro": None, "json": None, "haskey": None, "avro_complete": False}
        h.reg.theory_methods[("storage", "open_file")] = lambda I, o, a, k: TheoryObj("stream")
        h.reg.theory_methods[("stream", "__enter__")] = lambda I, o, a, k: o
        h.reg.theory_methods[("stream", "__exit__")] = lambda I, o, a, k: None
        AVRO_ERR = ["ValueError", "IndexError", "StopIteration", "OSError", "KeyError"]

        def avro_reader(I, a, k):
            mode = I.ctx.choose(3, "avro")          # 0 parses completely, 1 header invalid, 2 fails after some records
            g["avro"] = mode
            if mode == 1:
                raise PyRaise(SExc(AVRO_ERR[I.ctx.choose(4, "avro-exc")], origin="fastavro: not an avro file", fields={"damage": True}))

            def mk(I2):
                if mode == 2 and I2.ctx.flip("record-unreadable"):
                    raise PyRaise(SExc(AVRO_ERR[I2.ctx.choose(4, "avro-exc")], origin="fastavro: truncated block", fields={"damage": True}))
                return TheoryObj("symdict", label="record")
            it = TheoryObj("symiter", fields={"mk": mk})
            return it
        h.reg.modfuncs["fastavro.reader"] = avro_reader

        def json_loads(I, a, k):
            mode = I.ctx.choose(2, "json")           # 0 not JSON, 1 a JSON document
            g["json"] = mode
            if mode == 0:
                raise PyRaise(SExc("ValueError", origin="json: no JSON", fields={"damage": True}))
            return TheoryObj("jsondoc")
        h.reg.modfuncs["json.loads"] = json_loads

        def doc_get(I, o, a, k):
            g["haskey"] = I.ctx.flip("document-has-the-entry-list")
            if g["haskey"]:
                return TheoryObj("symiter", fields={"mk": lambda I2: TheoryObj("symdict", label="entry")})
            if len(a) > 1:
                return a[1]
            return None

        def doc_index(I, o, a, k):
            g["haskey"] = I.ctx.flip("document-has-the-entry-list")
            if g["haskey"]:
                return TheoryObj("symiter", fields={"mk": lambda I2: TheoryObj("symdict", label="entry")})
            raise PyRaise(SExc("KeyError", origin="json document lacks the key", fields={"damage": True}))
        h.reg.theory_methods[("jsondoc", "get")] = doc_get
        h.reg.theory_methods[("jsondoc", "__getitem__")] = doc_index
        h.reg.theory_methods[("symdict", "__getitem__")] = lambda I, o, a, k: TheoryObj("symdict", label="nested")
        _get0 = h.reg.theory_methods[("symdict", "get")]
        STATS = ("lower_bounds", "upper_bounds", "column_sizes", "value_counts", "null_value_counts")
        h.reg.theory_methods[("symdict", "get")] = lambda I, o, a, k: None if I.force(a[0]) in STATS else _get0(I, o, a, k)
        h.reg.class_ctor["DataFile"] = lambda I, cv, a, k: SObj("DataFile", dict(k))
        h.reg.class_ctor["ManifestFile"] = lambda I, cv, a, k: SObj("ManifestFile", dict(k))
        h.reg.class_ctor["FileFormat"] = lambda I, cv, a, k: "parquet"
        h.reg.class_ctor["ManifestContent"] = lambda I, cv, a, k: 0
        done = {"avro_loop_exit": False}

        def on_exit(I, env, it):
            done["avro_loop_exit"] = True
        acc1, acc2 = _acc.new_acc("avro_entries"), _acc.new_acc("json_entries")
        which_list = "data_files" if which == "manifest" else "manifest_files"
        h.reg.loops[f"file_manager:FileManager.{fn}"] = {
            "iter:reader": LoopSpec(invariant=lambda I, e, it: [], havoc=lambda I, e, it: e.vars.__setitem__(which_list, acc1), on_exit=on_exit, name="avro",
                                    skip=[which_list, "record", "record_raw", "df_record", "lower_bounds", "upper_bounds", "column_sizes", "value_counts", "null_value_counts", "data_file", "manifest_file"]),
            "*": LoopSpec(invariant=lambda I, e, it: [], havoc=lambda I, e, it: e.vars.__setitem__(which_list, acc2), name="json",
                          skip=[which_list, "file_entry", "manifest_entry", "data_file", "manifest_file"])}
        h.assume(z3.Select(st.ex, st.key(h.I, p)))
        expected = SOpt(c.fresh_bool("expected_count_not_given"), SInt(c.fresh_int("expected_count")))
        out, val = h.run(f"file_manager:FileManager.{fn}", [fm, p], {("expected_entries" if which == "manifest" else "expected_manifests"): expected})
        if out == "ok":
            got = val.fields.get("len_z") if isinstance(val, TheoryObj) and val.theory == "acc" else None
            h.ensure("COUNT-CHECK:normal-return=>the-file-holds-exactly-the-number-of-entries-recorded-for-it(when-one-was-recorded)",
                     z3.Or(expected.isnone, got == expected.val.z) if got is not None else z3.BoolVal(False),
                     detail="an Avro file cut at a block boundary (down to the bare header) still parses: only the recorded count reveals it")
        if out == "ok":
            via_avro = g["avro"] == 0 or (g["avro"] == 2 and done["avro_loop_exit"] and g["json"] is None)
            h.ensure("FALLBACK:normal-return=>avro-read-to-the-end-or-a-JSON-document-that-carries-the-entry-list",
                     bool(via_avro) or (g["json"] == 1 and g["haskey"] is True),
                     detail=f"avro={g['avro']} json={g['json']} has-list={g['haskey']}: bytes that are neither a readable Avro file nor a legacy JSON "
                            f"manifest were reported as an EMPTY {which}")
        else:
            h.ensure("FALLBACK:a-completely-readable-avro-file-raises-only-for-a-count-mismatch",
                     z3.Or(z3.BoolVal(g["avro"] != 0), z3.And(z3.Not(expected.isnone), z3.BoolVal(val.cls == "ValueError"))), detail=repr(val))
    return harness


def _replay_fallback(ob):
    return '''
import sys, os, tempfile, shutil, glob
from datashard import create_table, load_table
from datashard.data_structures import Schema
bad = []
root = tempfile.mkdtemp(prefix="pyvc_replay_")
try:
    for target in ("manifest_list", "manifest"):
        for junk in (b"{}", b"[]", b"null", b'{"other": 1}', b"", b"Obj\\x01garbage"):
            p = os.path.join(root, f"{target}_{abs(hash(junk))}")
            t = create_table(p, schema=Schema(schema_id=1, fields=[{"id": 1, "name": "a", "type": "long", "required": False}]))
            t.append_records([{"a": 1}])
            files = glob.glob(os.path.join(p, "metadata", "manifests", "manifest_list_*.avro" if target == "manifest_list" else "manifest_[0-9]*.avro"))
            if not files: bad.append(("no file to damage", target)); continue
            open(files[0], "wb").write(junk)
            for api in ("scan", "row_count"):
                try:
                    r = load_table(p).scan() if api == "scan" else load_table(p).row_count()
                    bad.append((target, junk, api, "returned", r if api == "row_count" else len(r)))
                except Exception:
                    pass
    # truncation at Avro structural boundaries (header end, block ends): parseable prefixes
    import io, fastavro, time
    def boundaries(path):
        data = open(path, "rb").read(); fo = io.BytesIO(data); r = fastavro.block_reader(fo); offs = [fo.tell()]
        for _b in r: offs.append(fo.tell())
        return data, offs
    for target in ("manifest_list", "manifest"):
        p = os.path.join(root, "cut_" + target)
        t = create_table(p, schema=Schema(schema_id=1, fields=[{"id": 1, "name": "a", "type": "long", "required": False}]))
        with t.new_transaction() as tx:
            tx.append_data([{"a": 1}]); tx.append_data([{"a": 2}]); tx.commit()
        t.append_records([{"a": 3}])
        cur = load_table(p).metadata_manager.refresh()
        if target == "manifest_list":
            f = os.path.join(p, cur.snapshots[-1].manifest_list.lstrip("/"))
        else:
            f = sorted(glob.glob(os.path.join(p, "metadata", "manifests", "manifest_[0-9]*.avro")), key=os.path.getmtime)[0]
        data, offs = boundaries(f)
        for cut in offs[:-1]:
            open(f, "wb").write(data[:cut])
            try:
                rows = sorted(r["a"] for r in load_table(p).scan())
                if rows != [1, 2, 3]: bad.append((target, "cut at byte", cut, "scan returned", rows))
            except Exception:
                pass
            old = time.time() - 7200
            for d, _s, fs in os.walk(p):
                for x in fs: os.utime(os.path.join(d, x), (old, old))
            before = set(os.listdir(os.path.join(p, "data")))
            try: load_table(p).garbage_collect(grace_period_ms=1000)
            except Exception: pass
            if set(os.listdir(os.path.join(p, "data"))) != before: bad.append((target, "cut at byte", cut, "a collection deleted data files of the damaged table"))
        open(f, "wb").write(data)
finally:
    shutil.rmtree(root, ignore_errors=True)
print("replay manifest reader fallback ->", bad[:4] or "ok")
sys.exit(1 if bad else 0)
'''


for _w in ("manifest", "list"):
    register(Unit(P, f"FALLBACK/read_manifest_{'file' if _w == 'manifest' else 'list_file'}", h_reader_fallback(_w),
                  functions=[f"file_manager:FileManager.read_manifest_{'file' if _w == 'manifest' else 'list_file'}"], replay=_replay_fallback))

from contracts import helpers as _HLP  # noqa: E402
_HLP.register_under("C14", ["HELPER/verify_checksum", "HELPER/compute_checksum", "HELPER/_get_current_schema", "HELPER/metadata-file-io"])

# what the read path trusts about the writers: entries carry every field the schema knows (a key outside the schema is silently
# dropped by fastavro - e.g. the checksum - and verification would silently turn off)
from contracts import commitpath as _cpw  # noqa: E402
register(Unit(P, "CODEC-KEYS/create_manifest_file-entries", _cpw.h_manifest_entries, functions=["file_manager:FileManager.create_manifest_file"], replay=_replay_fallback))
register(Unit(P, "CODEC-KEYS/read_manifest_file-entries", _cpw.h_manifest_read_entries, functions=["file_manager:FileManager.read_manifest_file"], replay=_replay_fallback))
register(Unit(P, "CODEC-KEYS/create_manifest_list_file-entries", _cpw.h_manifest_list_entries, functions=["file_manager:FileManager.create_manifest_list_file"], replay=_replay_fallback))

from contracts import helpers as _HC  # noqa: E402
_HC.register_under("C14", ["COUNT/recorded_manifest_count", "COUNT/expected_entry_count", "COUNT/_check_count"])


# what the read path verifies against (checksum, row count, size) has to survive manifest rewrites: the DELETE-EXACT / CARRY unit of C15
from contracts import commitpath as _cp14, snapshots as _S14  # noqa: E402
register(Unit(P, "CHECKSUM-CARRY/_commit_file_ops", _cp14.h_commit_file_ops("both"), functions=[f"{_cp14.TX}:Transaction._commit_file_ops"], replay=_S14._replay_carry))
