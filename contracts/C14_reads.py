"""C14 - reads fail closed.  Harnesses in readpath.py: PROPAGATE (every fault / parser raise on the read path surfaces),
NOT-EMPTY ([] only for an empty table; dangling id, missing list or manifest raise), ALL-FILES (every file of the listing is
read or the call raises), CHECKSUM (rows parsed from the very bytes whose SHA-256 was compared; default ON)."""
from contracts import readpath as rp
from pyvc.runner import Unit, register

P = "C14"
META = dict(rp.META)
for n, hf, fs in rp.FAULT_UNITS + rp.GADF_UNITS_SEQ + rp.READ_UNITS:
    register(Unit(P, n, hf, functions=fs, replay=rp._replay_gadf if "get_all" in n or "row_count" in n else rp._replay_reads))
for n, hf, fs in rp.REFRESH_UNITS:
    register(Unit(P, n, hf, functions=fs, replay=rp._replay_refresh))
