"""C11 - accepted appends are exact; rejected ones leave no trace; scans keep working.

What a contract can decide here is the part in front of Arrow: which schema arguments are ACCEPTED, which Arrow schema a file is
written with, and that a rejected append leaves nothing.  The value-level part ("every row comes back exactly as supplied up to
the column type's representation") is pyarrow's coercion semantics (T-arrow) and is only sampled by the bounded scenario.

  SIG           _schema_signature: one entry per field, IN FIELD ORDER, carrying field id, name, type and nullability
  ACCEPT-EQUIV  _validate_schema_against_table: with a persisted schema, an argument is accepted iff its signature equals the
                table's (so accepted => same fields, order, ids, types, nullability => files concatenate and prune correctly)
  CACHE         create_arrow_schema: the Arrow schema returned for a Schema object is built from THAT object's fields; a cached
                schema is only returned for an argument whose fields are equal to those it was built from
  FILE-SCHEMA   _validate_file_schema: a parquet file is accepted only if its footer schema equals the table's Arrow schema;
                an unreadable footer rejects
  REJECT-CLEAN  append_data: a rejected append queues nothing, and touches storage only after the marker (C06 unit re-run)
"""
from __future__ import annotations

import z3

from contracts import commitpath as cp
from pyvc import acc as _acc
from pyvc import pyops
from pyvc.engine import LoopSpec, PyRaise
from pyvc.runner import H, Unit, register
from pyvc.theories import misc
from pyvc.theories.store import Store
from pyvc.values import EnumVal, PDict, PList, PSet, SBool, SExc, SInt, SObj, SOpaque, SOpt, SStr, TheoryObj, usort

P = "C11"
TX = "transaction"
DO = "data_operations"
META = dict(cp.META)
META["trusted"] = list(META["trusted"]) + [
    "T-arrow: Table.from_pylist / ParquetWriter raise on values the column type cannot represent and otherwise store them exactly "
    "up to the type's representation; Schema.equals compares names, order, types and nullability (sampled by the bounded scenario, "
    "not proved)",
    "json.dumps of a field list is an injective function of the list (used as part of the Arrow-schema cache key)",
    "validate_records_strict (unknown / missing-required fields) is covered by the bounded scenario only"]
META["bounded"] = ["value classes x column types (boundary ints, fractional floats into integer columns, NaN/inf, unicode, None in "
                   "required/optional fields, wrong Python types) and schema-argument variants: thorough-tier scenario on the real code"]
INT = z3.IntSort()


def sym_fields(h_or_I, label, token):
    """schema.fields: a list of unknown length of field dicts; `token` identifies the list's content"""
    cur = {}

    def mk(I2):
        c = I2.ctx
        f = PDict({"id": SInt(c.fresh_int(f"{label}_field_id")), "name": SStr(c.fresh_str(f"{label}_field_name")),
                   "type": SStr(c.fresh_str(f"{label}_field_type")), "required": SBool(c.fresh_bool(f"{label}_field_required"))})
        cur["f"] = f
        return f
    return TheoryObj("symiter", label=label, fields={"mk": mk, "token": token, "cur": cur})


# ----------------------------------------------------------------------------------------------- _schema_signature
def h_signature(h: H):
    c = h.ctx
    _acc.install(h.reg)
    fields = sym_fields(h, "schema", z3.Int("fields_token"))
    schema = SObj("Schema", {"schema_id": SInt(c.fresh_int("schema_id")), "fields": fields}, label="schema")
    sig = _acc.new_acc("sig")
    kind = {}

    def inv(I, env, it):
        if not it.get("after_body"):
            return []
        f = it["elem"]
        adds = sig.fields["added"]
        res = [("SIG:exactly-one-entry-per-field", z3.BoolVal(len(adds) == 1))]
        if len(adds) != 1:
            return res
        e = adds[0]
        comps = list(e) if isinstance(e, tuple) else []

        def has(v):
            return any(x is v for x in comps)
        res.append(("SIG:entry-carries-the-field-name", z3.BoolVal(has(f.d["name"]))))
        res.append(("SIG:entry-carries-the-field-type", z3.BoolVal(has(f.d["type"]))))
        res.append(("SIG:entry-carries-the-field-id(bounds-and-pruning-are-keyed-by-id)", z3.BoolVal(has(f.d["id"])),))
        req = [x for x in comps if isinstance(x, (SBool, bool))]
        res.append(("SIG:entry-carries-the-nullability",
                    (pyops.bool_z(pyops.truth(req[0])) == f.d["required"].z) if len(req) == 1 else z3.BoolVal(False)))
        return res

    def havoc(I, env, it):
        ok, old = env.lookup("sig")
        kind["sig"] = type(old).__name__
        env.vars["sig"] = sig
        _acc.reset(sig)
    h.reg.loops[f"{TX}:Transaction._schema_signature"] = {"*": LoopSpec(invariant=inv, havoc=havoc, name="fields", skip=["sig", "f", "f_type", "type_key"])}
    h.reg.modfuncs["json.dumps"] = lambda I, a, k: SStr(I.ctx.fresh_str("json"))
    out, val = h.run(f"{TX}:Transaction._schema_signature", [schema])
    h.ensure("SIG:never-raises-on-a-validated-schema", out == "ok", detail=repr(val) if out != "ok" else "")
    if out != "ok":
        return
    h.ensure("SIG:signature-keeps-the-field-ORDER(a-sequence,not-a-set)", kind.get("sig") in ("PList", "tuple"),
             detail=f"the accumulator is a {kind.get('sig')}: reordered fields would compare equal, yet parquet files written with the reordered "
                    f"schema do not concatenate with the table's")
    h.ensure("SIG:returns-the-accumulated-entries", val is sig or (isinstance(val, tuple) and len(val) == 0))


# ----------------------------------------------------------------------------------------------- _validate_schema_against_table
def h_validate(h: H):
    c = h.ctx
    st = Store(h)
    st.install(h.reg)
    tx = cp.tx_object(h, st)
    arg = SObj("Schema", {"schema_id": SInt(c.fresh_int("arg_schema_id")), "fields": PList([])}, label="argument-schema")
    tab = SObj("Schema", {"schema_id": SInt(c.fresh_int("table_schema_id")), "fields": PList([])}, label="table-schema")
    no_table = c.flip("table-has-no-persisted-schema")
    h.reg.contracts[f"{TX}:Transaction._resolve_table_schema"] = lambda I, fv, a, k: None if no_table else tab
    SIGF = z3.Function("signature_of", INT, z3.DeclareSort("pyobject") if False else usort("pyobject"))
    tok = {id(arg): z3.Int("argument_fields"), id(tab): z3.Int("table_fields")}
    seen = []

    def signature(I, fv, args, kwargs):
        s = args[-1]
        seen.append(s)
        return SOpaque("pyobject", SIGF(tok[id(s)]))
    h.reg.contracts[f"{TX}:Transaction._schema_signature"] = signature
    out, val = h.run(f"{TX}:Transaction._validate_schema_against_table", [tx, arg])
    same = SIGF(tok[id(arg)]) == SIGF(tok[id(tab)])
    if no_table:
        if out == "ok":
            h.ensure("ACCEPT-EQUIV:every-accepted-schema-argument-was-compared-with-the-schema-the-table's-files-were-written-with",
                     z3.BoolVal(False), classes=[("table-without-persisted-schema", z3.BoolVal(True))],
                     detail="a table created without a schema accepts ANY schema argument on every append")
        return
    if out == "ok":
        h.ensure("ACCEPT-EQUIV:accepted=>signature-equals-the-persisted-schema's", same)
        h.ensure("ACCEPT-EQUIV:compares-the-argument-with-the-persisted-schema", len(seen) == 2 and {id(x) for x in seen} == {id(arg), id(tab)})
    else:
        h.ensure("ACCEPT-EQUIV:rejected-with-ValueError-only-when-the-signatures-differ", z3.And(z3.BoolVal(val.cls == "ValueError"), z3.Not(same)))
    h.ensure("ACCEPT-EQUIV:validation-touches-no-storage", not st.events)


# ----------------------------------------------------------------------------------------------- create_arrow_schema
def h_arrow_cache(h: H):
    c = h.ctx
    _acc.install(h.reg)
    tx_, ty_ = z3.Int("first_schema_fields"), z3.Int("second_schema_fields")
    JSF = z3.Function("json_of_fields", INT, z3.StringSort())
    c.assume(z3.Implies(JSF(tx_) == JSF(ty_), tx_ == ty_), "json.dumps is injective on field lists")

    def mk_schema(label, token):
        fl = sym_fields(h, label, token)
        return SObj("Schema", {"schema_id": SInt(c.fresh_int(f"{label}_schema_id")), "fields": fl, "schema_string": SStr(JSF(token))}, label=label)
    X, Y = mk_schema("first", tx_), mk_schema("second", ty_)
    dfm = SObj("DataFileManager", {"_arrow_schema_cache": PDict({})}, label="dfm")
    fields_acc = _acc.new_acc("fields")
    built = []

    def json_dumps(I, a, k):
        v = I.force(a[0])
        if isinstance(v, TheoryObj) and v.theory == "symiter" and "token" in v.fields:
            return SStr(JSF(v.fields["token"]))
        return SStr(I.ctx.fresh_str("json"))
    h.reg.modfuncs["json.dumps"] = json_dumps
    h.reg.modfuncs["pyarrow.field"] = lambda I, a, k: ("arrowfield", a[0], a[1], k.get("nullable"))

    def pa_schema(I, a, k):
        o = TheoryObj("arrowschema", fields={"token": fields_acc.fields.get("token"), "n": len(built)})
        built.append(o)
        return o
    h.reg.modfuncs["pyarrow.schema"] = pa_schema
    h.reg.contracts[f"{DO}:DataFileManager._iceberg_type_to_arrow"] = lambda I, fv, a, k: ("arrowtype", a[-1])

    def inv(I, env, it):
        if not it.get("after_body"):
            return []
        f = it["elem"]
        adds = fields_acc.fields["added"]
        ok = len(adds) == 1 and isinstance(adds[0], tuple) and adds[0][0] == "arrowfield"
        res = [("CACHE:one-arrow-field-per-schema-field", z3.BoolVal(ok))]
        if ok:
            _t, nm, ty, nullable = adds[0]
            res.append(("CACHE:arrow-field-has-the-field's-name-and-type", z3.BoolVal(nm is f.d["name"] and isinstance(ty, tuple) and ty[1] is f.d["type"])))
            res.append(("CACHE:arrow-field-nullable-iff-not-required",
                        pyops.bool_z(pyops.truth(nullable)) == z3.Not(f.d["required"].z) if nullable is not None else z3.BoolVal(False)))
        return res

    def havoc(I, env, it):
        env.vars["fields"] = fields_acc
        _acc.reset(fields_acc)
        fields_acc.fields["token"] = it["symiter"].fields.get("token")
    h.reg.loops[f"{DO}:DataFileManager.create_arrow_schema"] = {"*": LoopSpec(invariant=inv, havoc=havoc, name="fields",
                                                                               skip=["fields", "field_dict", "field_id", "field_name", "field_type_str", "arrow_type", "is_nullable"])}
    out1, r1 = h.run(f"{DO}:DataFileManager.create_arrow_schema", [dfm, X])
    out2, r2 = h.run(f"{DO}:DataFileManager.create_arrow_schema", [dfm, Y])
    h.ensure("CACHE:never-raises", out1 == "ok" and out2 == "ok")
    if out1 != "ok" or out2 != "ok":
        return

    def tok_of(r):
        return r.fields.get("token") if isinstance(r, TheoryObj) and r.theory == "arrowschema" else None
    h.ensure("CACHE:first-call-builds-from-its-argument's-fields", tok_of(r1) is tx_)
    t2 = tok_of(r2)
    h.ensure("CACHE:the-schema-returned-for-an-argument-is-built-from-fields-equal-to-that-argument's",
             z3.BoolVal(False) if t2 is None else (t2 == ty_),
             detail="two Schema objects with the same schema_id but different fields share one cache entry")


# ----------------------------------------------------------------------------------------------- _validate_file_schema
def h_file_schema(h: H):
    c = h.ctx
    st = Store(h)
    st.install(h.reg)
    tx = cp.tx_object(h, st)
    dfm = h.obj("DataFileManager", storage=st.obj)
    tx.fields["file_manager"].fields["data_file_manager"] = dfm
    is_parquet = c.flip("parquet")
    df = SObj("DataFile", {"file_path": SStr(c.fresh_str("path")), "file_format": EnumVal("FileFormat", "PARQUET", "parquet") if is_parquet else EnumVal("FileFormat", "AVRO", "avro")}, label="file")
    tab = SObj("Schema", {"schema_id": 1, "fields": PList([])}, label="table-schema")
    expected = TheoryObj("arrowschema", fields={"who": "expected"})
    calls = []
    h.reg.contracts[f"{DO}:DataFileManager.create_arrow_schema"] = lambda I, fv, a, k: calls.append(a[-1]) or expected
    unreadable = c.flip("footer-unreadable")

    def open_src(I, fv, a, k):
        if unreadable:
            raise PyRaise(SExc("OSError", origin="cannot open", fields={"fault": True}))
        return TheoryObj("pqsrc")
    h.reg.contracts[f"{DO}:DataFileManager.open_parquet_source"] = open_src
    h.reg.theory_methods[("pqsrc", "__enter__")] = lambda I, o, a, k: o
    h.reg.theory_methods[("pqsrc", "__exit__")] = lambda I, o, a, k: None
    eq = c.fresh_bool("footer_schema_equals_table_schema")
    h.report("footer_schema_equals_table_schema", eq)
    actual = TheoryObj("arrowschema", fields={"who": "actual"})
    h.reg.modfuncs["pyarrow.parquet.ParquetFile"] = lambda I, a, k: TheoryObj("pqfile")
    h.reg.theory_attrs[("pqfile", "schema_arrow")] = lambda I, o: actual
    cmp_calls = []

    def equals(I, o, a, k):
        cmp_calls.append((o, a[0], dict(k)))
        return SBool(eq)
    h.reg.theory_methods[("arrowschema", "equals")] = equals
    out, val = h.run(f"{TX}:Transaction._validate_file_schema", [tx, df, tab])
    if not is_parquet:
        h.ensure("FILE-SCHEMA:non-parquet-files-are-not-opened", out == "ok" and not calls)
        return
    if unreadable:
        h.ensure("FILE-SCHEMA:unverifiable-footer=>ValueError", out == "raise" and val.cls == "ValueError")
        return
    h.ensure("FILE-SCHEMA:compared-against-the-Arrow-schema-of-the-persisted-table-schema", calls == [tab] and len(cmp_calls) == 1 and
             {cmp_calls[0][0].fields["who"], cmp_calls[0][1].fields["who"]} == {"expected", "actual"} if cmp_calls else False)
    h.ensure("FILE-SCHEMA:accepted-iff-the-footer-schema-equals-the-table's", z3.BoolVal(out == "ok") == eq)
    if out == "raise":
        h.ensure("FILE-SCHEMA:rejection-is-a-ValueError", val.cls == "ValueError")


# ----------------------------------------------------------------------------------------------- validate_records_strict
def h_strict(h: H):
    """BOUNDED in sizes (one schema field, one record with one key), symbolic in every value: unknown field => ValueError;
    required field missing / None => ValueError; non-integral float for an int/long column => ValueError; otherwise accepted."""
    from pyvc.values import SXReal
    c = h.ctx
    fname = SStr(c.fresh_str("field_name"))
    ftype = ["long", "int", "double", "string"][c.choose(4, "field-type")]
    req = c.flip("required")
    schema = SObj("Schema", {"schema_id": 1, "fields": PList([PDict({"id": 1, "name": fname, "type": ftype, "required": req})])}, label="schema")
    same_key = c.flip("record-key-is-the-field-name")
    key = fname if same_key else SStr(c.fresh_str("record_key"))
    if not same_key:
        h.assume(key.z != fname.z)
    kind = ["int", "float", "none", "str"][c.choose(4, "value-kind")]
    if kind == "int":
        val = SInt(c.fresh_int("value"))
    elif kind == "float":
        val = SXReal(c.fresh_bool("value_nan"), c.fresh_int("value_inf"), c.fresh("value_r", z3.RealSort()))
        h.assume(z3.And(val.inf >= -1, val.inf <= 1))
    elif kind == "none":
        val = None
    else:
        val = SStr(c.fresh_str("value"))
    rec = PDict({})
    rec.sym_items = [(key, val)]
    h.reg.methods[("float", "is_integer")] = lambda I, r, a, k: SBool(z3.And(z3.Not(r.nan), r.inf == 0, r.r == z3.ToReal(z3.ToInt(r.r)))) if isinstance(r, SXReal) else float(r).is_integer()
    dfm = SObj("DataFileManager", {}, label="dfm")
    out, res = h.run(f"{DO}:DataFileManager.validate_records_strict", [dfm, PList([rec]), schema])
    raised = out == "raise"
    if raised:
        h.ensure("STRICT:rejections-are-ValueErrors", res.cls == "ValueError", detail=repr(res))
    if not same_key:
        h.ensure("STRICT:unknown-field-is-rejected", raised)
        return
    if req and kind == "none":
        h.ensure("STRICT:None-in-a-required-field-is-rejected", raised)
        return
    if kind == "float" and ftype in ("long", "int"):
        integral = z3.And(z3.Not(val.nan), val.inf == 0, val.r == z3.ToReal(z3.ToInt(val.r)))
        h.ensure("STRICT:non-integral-float-for-an-integer-column-is-rejected", z3.Implies(z3.Not(integral), z3.BoolVal(raised)))
        h.ensure("STRICT:integral-float-for-an-integer-column-is-left-to-arrow", z3.Implies(integral, z3.BoolVal(not raised)))
        return
    h.ensure("STRICT:well-formed-record-passes-validation", not raised, detail=repr(res) if raised else "")


def h_strict_second_record(h: H):
    """BOUNDED in sizes (one integer column, two records): the check applied to a record does not depend on what EARLIER records
    of the batch looked like - a non-integral float in the second record is rejected whatever the first record holds."""
    from pyvc.values import SXReal
    c = h.ctx
    fname = SStr(c.fresh_str("field_name"))
    ftype = ["long", "int"][c.choose(2, "field-type")]
    schema = SObj("Schema", {"schema_id": 1, "fields": PList([PDict({"id": 1, "name": fname, "type": ftype, "required": False})])}, label="schema")
    k1 = ["int", "none", "missing", "float"][c.choose(4, "first-record-value")]
    r1 = PDict({})
    if k1 == "int":
        r1.sym_items = [(fname, SInt(c.fresh_int("v1")))]
    elif k1 == "none":
        r1.sym_items = [(fname, None)]
    elif k1 == "float":
        v1 = SXReal(z3.BoolVal(False), z3.IntVal(0), c.fresh("v1_r", z3.RealSort()))
        h.assume(v1.r == z3.ToReal(z3.ToInt(v1.r)))             # an integral float: accepted
        r1.sym_items = [(fname, v1)]
    else:
        r1.sym_items = []
    v2 = SXReal(c.fresh_bool("v2_nan"), c.fresh_int("v2_inf"), c.fresh("v2_r", z3.RealSort()))
    h.assume(z3.And(v2.inf >= -1, v2.inf <= 1))
    r2 = PDict({})
    r2.sym_items = [(fname, v2)]
    h.reg.methods[("float", "is_integer")] = lambda I, r, a, k: SBool(z3.And(z3.Not(r.nan), r.inf == 0, r.r == z3.ToReal(z3.ToInt(r.r)))) if isinstance(r, SXReal) else float(r).is_integer()
    dfm = SObj("DataFileManager", {}, label="dfm")
    out, res = h.run(f"{DO}:DataFileManager.validate_records_strict", [dfm, PList([r1, r2]), schema])
    integral = z3.And(z3.Not(v2.nan), v2.inf == 0, v2.r == z3.ToReal(z3.ToInt(v2.r)))
    h.ensure("STRICT:a-non-integral-float-in-a-LATER-record-is-rejected-whatever-the-first-record-holds",
             z3.Implies(z3.Not(integral), z3.BoolVal(out == "raise")), detail=f"first record: {k1}")


def _replay_c11(ob):
    fallback = ob.get("verdict") in ("undecided", "scenario")
    return f"FALLBACK = {fallback!r}\n" + '''
import sys, os, tempfile, shutil, math
from datashard import create_table, load_table
from datashard.data_structures import Schema
bad = []
root = tempfile.mkdtemp(prefix="pyvc_replay_")
def S(sid, fields): return Schema(schema_id=sid, fields=fields)
F = lambda i, n, t, r=False: {"id": i, "name": n, "type": t, "required": r}
def rows(p):
    return sorted((tuple(sorted((k, repr(v)) for k, v in r.items())) for r in load_table(p).scan()))
def snapshot_state(p):
    m = load_table(p).metadata_manager.refresh()
    return (len(m.snapshots), m.current_snapshot_id, sorted(os.listdir(os.path.join(p, "data"))) if os.path.isdir(os.path.join(p, "data")) else [])
try:
    base = [F(1, "a", "long"), F(2, "b", "string")]
    variants = {
        "identical": (base, True),
        "reordered": ([base[1], base[0]], False),
        "renumbered-ids": ([F(2, "a", "long"), F(1, "b", "string")], False),
        "other-type": ([F(1, "a", "double"), base[1]], False),
        "other-nullability": ([F(1, "a", "long", True), base[1]], False),
        "extra-field": (base + [F(3, "c", "long")], False),
        "missing-field": ([base[0]], False),
    }
    for name, (fields, should_accept) in variants.items():
        for handle in ("fresh", "reused"):
            p = os.path.join(root, f"t_{name}_{handle}")
            t = create_table(p, schema=S(1, base)); t.append_records([{"a": 1, "b": "x"}])
            u = t if handle == "reused" else load_table(p)
            before_rows, before_state = rows(p), snapshot_state(p)
            rec = {f["name"]: (2 if f["type"] in ("long",) else 2.5 if f["type"] == "double" else "y") for f in fields}
            try:
                u.append_records([rec], schema=S(1, fields)); accepted = True
            except Exception as e:
                accepted = False
            try:
                after = rows(p)
            except Exception as e:
                bad.append((name, handle, "scan fails after an ACCEPTED append" if accepted else "scan fails after a rejected append", type(e).__name__)); continue
            if not accepted:
                if after != before_rows or snapshot_state(p)[:2] != before_state[:2]: bad.append((name, handle, "rejected append left a trace"))
            else:
                if len(after) != len(before_rows) + 1: bad.append((name, handle, "accepted append: row count", len(after)))
                for col, val in rec.items():
                    try:
                        got = load_table(p).scan(filter={col: val})
                        if not any(r.get(col) == val for r in got): bad.append((name, handle, "filtered scan loses the appended row", col))
                    except Exception as e:
                        bad.append((name, handle, "filtered scan fails", col, type(e).__name__))
    # re-numbered ids on two columns of ONE type: bounds written under the other column's id -> filtered scans lose the row
    p = os.path.join(root, "swap2"); t = create_table(p, schema=S(1, [F(1, "a", "long"), F(2, "c", "long")])); t.append_records([{"a": 1, "c": 100}])
    try:
        load_table(p).append_records([{"a": 5, "c": 500}], schema=S(1, [F(2, "a", "long"), F(1, "c", "long")]))
        got = load_table(p).scan(filter={"a": 5})
        if not any(r.get("a") == 5 for r in got): bad.append(("re-numbered ids accepted: filtered scan loses the appended row", got))
    except ValueError:
        pass
    # a fractional float later in a batch whose first record holds an int / None / nothing for that column
    for first in ({"v": 7}, {"v": None}, {}):
        p = os.path.join(root, "mix%d" % len(first) + str(first.get("v"))); t = create_table(p, schema=S(1, [F(1, "v", "long")]))
        try:
            t.append_records([first, {"v": 2.75}])
            got = [r["v"] for r in load_table(p).scan()]
            if 2.75 not in got: bad.append(("fractional float after a non-float first record silently altered", first, got))
        except Exception:
            pass
    # value classes on typed columns: accepted => returned exactly; unrepresentable => rejected
    cases = [("long", 2**63 - 1, True), ("long", -2**63, True), ("long", 2**63, False), ("long", 1.5, False), ("long", "7", False),
             ("int", 2**31 - 1, True), ("int", 2**31, False), ("double", float("inf"), True), ("double", 1e308, True),
             ("string", "\\u00e9\\u4e2d\\U0001f600", True), ("string", 5, False), ("boolean", True, True), ("long", None, True)]
    for k, (typ, val, ok) in enumerate(cases):
        p = os.path.join(root, f"v{k}")
        t = create_table(p, schema=S(1, [F(1, "v", typ)]))
        try:
            t.append_records([{"v": val}]); accepted = True
        except Exception:
            accepted = False
        got = [r["v"] for r in load_table(p).scan()]
        if accepted and got != [val]: bad.append(("value silently altered", typ, repr(val), repr(got)))
        if not accepted and got: bad.append(("rejected value left rows", typ, repr(val)))
        if accepted and not ok: bad.append(("unrepresentable value accepted", typ, repr(val), repr(got)))
        if not accepted and ok: bad.append(("a value of the declared type was rejected", typ, repr(val)))
    p = os.path.join(root, "nan"); t = create_table(p, schema=S(1, [F(1, "v", "double")])); t.append_records([{"v": float("nan")}])
    g = [r["v"] for r in load_table(p).scan()]
    if not (len(g) == 1 and isinstance(g[0], float) and math.isnan(g[0])): bad.append(("NaN not returned", g))
    # one append larger than a write batch (1000 rows): the stored bounds must cover ALL rows - falsy extremes (0, 0.0, "", False)
    # in an early batch and a whole batch of NULLs in between included - or later scans mis-filter
    p = os.path.join(root, "big"); t = create_table(p, schema=S(1, [F(1, "id", "long"), F(2, "score", "long"), F(3, "s", "string")]))
    t.append_records([{"id": i, "score": (None if 1000 <= i < 2000 else i), "s": ("" if i == 0 else "k%05d" % i)} for i in range(3000)])
    for flt, want in (({"id": ("<", 10)}, 10), ({"score": ("<", 500)}, 500), ({"score": (">=", 2500)}, 500), ({"s": ""}, 1), ({"id": 0}, 1)):
        got = len(list(load_table(p).scan(filter=flt)))
        if got != want: bad.append(("multi-batch append: filter loses rows (bounds do not cover every batch)", flt, got, want))
    # required fields / unknown fields
    p = os.path.join(root, "req"); t = create_table(p, schema=S(1, [F(1, "a", "long", True), F(2, "b", "string")]))
    for rec in ({"a": None, "b": "x"}, {"b": "x"}, {"a": 1, "zzz": 2}):
        try: t.append_records([rec]); bad.append(("invalid record accepted", rec))
        except Exception: pass
    if list(load_table(p).scan()): bad.append("rejected records left rows")
    # two different schemas with one schema_id on ONE handle (Arrow-schema cache)
    p = os.path.join(root, "cache"); t = create_table(p)
    t.append_records([{"a": 1}], schema=S(1, [F(1, "a", "long")]))
    try:
        t.append_records([{"b": "x"}], schema=S(1, [F(1, "b", "string")]))
        try:
            got = [dict(r) for r in load_table(p).scan()]
            if {"b": "x"} not in got: bad.append(("row silently altered by a stale cached Arrow schema", got))
        except Exception as e:
            print("note (listed known finding, not counted): accepted append on a schema-less table makes scans fail:", type(e).__name__)
    except Exception:
        pass
finally:
    shutil.rmtree(root, ignore_errors=True)
print("replay appends ->", bad[:5] or "ok")
sys.exit(1 if bad else 0)
'''


register(Unit(P, "SIG/_schema_signature", h_signature, functions=[f"{TX}:Transaction._schema_signature"], replay=_replay_c11))
register(Unit(P, "ACCEPT-EQUIV/_validate_schema_against_table", h_validate, functions=[f"{TX}:Transaction._validate_schema_against_table"], replay=_replay_c11))
register(Unit(P, "CACHE/create_arrow_schema", h_arrow_cache, functions=[f"{DO}:DataFileManager.create_arrow_schema"], replay=_replay_c11))
# TYPEMAP: the column type a value is stored with.  Specification table written from the Iceberg spec's Arrow mapping, not from the
# code: a column declared long must hold every 64-bit value, double every binary64, string every str, ... (WRITE-EXACT relies on it)
_TYPEMAP_SPEC = {"boolean": ("bool_",), "int": ("int32",), "long": ("int64",), "float": ("float32",), "double": ("float64",),
                 "date": ("date32",), "time": ("time64", "us"), "timestamp": ("timestamp", "us"), "string": ("string",),
                 "uuid": ("string",), "binary": ("binary",), "fixed": ("binary",)}


def h_typemap(h: H):
    c = h.ctx
    for ctor in ("bool_", "int32", "int64", "float32", "float64", "date32", "time64", "timestamp", "string", "binary", "int8", "int16",
                 "uint32", "uint64", "large_string", "large_binary", "float16", "date64", "time32", "utf8"):
        h.reg.modfuncs[f"pyarrow.{ctor}"] = (lambda name: lambda I, a, k: ("arrowtype", name) + tuple(I.force(x) for x in a))(ctor)
    h.reg.modfuncs["pyarrow.list_"] = lambda I, a, k: ("arrowtype", "list_", a[0])
    dm = h.obj("DataFileManager")
    names = sorted(_TYPEMAP_SPEC)
    k = c.choose(len(names) + 2, "type-name")
    as_dict = c.flip("given-as-a-field-type-dict")
    if k < len(names):
        tname, want = names[k], ("arrowtype",) + _TYPEMAP_SPEC[names[k]]
    elif k == len(names):
        inner = names[c.choose(len(names), "element-type")]
        tname, want = f"list<{inner}>", ("arrowtype", "list_", ("arrowtype",) + _TYPEMAP_SPEC[inner])
    else:
        tname, want = h.str("unknown_type_name"), ("arrowtype", "string")
        for n in names:
            h.assume(tname.z != z3.StringVal(n))
        for pre in ("list<", "map<", "struct<"):
            h.assume(z3.Not(z3.PrefixOf(z3.StringVal(pre), tname.z)))
    arg = PDict({"type": tname}) if as_dict else tname
    out, val = h.run(f"{DO}:DataFileManager._iceberg_type_to_arrow", [dm, arg])
    h.ensure("TYPEMAP:never-raises", out == "ok", detail=repr(val) if out != "ok" else "")
    if out == "ok":
        h.ensure("TYPEMAP:each-declared-type-is-stored-in-the-Arrow-type-that-holds-all-its-values(unknown-names-as-string)",
                 val == want, detail=f"{tname!r}: got {val!r}, specification {want!r}")


register(Unit(P, "TYPEMAP/_iceberg_type_to_arrow", h_typemap, functions=[f"{DO}:DataFileManager._iceberg_type_to_arrow"], replay=_replay_c11))
register(Unit(P, "FILE-SCHEMA/_validate_file_schema", h_file_schema, functions=[f"{TX}:Transaction._validate_file_schema"], replay=_replay_c11))
register(Unit(P, "STRICT/validate_records_strict(1-field,1-record:bounded-sizes)", h_strict, functions=[f"{DO}:DataFileManager.validate_records_strict"], replay=_replay_c11,
              note="bounded: schema of one field and one single-key record; all names and values symbolic"))
register(Unit(P, "STRICT/validate_records_strict(second-record:bounded-sizes)", h_strict_second_record, functions=[f"{DO}:DataFileManager.validate_records_strict"], replay=_replay_c11,
              note="bounded: one integer column, two records"))
register(Unit(P, "REJECT-CLEAN/append_data", cp.h_append_data, functions=[f"{TX}:Transaction.append_data"], replay=_replay_c11))

# "no accepted append can make later scans mis-filter": the column bounds written with an accepted file are sound (C13 unit)
from contracts import C13_pruning as _c13  # noqa: E402
from pyvc.runner import units_of  # noqa: E402
for _u in list(units_of("C13")):
    if _u.name.startswith("BOUNDS"):
        register(Unit(P, "MISFILTER/" + _u.name, _u.harness, functions=_u.functions, replay=_replay_c11, reg_factory=_u.reg_factory or _c13.registry))


# ----------------------------------------------------------------------------------------------- write_data_file
def h_write_data_file(h: H):
    """WRITE-EXACT: write_data_file validates the records before anything is created; converts with the Arrow schema of THE
    given schema; hands the writer every record exactly once, in order (loop invariant over batches of 1000, unbounded record
    count); computes statistics from the same records; returns a DataFile for the given path whose row count is the writer's and
    whose checksum / size are taken from the file just written."""
    from pyvc.values import SSeq
    c = h.ctx
    st = Store(h)
    st.install(h.reg)
    recs = SSeq("int", c.fresh("records", z3.SeqSort(INT)))
    schema = SObj("Schema", {"schema_id": 1, "fields": PList([])}, label="schema")
    dfm = SObj("DataFileManager", {"storage": st.obj, "_pyarrow_fs": None}, label="dfm")
    fpath = h.str("file_path")
    log = []
    arrow_schema = TheoryObj("arrowschema")
    reject = c.flip("records-rejected")

    def validate(I, fv, a, k):
        log.append(("validate", a[1], a[2]))
        if reject:
            raise PyRaise(SExc("ValueError", origin="strict validation", fields={"reject": True}))
    h.reg.contracts[f"{DO}:DataFileManager.validate_records_strict"] = validate
    h.reg.contracts[f"{DO}:DataFileManager.create_arrow_schema"] = lambda I, fv, a, k: log.append(("arrow_schema", a[-1])) or arrow_schema
    apath = SStr(c.fresh_str("arrow_path"))
    h.reg.contracts[f"{DO}:DataFileManager._get_arrow_path"] = lambda I, fv, a, k: log.append(("arrow_path", a[-1])) or apath
    table = TheoryObj("arrowtable")
    h.reg.modfuncs["pyarrow.Table.from_pylist"] = lambda I, a, k: log.append(("from_pylist", a[0], k.get("schema"))) or table
    h.reg.contracts[f"{DO}:DataFileManager._compute_column_bounds"] = lambda I, fv, a, k: log.append(("bounds", a[1], a[2])) or (PDict({}), PDict({}))
    written = {"z": z3.Empty(z3.SeqSort(INT)), "open": None}
    rowcount = SInt(c.fresh_int("writer_row_count"))

    def writer_ctor(I, cv, a, k):
        log.append(("writer", a[0], a[2]))
        w = TheoryObj("writer", fields={"row_count": rowcount})
        return w
    h.reg.class_ctor["DataFileWriter"] = writer_ctor
    T = h.reg.theory_methods
    T[("writer", "__enter__")] = lambda I, o, a, k: o
    T[("writer", "__exit__")] = lambda I, o, a, k: log.append(("writer-closed",)) and None

    def write_records(I, o, a, k):
        b = a[0]
        written["z"] = z3.Concat(written["z"], b.z) if isinstance(b, SSeq) else written["z"]
        log.append(("write_records", b))
    T[("writer", "write_records")] = write_records
    h.reg.theory_attrs[("writer", "row_count")] = lambda I, o: rowcount
    h.reg.modfuncs["os.path.getsize"] = lambda I, a, k: log.append(("getsize", a[0])) or SInt(I.ctx.fresh_int("size"))
    cks = SStr(c.fresh_str("sha"))
    h.reg.contracts["integrity:IntegrityChecker.compute_file_checksum"] = lambda I, fv, a, k: log.append(("checksum", a[-1])) or cks

    def inv(I, env, it):
        i = it["i"]
        n = z3.Length(recs.z)
        upto = z3.If(i < n, i, n)
        return [("WRITE-EXACT:inv:written-so-far-is-exactly-the-first-i-records", written["z"] == z3.Extract(recs.z, 0, upto))]

    def havoc(I, env, it):
        written["z"] = I.ctx.fresh("written", z3.SeqSort(INT))
    h.reg.loops[f"{DO}:DataFileManager.write_data_file"] = {"*": LoopSpec(invariant=inv, havoc=havoc, name="batches", skip=["batch_records", "i"])}
    out, val = h.run(f"{DO}:DataFileManager.write_data_file", [dfm, fpath, recs, schema])
    names = [x[0] for x in log]
    if reject and z3.is_true(z3.simplify(z3.Length(recs.z) > 0)) is False:
        pass
    if out == "raise":
        h.ensure("WRITE-EXACT:a-rejected-batch-creates-no-writer(no-file)", bool(val.fields.get("reject")) and "writer" not in names, detail=repr(val))
        return
    h.ensure("WRITE-EXACT:records-validated-against-THE-given-schema-before-the-writer-exists",
             z3.Or(z3.Length(recs.z) == 0, z3.BoolVal("validate" in names and names.index("validate") < names.index("writer") and log[names.index("validate")][1] is recs
                                                    and log[names.index("validate")][2] is schema)) if "writer" in names else z3.BoolVal(False))
    h.ensure("WRITE-EXACT:arrow-schema-built-from-THE-given-schema-and-used-by-the-writer",
             ("arrow_schema", schema) in log and any(x[0] == "writer" and x[2] is arrow_schema and x[1] is apath for x in log) and ("arrow_path", fpath) in log)
    h.ensure("WRITE-EXACT:every-record-handed-to-the-writer-exactly-once-in-order", written["z"] == recs.z)
    fp = [x for x in log if x[0] == "from_pylist"]
    h.ensure("WRITE-EXACT:statistics-computed-from-the-same-records-and-schema",
             z3.Or(z3.Length(recs.z) == 0, z3.BoolVal(len(fp) == 1 and fp[0][1] is recs and fp[0][2] is arrow_schema and ("bounds", table, schema) in log)))
    ok = isinstance(val, SObj) and val.cls == "DataFile"
    h.ensure("WRITE-EXACT:returns-a-DataFile-for-the-given-path-with-the-writer's-row-count-and-the-written-file's-checksum",
             ok and val.fields.get("file_path") is fpath and val.fields.get("record_count") is rowcount and val.fields.get("checksum") is cks
             and ("checksum", apath) in log and ("getsize", apath) in log and names.index("writer-closed") < names.index("checksum"))


register(Unit(P, "WRITE-EXACT/write_data_file", h_write_data_file, functions=[f"{DO}:DataFileManager.write_data_file"], replay=_replay_c11))


def h_writer_write_records(h: H):
    """WRITE-EXACT (writer side): write_records opens the writer on first use, converts the batch with the WRITER'S schema, hands the
    resulting table to the parquet writer once, and adds exactly its row count; an empty batch writes nothing."""
    c = h.ctx
    opened = []
    pqw = TheoryObj("parquetwriter")
    log = []
    has_writer = c.flip("already-open")
    sch = TheoryObj("arrowschema")
    w = SObj("DataFileWriter", {"_writer": pqw if has_writer else None, "_schema": sch, "_row_count": SInt(c.fresh_int("row_count0")), "file_format": EnumVal("FileFormat", "PARQUET", "parquet")}, label="writer")
    rc0 = w.fields["_row_count"].z

    def open_(I, fv, a, k):
        opened.append(1)
        a[0].fields["_writer"] = pqw
    h.reg.contracts[f"{DO}:DataFileWriter.open"] = open_
    empty = c.flip("empty-batch")
    recs = PList([]) if empty else TheoryObj("symiter", fields={"mk": lambda I: PDict({}), "nonempty": z3.BoolVal(True)})
    table = TheoryObj("arrowtable2", fields={"__pyclass__": "pyarrow.Table"})
    cur = {}

    def mk_batch(I):
        b = TheoryObj("recordbatch", fields={"num_rows": SInt(I.ctx.fresh_int("batch_rows"))})
        cur["b"] = b
        return b
    h.reg.theory_attrs[("recordbatch", "num_rows")] = lambda I, o: o.fields["num_rows"]
    h.reg.theory_methods[("arrowtable2", "to_batches")] = lambda I, o, a, k: log.append(("to_batches",)) or TheoryObj("symiter", fields={"mk": mk_batch})
    h.reg.modfuncs["pyarrow.Table.from_pylist"] = lambda I, a, k: log.append(("from_pylist", a[0], k.get("schema"))) or table
    wb = []
    h.reg.theory_methods[("parquetwriter", "write_batch")] = lambda I, o, a, k: wb.append(a[0]) and None

    def inv(I, env, it):
        if not it.get("after_body"):
            return []
        # T-arrow: to_batches() partitions the table's rows; per batch: written once, row count grows by its rows
        return [("WRITE-EXACT:each-batch-of-the-table-is-written-exactly-once", z3.BoolVal(len(wb) == 1 and wb[0] is it["elem"])),
                ("WRITE-EXACT:row-count-grows-by-the-rows-of-the-batch-written",
                 pyops.int_z(w.fields["_row_count"]) == it["rc_before"] + it["elem"].fields["num_rows"].z)]

    def havoc(I, env, it):
        del wb[:]
        w.fields["_row_count"] = SInt(I.ctx.fresh_int("row_count"))
        it["rc_before"] = w.fields["_row_count"].z
    h.reg.loops[f"{DO}:DataFileWriter.write_batch"] = {"*": LoopSpec(invariant=inv, havoc=havoc, name="batches", skip=["record_batch"],
                                                                     on_break=lambda I, e, it: h.fail("WRITE-EXACT:every-batch-of-the-table-is-visited(no-early-exit)"))}
    out, val = h.run(f"{DO}:DataFileWriter.write_records", [w, recs])
    h.ensure("WRITE-EXACT:write_records-does-not-raise-by-itself", out == "ok", detail=repr(val) if out != "ok" else "")
    if out != "ok":
        return
    h.ensure("WRITE-EXACT:writer-opened-iff-it-was-not-open", len(opened) == (0 if has_writer else 1))
    if empty:
        h.ensure("WRITE-EXACT:empty-batch-writes-nothing", not log and w.fields["_row_count"].z is rc0)
        return
    h.ensure("WRITE-EXACT:batch-converted-with-the-writer's-schema-and-all-its-record-batches-written",
             log == [("from_pylist", recs, sch), ("to_batches",)])


register(Unit(P, "WRITE-EXACT/DataFileWriter.write_records", h_writer_write_records, functions=[f"{DO}:DataFileWriter.write_records", f"{DO}:DataFileWriter.write_batch"], replay=_replay_c11))


# ----------------------------------------------------------------------------------------------- append_files
def h_append_files(h: H):
    """FILE-SCHEMA (caller side): append_files queues the files only after EVERY one of them was found to exist and - on a table
    with a persisted schema - passed the footer schema check; a rejected call queues nothing; an inactive transaction raises."""
    c = h.ctx
    st = Store(h)
    st.install(h.reg)
    active = c.flip("transaction-active")
    tx = cp.tx_object(h, st, active=active, operations=PList([]))
    tab = SObj("Schema", {"schema_id": 1, "fields": PList([])}, label="table-schema")
    has_schema = c.flip("table-has-schema")
    h.reg.contracts[f"{TX}:Transaction._resolve_table_schema"] = lambda I, fv, a, k: tab if has_schema else None
    cur = {}

    def mk(I):
        f = SObj("DataFile", {"file_path": SStr(I.ctx.fresh_str("path"))}, label="some-file")
        cur["f"] = f
        return f
    files = TheoryObj("symiter", fields={"mk": mk})
    log = []

    def exists(I, fv, a, k):
        ok = I.ctx.flip("file-exists")
        log.append(("exists", a[-1], ok))
        return ok
    h.reg.contracts["file_manager:FileManager.validate_file_exists"] = exists

    def vfs(I, fv, a, k):
        bad = I.ctx.flip("schema-diverges")
        log.append(("schema", a[1], a[2], bad))
        if bad:
            raise PyRaise(SExc("ValueError", origin="schema mismatch", fields={"reject": True}))
    h.reg.contracts[f"{TX}:Transaction._validate_file_schema"] = vfs

    def inv(I, env, it):
        if not it.get("after_body"):
            return []
        f = it["elem"]
        mine = log[it["log0"]:]
        ex = [x for x in mine if x[0] == "exists"]
        sc = [x for x in mine if x[0] == "schema"]
        return [("FILE-SCHEMA:an-iteration-completes-only-for-an-existing-file", z3.BoolVal(len(ex) == 1 and ex[0][1] is f.fields["file_path"] and ex[0][2] is True)),
                ("FILE-SCHEMA:on-a-table-with-a-schema-every-file-is-checked-against-it",
                 z3.BoolVal((len(sc) == 1 and sc[0][1] is f and sc[0][2] is tab and sc[0][3] is False) if has_schema else len(sc) == 0))]

    def havoc(I, env, it):
        it["log0"] = len(log)
    h.reg.loops[f"{TX}:Transaction.append_files"] = {"*": LoopSpec(invariant=inv, havoc=havoc, name="files", skip=["data_file"],
                                                                   on_break=lambda I, e, it: h.fail("FILE-SCHEMA:every-file-is-visited(no-early-exit)"))}
    out, val = h.run(f"{TX}:Transaction.append_files", [tx, files])
    ops = tx.fields["_operations"].items
    if not active:
        h.ensure("FILE-SCHEMA:inactive-transaction-raises-and-queues-nothing", out == "raise" and val.cls == "RuntimeError" and not ops and not log)
        return
    if out == "raise":
        h.ensure("FILE-SCHEMA:a-rejected-call-queues-nothing", not ops)
        h.ensure("FILE-SCHEMA:rejections-are-FileNotFoundError-or-the-schema-check's-ValueError", val.cls in ("FileNotFoundError", "ValueError"), detail=repr(val))
        return
    h.ensure("FILE-SCHEMA:accepted-files-queued-exactly-once-as-given",
             len(ops) == 1 and isinstance(ops[0], PDict) and ops[0].d.get("type") == "append_files" and ops[0].d.get("files") is files and val is tx)
    h.ensure("FILE-SCHEMA:storage-untouched-by-append_files", not st.events)


register(Unit(P, "FILE-SCHEMA/append_files", h_append_files, functions=[f"{TX}:Transaction.append_files"], replay=_replay_c11))


from contracts import helpers as _HLP11
_HLP11.register_under("C11", ["HELPER/compute_file_checksum"], replay=_replay_c11)
