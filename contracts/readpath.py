"""Contracts on the read path (shared by C12 ENGINE, C14 and C02).

T-arrow table algebra (terms built while interpreting the real code, compared structurally with the specification term):
   rows(x)                      the rows parsed from parquet source x (bytes or an opened file)
   filt(E, t)   proj(C, t)      Table.filter / Table.select   (E is None -> t ; C is None -> t)
   pq.read_table(x, columns=C, filters=E) = proj(C, pushdown(E, rows(x)))       (NOT the same as Table.filter: evaluated against statistics too)
   batch(x, RC)                 one record batch of x read with columns RC;   concat(list)   pa.concat_tables
   pylist(t)                    Table.to_pylist
A parser applied to bytes that are not a parquet file raises (T-arrow); every storage action may raise (fault edges).
"""
from __future__ import annotations

import z3

from pyvc import acc as _acc
from pyvc import pyops
from pyvc.ctx import PathEnd, Unsupported
from pyvc.engine import LoopSpec, PyRaise
from pyvc.pyops import PyExc
from pyvc.runner import H, Unit, base_registry, register, set_registry_factory
from pyvc.theories import misc, pybuiltins as pb
from pyvc.theories.store import Store
from pyvc.values import (Builtin, ClassVal, EnumVal, ModuleVal, PDict, PList, SBool, SBytes, SExc, SInt, SObj, SOpt, SStr,
                         TheoryObj, to_z3)

TX = "transaction"
STR = z3.StringSort()
SHA = z3.Function("sha256", STR, STR)

META = {
    "explanation": "Every read API is proved to return project(columns, filter(E, rows(f))) for each file f of ONE listing of "
                   "the current snapshot, with the single E = to_pyarrow_compute_expression(parse_filter_dict(filter)), and to raise "
                   "whenever any storage action, manifest reader or parquet parser on its path raises.",
    "trusted": [
        "T-arrow table algebra: read_table(x, columns) = project(columns, rows(x)); read_table(filters=E) is a different evaluator than Table.filter(E); filter distributes over "
        "record batches and concat_tables; parsers raise on bytes that are not a parquet file",
        "T-hash: SHA-256 treated as injective (a changed byte string has a different digest)",
        "T-store action contracts with fault-before edges; ThreadPoolExecutor.map = order-preserving map that propagates exceptions",
        "generators: a generator function is interpreted eagerly; yielded values are recorded in order",
    ],
    "assumptions": [],
}


def registry():
    reg = base_registry()
    _acc.install(reg)
    misc.install_rlock(reg)
    return reg


for _p in ("C02", "C12", "C14"):
    set_registry_factory(_p, registry)


# ------------------------------------------------------------------------------------------ T-arrow
def t_rows(x):
    return ("rows", x)


def t_filt(e, t):
    return t if e is None else ("filter", e, t)


def t_proj(c, t):
    return t if c is None else ("project", c, t)


def same(a, b):
    """structural equality of table terms (z3 leaves compared syntactically)"""
    if isinstance(a, tuple) and isinstance(b, tuple):
        return len(a) == len(b) and all(same(x, y) for x, y in zip(a, b))
    if isinstance(a, z3.ExprRef) and isinstance(b, z3.ExprRef):
        return z3.eq(a, b)
    if isinstance(a, (SStr, SBytes)) and isinstance(b, (SStr, SBytes)):
        return z3.eq(a.z, b.z)
    return a is b or (type(a) == type(b) and not isinstance(a, (TheoryObj, SObj)) and a == b)


def atable(term):
    return TheoryObj("atable", fields={"term": term})


def arrow_theory(h: H, parse_faults=False):
    g = h.ctx.ghost.setdefault("arrow", {"parsed": [], "faults": 0})

    def maybe_parse_fault(I, what):
        if parse_faults and g["faults"] == 0 and I.ctx.flip(f"parse-fault:{what}"):
            g["faults"] += 1
            raise PyRaise(SExc("ArrowInvalid", origin=f"T-arrow: {what}: not a parquet file", fields={"fault": True}))

    def src_token(x):
        if isinstance(x, TheoryObj) and x.theory == "bytesio":
            return x.fields["data"]
        if isinstance(x, TheoryObj) and x.theory == "pqsource":
            return x
        raise Unsupported(f"parquet source {x!r}")

    def read_table(I, a, k):
        x = src_token(a[0])
        maybe_parse_fault(I, "read_table")
        g["parsed"].append(x)
        cols = k.get("columns")
        flt = k.get("filters")
        if flt is not None:
            # T-arrow (corrected): read_table(filters=E) evaluates E during the scan, ALSO against row-group statistics, which is
            # stricter about literal types than Table.filter(E) (`id IN ("3")` on a long column raises here, is answered there).
            # It is therefore NOT the engine E the other paths use: a distinct term.
            return atable(t_proj(cols, ("filter-pushed-down-into-the-parquet-scan", flt, t_rows(x))))
        return atable(t_proj(cols, t_filt(flt, t_rows(x))))

    def parquet_file(I, a, k):
        x = src_token(a[0])
        maybe_parse_fault(I, "ParquetFile")
        g["parsed"].append(x)
        return TheoryObj("parquetfile", fields={"src": x})

    def iter_batches(I, o, a, k):
        rc = k.get("columns")
        bs = k.get("batch_size")
        src = o.fields["src"]

        def mk(I2):
            maybe_parse_fault(I2, "iter_batches")
            return TheoryObj("abatch", fields={"term": ("batch", src, rc, I2.ctx.fresh_int("batchno"))})
        return TheoryObj("symiter", fields={"mk": mk, "of": src, "batch_size": bs, "read_columns": rc})

    def from_batches(I, a, k):
        items = I.iter_concrete(a[0])
        if len(items) != 1:
            raise Unsupported("from_batches of several batches")
        return atable(items[0].fields["term"])

    def concat_tables(I, a, k):
        return atable(("concat", a[0]))

    M = h.reg.modfuncs
    M["pyarrow.parquet.read_table"] = read_table
    M["pyarrow.parquet.ParquetFile"] = parquet_file
    M["pyarrow.Table.from_batches"] = from_batches
    M["pyarrow.concat_tables"] = concat_tables
    M["io.BytesIO"] = lambda I, a, k: TheoryObj("bytesio", fields={"data": a[0]})
    T = h.reg.theory_methods
    T[("parquetfile", "iter_batches")] = iter_batches
    T[("atable", "filter")] = lambda I, o, a, k: atable(t_filt(a[0], o.fields["term"]))
    T[("atable", "select")] = lambda I, o, a, k: atable(t_proj(a[0], o.fields["term"]))
    T[("atable", "to_pylist")] = lambda I, o, a, k: TheoryObj("pylist", fields={"term": ("pylist", o.fields["term"])})
    T[("atable", "to_pandas")] = lambda I, o, a, k: TheoryObj("pandasdf", fields={"term": ("pandas", o.fields["term"])})
    NONEMPTY = {}

    def num_rows(I, o):
        key = id(o)
        if key not in NONEMPTY:
            NONEMPTY[key] = I.ctx.fresh_int("num_rows")
            I.ctx.assume(NONEMPTY[key] >= 0)
        return SInt(NONEMPTY[key])
    h.reg.theory_attrs[("atable", "num_rows")] = num_rows
    T[("pqsource", "__enter__")] = lambda I, o, a, k: o
    T[("pqsource", "__exit__")] = lambda I, o, a, k: o.fields.__setitem__("closed", True)
    return g


def table_object(h: H, st: Store):
    # read APIs run many times on one long-lived handle: any field of Table the harness does not set holds whatever an earlier
    # call left there (per-handle caches!), not its constructor value
    h.reg.stale_state.add("Table")
    dfm = h.obj("DataFileManager", storage=st.obj)
    fm = h.obj("FileManager", storage=st.obj, data_file_manager=dfm)
    mm = h.obj("MetadataManager", storage=st.obj)
    return h.obj("Table", storage=st.obj, file_manager=fm, metadata_manager=mm, snapshot_manager=h.obj("SnapshotManager", metadata_manager=mm),
                 table_path=h.str("table_path"))


def install_count_contracts(h: H, g: dict):
    """COUNT-CHECK plumbing shared by the consumers of the manifest readers: the expectation functions are applied at their
    contracts (verified by units HELPER/recorded_manifest_count and HELPER/expected_entry_count); each returns one fixed optional
    integer per object, remembered so that the reader stubs can check they receive THAT value for THAT object."""
    exp = g.setdefault("exp", {})

    def mk(tag):
        def contract(I, fv, args, kwargs):
            obj = args[-1]
            k = (tag, id(obj))
            if k not in exp:
                exp[k] = SOpt(I.ctx.fresh_bool(f"{tag}_unrecorded"), SInt(I.ctx.fresh_int(f"{tag}_recorded")))
                g.setdefault("exp_objs", {})[k] = obj
            return exp[k]
        return contract
    h.reg.contracts["file_manager:recorded_manifest_count"] = mk("manifests")
    h.reg.contracts["file_manager:FileManager.expected_entry_count"] = mk("entries")


def expectation_passed(g: dict, tag: str, obj, kwargs: dict, kwname: str):
    """python bool: the reader was given exactly the expectation recorded for obj (the object that references the file)"""
    want = g.get("exp", {}).get((tag, id(obj)))
    return want is not None and kwargs.get(kwname) is want


def data_file(h: H, name="f", checksum="sym"):
    c = h.ctx
    if checksum == "sym":
        cs = SOpt(c.fresh_bool(f"{name}_checksum_none"), SStr(c.fresh_str(f"{name}_checksum")))
    else:
        cs = checksum
    return h.obj("DataFile", label=name, file_path=SStr(c.fresh_str(f"{name}_path")), checksum=cs,
                 record_count=SInt(c.fresh_int(f"{name}_rows")))


def open_source_contract(h: H, st: Store, opened):
    """callee contract of DataFileManager.open_parquet_source (C17 ARROW-PATH): validates, then opens the named file; raises on
    an escaping path, a missing file or an I/O fault."""
    def contract(I, fv, args, kwargs):
        p = args[-1]
        st.maybe_fault(I, "open_parquet_source", None, classes=st.fault_classes or None)
        key = st.key(I, p)
        if not I.ctx.decide(z3.Select(st.ex, key), "source-exists"):
            raise PyRaise(SExc("FileNotFoundError", origin="open_parquet_source: missing data file", fields={"fault": False, "missing": True}))
        src = TheoryObj("pqsource", fields={"path": key, "content": z3.Select(st.ct, key)})
        opened.append(src)
        st.log("open_parquet_source", path=key)
        return src
    h.reg.contracts["data_operations:DataFileManager.open_parquet_source"] = contract


def checksum_contract(h: H, checks):
    def verify(I, fv, args, kwargs):
        raw, expected = args[-2], args[-1] if len(args) >= 2 else None
        checks.append((raw, expected))
        I.ctx.use("T-hash: verify_checksum(data, c) <=> sha256(data) == c")
        return SBool(SHA(pyops.str_z(raw)) == pyops.str_z(I.force(expected)))
    h.reg.contracts["integrity:IntegrityChecker.verify_checksum"] = verify


# =================================================================================== _read_datafile_table
def h_read_datafile_table(faults: bool):
    def harness(h: H):
        c = h.ctx
        st = Store(h, fault_classes=["OSError", "OtherException"] if faults else [], max_faults=1)
        st.install(h.reg)
        g = arrow_theory(h, parse_faults=faults)
        t = table_object(h, st)
        df = data_file(h)
        opened, checks = [], []
        open_source_contract(h, st, opened)
        checksum_contract(h, checks)
        columns = [None, TheoryObj("columns")][c.choose(2, "columns")]
        expr = [None, TheoryObj("pcexpr", label="E")][c.choose(2, "filter")]
        verify = [True, False][c.choose(2, "verify")]
        out, val = h.run(f"{TX}:Table._read_datafile_table", [t, df, columns, expr, verify, ModuleVal("pyarrow"), ModuleVal("pyarrow.parquet")])
        path_key = None
        injected = st.faults_injected + g["faults"]
        if out == "raise":
            ok_reasons = bool(val.fields.get("fault")) or val.cls == "CorruptDataError" or bool(val.fields.get("missing")) or \
                str(val.origin).startswith("read_file: not found")
            h.ensure("PROPAGATE:raises-only-for-fault/missing/corruption", ok_reasons, detail=repr(val))
            if val.cls == "CorruptDataError":
                h.ensure("CHECKSUM:CorruptDataError-only-on-digest-mismatch",
                         len(checks) == 1 and z3.Not(SHA(pyops.str_z(checks[0][0])) == pyops.str_z(df.fields["checksum"].val)))
                h.cover("CHECKSUM:mismatch-reachable")
            return
        h.ensure("PROPAGATE:a-fault-never-yields-a-table", injected == 0)
        h.ensure("ENGINE:returns-a-table", isinstance(val, TheoryObj) and val.theory == "atable")
        if not (isinstance(val, TheoryObj) and val.theory == "atable"):
            return
        term = val.fields["term"]
        reads = [e for e in st.events if e["op"] == "read_file" and e.get("ok")]
        use_verified = verify and len(checks) > 0
        if verify:
            # the branch is taken iff a checksum is recorded
            cs = df.fields["checksum"]
            has_cs = z3.And(z3.Not(cs.isnone), z3.Length(cs.val.z) > 0)
            h.ensure("CHECKSUM:verified-iff-a-checksum-is-recorded", has_cs == z3.BoolVal(len(checks) > 0))
        else:
            h.ensure("CHECKSUM:not-verified-when-verification-is-off", len(checks) == 0)
        if len(checks) > 0:
            h.ensure("CHECKSUM:one-read-of-the-file", len(reads) == 1 and len(opened) == 0)
            raw = reads[0]["content"] if reads else None
            h.ensure("CHECKSUM:digest-compared-on-the-bytes-that-were-read", len(checks) == 1 and raw is not None and z3.eq(pyops.str_z(checks[0][0]), raw))
            h.ensure("CHECKSUM:compared-with-the-recorded-checksum", checks[0][1] is df.fields["checksum"] or
                     (isinstance(checks[0][1], SStr) and z3.eq(checks[0][1].z, df.fields["checksum"].val.z)))
            h.ensure("CHECKSUM:returns-only-if-digest-matches", SHA(raw) == df.fields["checksum"].val.z if raw is not None else z3.BoolVal(False))
            spec = t_proj(columns, t_filt(expr, t_rows(SBytes(raw)))) if raw is not None else None
            h.ensure("ENGINE:verified-path=project(columns,filter(E,rows(the-verified-bytes)))", spec is not None and same(term, spec))
            # the path read is the file's table-relative path
        else:
            h.ensure("ENGINE:unverified-path-opens-the-file-once", len(opened) == 1 and len(reads) == 0)
            if len(opened) == 1:
                spec = t_proj(columns, t_filt(expr, t_rows(opened[0])))
                h.ensure("ENGINE:unverified-path=project(columns,filter(E,rows(file)))", same(term, spec))
                h.ensure("ENGINE:source-closed", opened[0].fields.get("closed") is True)
    return harness


def h_read_datafile_table_twice(h: H):
    """STATELESS: a second verified read of the same file through the same Table, after the file's bytes changed, verifies the
    bytes of ITS OWN read (no 'already verified' memory)."""
    c = h.ctx
    st = Store(h)
    st.install(h.reg)
    arrow_theory(h)
    t = table_object(h, st)
    df = data_file(h)
    cs = df.fields["checksum"]
    h.assume(z3.And(z3.Not(cs.isnone), z3.Length(cs.val.z) > 0))
    opened, checks = [], []
    open_source_contract(h, st, opened)
    checksum_contract(h, checks)
    args = [t, df, None, None, True, ModuleVal("pyarrow"), ModuleVal("pyarrow.parquet")]
    out1, val1 = h.run(f"{TX}:Table._read_datafile_table", args)
    if out1 != "ok":
        return
    n_checks, n_events = len(checks), len(st.events)
    # the file is damaged (any other bytes) between the two reads
    key = st.key(h.I, df.fields["file_path"])
    st.ct = z3.Store(st.ct, key, c.fresh_str("damaged_content"))
    out2, val2 = h.run(f"{TX}:Table._read_datafile_table", args)
    reads2 = [e for e in st.events[n_events:] if e["op"] == "read_file" and e.get("ok")]
    if out2 == "ok":
        h.ensure("CHECKSUM:second-read-verifies-again", len(checks) == n_checks + 1 and len(reads2) == 1)
        if len(checks) == n_checks + 1 and len(reads2) == 1:
            h.ensure("CHECKSUM:second-read-returns-only-if-ITS-bytes-match", SHA(reads2[0]["content"]) == cs.val.z)
            h.ensure("CHECKSUM:second-read-digest-computed-on-its-own-bytes", z3.eq(pyops.str_z(checks[-1][0]), reads2[0]["content"]))
    else:
        h.ensure("CHECKSUM:second-read-raises-only-corruption", val2.cls == "CorruptDataError", detail=repr(val2))


# =================================================================================== _scan_table / scan
def h_scan_table(parallel: bool):
    def harness(h: H):
        c = h.ctx
        st = Store(h)
        st.install(h.reg)
        arrow_theory(h)
        t = table_object(h, st)
        P_TOK, E_TOK = {}, {}
        log = {"gadf": 0, "prune": [], "reads": [], "schema": 0, "resolve": []}

        def mk_file(I):
            return data_file(h, name=I.ctx.fresh_name("df"))
        files = TheoryObj("symiter", label="ALL-FILES", fields={"mk": mk_file})
        gadf_raise = SExc("RuntimeError", origin="_get_all_data_files raises", fields={"fault": True})

        def gadf(I, fv, args, kwargs):
            log["gadf"] += 1
            if I.ctx.flip("listing-raises"):
                raise PyRaise(gadf_raise)
            return files
        h.reg.contracts[f"{TX}:Table._get_all_data_files"] = gadf

        def parse(I, fv, args, kwargs):
            fd = args[0]
            if I.ctx.flip("malformed-filter"):
                raise PyRaise(SExc("ValueError", origin="parse_filter_dict: malformed filter", fields={"fault": True}))
            P_TOK["arg"] = fd
            P_TOK["val"] = TheoryObj("symiter", label="P(filter)", fields={"mk": lambda I2: SObj("FilterExpression", {"column": SStr(I2.ctx.fresh_str("c")), "op": EnumVal("FilterOp", "EQ", "=="), "value": 1})})
            I.ctx.assume(I.symiter_nonempty(P_TOK["val"]) if True else True)
            return P_TOK["val"]
        h.reg.contracts["filters:parse_filter_dict"] = parse

        def topa(I, fv, args, kwargs):
            E_TOK["arg"] = args[0]
            E_TOK["val"] = TheoryObj("pcexpr", label="E(P(filter))")
            return E_TOK["val"]
        h.reg.contracts["filters:to_pyarrow_compute_expression"] = topa
        pruned = TheoryObj("symiter", label="PRUNED-FILES", fields={"mk": mk_file})

        def prune(I, fv, args, kwargs):
            log["prune"].append(args)
            return pruned
        h.reg.contracts["filters:prune_files_by_bounds"] = prune

        def schema(I, fv, args, kwargs):
            log["schema"] += 1
            return None if I.ctx.flip("no-schema") else SObj("Schema", {"schema_id": 1, "fields": PList([])})
        h.reg.contracts[f"{TX}:Table._get_current_schema"] = schema
        vtok = SBool(c.fresh_bool("verify_resolved"))

        def resolve(I, fv, args, kwargs):
            log["resolve"].append(args[-1])
            return vtok
        h.reg.contracts[f"{TX}:Table._resolve_verify_checksums"] = resolve
        read_raise = SExc("CorruptDataError", origin="_read_datafile_table raises", fields={"fault": True})

        def rdt(I, fv, args, kwargs):
            log["reads"].append(args[1:])
            if I.ctx.flip("file-read-raises"):
                raise PyRaise(read_raise)
            return atable(("read", args[1]))
        h.reg.contracts[f"{TX}:Table._read_datafile_table"] = rdt
        # ThreadPoolExecutor: order-preserving map, exceptions propagate
        h.reg.modfuncs["concurrent.futures.ThreadPoolExecutor"] = lambda I, a, k: TheoryObj("executor", fields={"workers": k.get("max_workers")})
        T = h.reg.theory_methods
        T[("executor", "__enter__")] = lambda I, o, a, k: o
        T[("executor", "__exit__")] = lambda I, o, a, k: None

        def ex_map(I, o, a, k):
            fn, coll = a
            if not (isinstance(coll, TheoryObj) and coll.theory == "symiter"):
                raise Unsupported("executor.map over a concrete collection")
            out = TheoryObj("symiter", fields={"parent": coll, "mapped": fn})
            ne = I.symiter_nonempty(out)
            I.ctx.assume(ne == I.symiter_nonempty(coll))
            if I.ctx.decide(ne, "map-nonempty"):
                x = coll.fields["mk"](I)
                out.fields["rep_src"] = x
                out.fields["rep"] = I.call(fn, [x], {})
            out.fields["mk"] = lambda I2: out.fields["rep"]
            return out
        T[("executor", "map")] = ex_map
        h.reg.modfuncs["os.cpu_count"] = lambda I, a, k: SOpt(I.ctx.fresh_bool("cpu_none"), SInt(I.ctx.fresh_int("cpus")))
        columns = [None, TheoryObj("columns")][c.choose(2, "columns")]
        has_filter = c.flip("has-filter")
        fdict = TheoryObj("symiter", label="filter-dict", fields={"mk": lambda I2: ("c", 1)}) if has_filter else None
        if has_filter:
            h.assume(h.I.symiter_nonempty(fdict))
        par = (True if c.flip("parallel-true") else SInt(c.fresh_int("workers"))) if parallel else False
        if isinstance(par, SInt):
            h.assume(par.z > 0)
        vparam = [None, True, False][c.choose(3, "verify-param")]
        out, val = h.run(f"{TX}:Table._scan_table", [t, columns, fdict, par, vparam])
        if out == "raise":
            h.ensure("PROPAGATE:_scan_table-raises-only-what-its-callees-raised", val is gadf_raise or val is read_raise or bool(val.fields.get("fault")),
                     detail=repr(val))
            return
        h.ensure("ONE-READ:file-list-obtained-once", log["gadf"] == 1)
        if val is None:
            # None means: no data files (empty table, or everything pruned)
            ne_all = h.I.symiter_nonempty(files)
            ne_pr = h.I.symiter_nonempty(pruned)
            h.ensure("ENGINE:None-only-when-no-file-is-to-be-read", z3.Or(z3.Not(ne_all), z3.And(z3.BoolVal(bool(log["prune"])), z3.Not(ne_pr))))
            return
        h.ensure("ENGINE:result-is-concat-of-per-file-tables", isinstance(val, TheoryObj) and val.theory == "atable" and val.fields["term"][0] == "concat")
        if not (isinstance(val, TheoryObj) and val.theory == "atable" and val.fields["term"][0] == "concat"):
            return
        tables = val.fields["term"][1]
        src = tables.fields.get("parent") if isinstance(tables, TheoryObj) else None
        if has_filter:
            h.ensure("ENGINE:filter-parsed-from-the-caller's-dict", P_TOK.get("arg") is fdict)
            h.ensure("ENGINE:E=to_pyarrow(parse(filter))-nothing-in-between", E_TOK.get("arg") is P_TOK.get("val"))
            if log["prune"]:
                a = log["prune"][0]
                h.ensure("ENGINE:pruning-sees-all-files-and-the-parsed-filter", a[0] is files and a[1] is P_TOK.get("val"))
                h.ensure("ENGINE:reads-exactly-the-pruned-list", src is pruned)
            else:
                h.ensure("ENGINE:without-schema-nothing-is-pruned", src is files)
        else:
            h.ensure("ENGINE:no-filter=>all-files-read-unfiltered", src is files and not log["prune"] and "arg" not in P_TOK)
        h.ensure("ALL-FILES:every-file-of-the-list-is-read-once(map)", src is not None and len(log["reads"]) == 1)
        if len(log["reads"]) == 1:
            dfa, cols_a, expr_a, ver_a = log["reads"][0][0], log["reads"][0][1], log["reads"][0][2], log["reads"][0][3]
            h.ensure("ENGINE:per-file-read-uses-the-arbitrary-file-of-the-list", dfa is tables.fields.get("rep_src"))
            h.ensure("ENGINE:per-file-read-projects-the-caller's-columns", cols_a is columns)
            h.ensure("ENGINE:per-file-read-filters-with-the-single-E", (expr_a is E_TOK.get("val")) if has_filter else expr_a is None)
            h.ensure("CHECKSUM:verification-setting-resolved-from-the-parameter", ver_a is vtok and len(log["resolve"]) == 1 and log["resolve"][0] is vparam)
    return harness


def h_scan(h: H):
    c = h.ctx
    st = Store(h)
    t = table_object(h, st)
    arrow_theory(h)
    seen = []
    raise_tok = SExc("RuntimeError", origin="_scan_table raises", fields={"fault": True})
    tab = atable(("scan-result",))

    def scan_table(I, fv, args, kwargs):
        seen.append(args[1:])
        k = I.ctx.choose(3, "scan-table-outcome")
        if k == 0:
            raise PyRaise(raise_tok)
        return None if k == 1 else tab
    h.reg.contracts[f"{TX}:Table._scan_table"] = scan_table
    cols, flt, par, ver = TheoryObj("columns"), TheoryObj("filterdict"), SBool(c.fresh_bool("par")), SOpt(c.fresh_bool("vn"), SBool(c.fresh_bool("v")))
    out, val = h.run(f"{TX}:Table.scan", [t, cols, flt, par, ver])
    h.ensure("ENGINE:scan-delegates-once-with-its-arguments", len(seen) == 1 and seen[0][0] is cols and seen[0][1] is flt and seen[0][2] is par and seen[0][3] is ver)
    if out == "raise":
        h.ensure("PROPAGATE:scan-raises-what-_scan_table-raised", val is raise_tok)
    elif isinstance(val, PList):
        h.ensure("NOT-EMPTY:[]-only-when-_scan_table-returned-None", len(val.items) == 0)
    else:
        h.ensure("ENGINE:scan=to_pylist(_scan_table)", isinstance(val, TheoryObj) and same(val.fields.get("term"), ("pylist", ("scan-result",))))


# =================================================================================== batches
def gen_theory(h: H):
    ys = h.ctx.ghost.setdefault("yields", [])
    h.reg.builtins["__yield__"] = Builtin("__yield__", lambda I, a, k: ys.append(("value", a[0])))
    h.reg.builtins["__yield_from__"] = Builtin("__yield_from__", lambda I, a, k: ys.append(("from", a[0])))
    return ys


def h_scan_batches(h: H):
    c = h.ctx
    st = Store(h)
    st.install(h.reg)
    arrow_theory(h)
    ys = gen_theory(h)
    t = table_object(h, st)
    P_TOK, E_TOK = {}, {}
    log = {"gadf": 0, "prune": [], "ifb": [], "resolve": []}

    def mk_file(I):
        return data_file(h, name=I.ctx.fresh_name("df"))
    files = TheoryObj("symiter", label="ALL-FILES", fields={"mk": mk_file})
    pruned = TheoryObj("symiter", label="PRUNED-FILES", fields={"mk": mk_file})
    gadf_raise = SExc("RuntimeError", origin="_get_all_data_files raises", fields={"fault": True})

    def gadf(I, fv, args, kwargs):
        log["gadf"] += 1
        if I.ctx.flip("listing-raises"):
            raise PyRaise(gadf_raise)
        return files
    h.reg.contracts[f"{TX}:Table._get_all_data_files"] = gadf

    def parse(I, fv, args, kwargs):
        if I.ctx.flip("malformed-filter"):
            raise PyRaise(SExc("ValueError", origin="parse_filter_dict: malformed", fields={"fault": True}))
        P_TOK["arg"] = args[0]
        P_TOK["val"] = TheoryObj("symiter", label="P(filter)", fields={"mk": lambda I2: SObj("FilterExpression", {"column": "c", "op": EnumVal("FilterOp", "EQ", "=="), "value": 1})})
        I.ctx.assume(I.symiter_nonempty(P_TOK["val"]))
        return P_TOK["val"]
    h.reg.contracts["filters:parse_filter_dict"] = parse

    def topa(I, fv, args, kwargs):
        E_TOK["arg"] = args[0]
        E_TOK["val"] = TheoryObj("pcexpr", label="E(P(filter))")
        return E_TOK["val"]
    h.reg.contracts["filters:to_pyarrow_compute_expression"] = topa

    def prune(I, fv, args, kwargs):
        log["prune"].append(args)
        return pruned
    h.reg.contracts["filters:prune_files_by_bounds"] = prune
    h.reg.contracts[f"{TX}:Table._get_current_schema"] = lambda I, fv, a, k: (None if I.ctx.flip("no-schema") else SObj("Schema", {"schema_id": 1, "fields": PList([])}))
    vtok = SBool(c.fresh_bool("verify_resolved"))

    def resolve(I, fv, args, kwargs):
        log["resolve"].append(args[-1])
        return vtok
    h.reg.contracts[f"{TX}:Table._resolve_verify_checksums"] = resolve
    gen_tok = TheoryObj("generator", label="_iter_file_batches(...)")

    def ifb(I, fv, args, kwargs):
        log["ifb"].append(args[1:])
        return gen_tok
    h.reg.contracts[f"{TX}:Table._iter_file_batches"] = ifb
    columns = [None, TheoryObj("columns")][c.choose(2, "columns")]
    has_filter = c.flip("has-filter")
    fdict = TheoryObj("symiter", label="filter-dict", fields={"mk": lambda I2: ("c", 1)}) if has_filter else None
    if has_filter:
        h.assume(h.I.symiter_nonempty(fdict))
    bs = SInt(c.fresh_int("batch_size"))
    vparam = [None, True][c.choose(2, "verify-param")]
    out, val = h.run(f"{TX}:Table.scan_batches", [t, bs, columns, fdict, vparam])
    if out == "raise":
        h.ensure("PROPAGATE:scan_batches-raises-only-what-its-callees-raised", val is gadf_raise or bool(val.fields.get("fault")), detail=repr(val))
        return
    h.ensure("ONE-READ:file-list-obtained-once", log["gadf"] == 1)
    if not ys:
        ne_all, ne_pr = h.I.symiter_nonempty(files), h.I.symiter_nonempty(pruned)
        h.ensure("ENGINE:nothing-yielded-only-when-no-file-is-to-be-read", z3.Or(z3.Not(ne_all), z3.And(z3.BoolVal(bool(log["prune"])), z3.Not(ne_pr))))
        return
    h.ensure("ENGINE:yields-exactly-the-per-file-batch-generator", len(ys) == 1 and ys[0][0] == "from" and ys[0][1] is gen_tok and len(log["ifb"]) == 1)
    if len(log["ifb"]) == 1:
        a = log["ifb"][0]
        want_files = (pruned if log["prune"] else files) if has_filter else files
        h.ensure("ENGINE:batches-read-exactly-the-(pruned)-file-list", a[0] is want_files)
        h.ensure("ENGINE:batch-size-and-columns-passed-through", a[1] is bs and a[2] is columns)
        h.ensure("ENGINE:batches-filtered-with-the-single-E", (a[3] is E_TOK.get("val") and E_TOK.get("arg") is P_TOK.get("val") and P_TOK.get("arg") is fdict) if has_filter else a[3] is None)
        h.ensure("CHECKSUM:verification-setting-resolved-from-the-parameter", a[4] is vtok and log["resolve"] == [vparam])
        if log["prune"]:
            h.ensure("ENGINE:pruning-sees-all-files-and-the-parsed-filter", log["prune"][0][0] is files and log["prune"][0][1] is P_TOK.get("val"))


def h_iter_file_batches(faults: bool):
    def harness(h: H):
        c = h.ctx
        st = Store(h, fault_classes=["OSError"] if faults else [], max_faults=1)
        st.install(h.reg)
        g = arrow_theory(h, parse_faults=faults)
        ys = gen_theory(h)
        t = table_object(h, st)
        opened, checks = [], []
        open_source_contract(h, st, opened)
        checksum_contract(h, checks)
        cur = {}

        def mk_file(I):
            cur["df"] = data_file(h, name=I.ctx.fresh_name("df"))
            del ys[:], opened[:], checks[:]
            cur["ev0"] = len(st.events)
            return cur["df"]
        files = TheoryObj("symiter", fields={"mk": mk_file})
        columns = [None, TheoryObj("columns")][c.choose(2, "columns")]
        expr = [None, TheoryObj("pcexpr", label="E")][c.choose(2, "filter")]
        verify = [True, False][c.choose(2, "verify")]
        bs = SInt(c.fresh_int("batch_size"))
        state = {"in_batch": False}

        def inv_files(I, env, it):
            res = []
            if it.get("after_body"):
                res.append(("PROPAGATE:a-file-with-a-read/parse-fault-never-completes", z3.BoolVal(st.faults_injected + g["faults"] == 0)))
                df = cur["df"]
                reads = [e for e in st.events[cur["ev0"]:] if e["op"] == "read_file" and e.get("ok")]
                if checks:
                    res.append(("CHECKSUM:file-completes-only-if-digest-matched", SHA(pyops.str_z(checks[0][0])) == df.fields["checksum"].val.z))
                    res.append(("CHECKSUM:parsed-bytes-are-the-verified-bytes", z3.BoolVal(len(reads) == 1 and len(g["parsed"]) >= 1 and
                                                                                           z3.eq(pyops.str_z(g["parsed"][-1]), reads[0]["content"]))))
                else:
                    res.append(("ALL-FILES:every-file-is-opened", z3.BoolVal(len(opened) == 1 and len(reads) == 0)))
                if verify:
                    cs = df.fields["checksum"]
                    res.append(("CHECKSUM:verified-iff-a-checksum-is-recorded",
                                z3.And(z3.Not(cs.isnone), z3.Length(cs.val.z) > 0) == z3.BoolVal(len(checks) > 0)))
            return res

        def inv_batches(I, env, it):
            res = []
            if it.get("after_body"):
                b = it["elem"].fields["term"]
                rc = it["iter"].fields.get("read_columns")
                res.append(("ENGINE:batches-read-all-columns-when-filtering(project-after-filter)",
                            z3.BoolVal((rc is None) if expr is not None else (rc is columns))))
                res.append(("ENGINE:batch-size-passed-to-the-parquet-reader", z3.BoolVal(it["iter"].fields.get("batch_size") is bs)))
                vals = [y for y in ys if y[0] == "value"]
                spec = ("pylist", t_proj(columns if expr is not None else None, t_filt(expr, b)))
                if len(vals) == 1:
                    res.append(("ENGINE:yielded-batch=to_pylist(project(columns,filter(E,batch)))",
                                z3.BoolVal(isinstance(vals[0][1], TheoryObj) and same(vals[0][1].fields.get("term"), spec))))
                else:
                    res.append(("ENGINE:at-most-one-yield-per-batch", z3.BoolVal(len(vals) == 0)))
            return res

        def havoc_batches(I, env, it):
            del ys[:]
        h.reg.loops[f"{TX}:Table._iter_file_batches"] = {
            "iter:data_files": LoopSpec(invariant=inv_files, havoc=lambda I, e, it: None, name="files", skip=["pf", "raw", "rel_path", "table", "batch", "data_file"]),
            "*": LoopSpec(invariant=inv_batches, havoc=havoc_batches, name="batches", skip=["table", "batch"])}
        out, val = h.run(f"{TX}:Table._iter_file_batches", [t, files, bs, columns, expr, verify, ModuleVal("pyarrow"), ModuleVal("pyarrow.parquet")])
        if out == "raise":
            ok_reasons = bool(val.fields.get("fault")) or val.cls == "CorruptDataError" or bool(val.fields.get("missing")) or \
                str(val.origin).startswith("read_file: not found")
            h.ensure("PROPAGATE:raises-only-for-fault/missing/corruption", ok_reasons, detail=repr(val))
            if val.cls == "CorruptDataError":
                h.ensure("CHECKSUM:CorruptDataError-only-on-digest-mismatch",
                         len(checks) == 1 and z3.Not(SHA(pyops.str_z(checks[0][0])) == cur["df"].fields["checksum"].val.z))
    return harness


def h_iter_records(h: H):
    st = Store(h)
    t = table_object(h, st)
    ys = gen_theory(h)
    seen = []
    rec_tok = {}

    def scan_batches(I, fv, args, kwargs):
        seen.append((args[1:], dict(kwargs)))

        def mk_batch(I2):
            def mk_rec(I3):
                rec_tok["r"] = TheoryObj("record")
                return rec_tok["r"]
            return TheoryObj("symiter", fields={"mk": mk_rec})
        return TheoryObj("symiter", fields={"mk": mk_batch})
    h.reg.contracts[f"{TX}:Table.scan_batches"] = scan_batches

    def inv_inner(I, env, it):
        if it.get("after_body"):
            vals = [y for y in ys if y[0] == "value"]
            return [("ENGINE:iter_records-yields-each-record-of-each-batch-once", z3.BoolVal(len(vals) == 1 and vals[0][1] is rec_tok.get("r")))]
        return []
    h.reg.loops[f"{TX}:Table.iter_records"] = {
        "iter:batch": LoopSpec(invariant=inv_inner, havoc=lambda I, e, it: ys.__delitem__(slice(None)), name="records", skip=["record"]),
        "*": LoopSpec(invariant=lambda I, e, it: [], havoc=lambda I, e, it: None, name="batches", skip=["batch", "record"])}
    cols, flt, ver = TheoryObj("columns"), TheoryObj("filterdict"), TheoryObj("verifyparam")
    out, val = h.run(f"{TX}:Table.iter_records", [t, cols, flt, ver])
    h.ensure("ENGINE:iter_records-delegates-to-scan_batches-with-its-arguments",
             out == "ok" and len(seen) == 1 and seen[0][1].get("columns") is cols and seen[0][1].get("filter") is flt and seen[0][1].get("verify_checksums") is ver)


def h_resolve_verify(h: H):
    c = h.ctx
    env_val = SOpt(z3.Bool("env_unset"), SStr(z3.String("env_value")))
    h.report("env_value", env_val.val.z)

    def getenv(I, a, k):
        if a[0] != "DATASHARD_VERIFY_CHECKSUMS":
            raise Unsupported("getenv of another variable")
        if I.ctx.decide(env_val.isnone, "env-unset"):
            return a[1] if len(a) > 1 else None
        return env_val.val
    h.reg.modfuncs["os.getenv"] = getenv
    param = [None, True, False][c.choose(3, "param")]
    from pyvc.values import ClassVal
    out, val = h.run(f"{TX}:Table._resolve_verify_checksums", [param])
    h.ensure("CHECKSUM:resolve-no-raise", out == "ok")
    if param is not None:
        h.ensure("CHECKSUM:explicit-parameter-wins", val is param)
    else:
        tv = pyops.bool_z(pyops.truth(val))
        h.ensure("CHECKSUM:default-is-ON-when-the-variable-is-unset", z3.Implies(env_val.isnone, tv))


def _replay_reads(ob):
    return '''
import sys, os, tempfile, shutil, random
from datashard import create_table
from datashard.data_structures import Schema
import datashard.filters as filters
root = tempfile.mkdtemp(prefix="pyvc_replay_")
bad = []
def rows_key(rs): return sorted(tuple(sorted((k, repr(v)) for k, v in r.items())) for r in rs)
try:
    p = os.path.join(root, "t")
    t = create_table(p, schema=Schema(schema_id=1, fields=[{"id": 1, "name": "n", "type": "long", "required": False},
                                                            {"id": 2, "name": "s", "type": "string", "required": False},
                                                            {"id": 3, "name": "x", "type": "double", "required": False}]))
    data = [[{"n": i, "s": "a%d" % i, "x": i / 2} for i in range(0, 5)], [{"n": None, "s": None, "x": None}, {"n": 7, "s": "z", "x": float("nan")}],
            [{"n": 50, "s": "m", "x": 2.5}, {"n": None, "s": "q", "x": 1.0}, {"n": 60, "s": None, "x": 3.0}], [{"n": 2, "s": "b", "x": 2.0}] * 3]
    allrows = []
    for d in data:
        t.append_records(d); allrows += d
    def ev(row, col, op, lit):
        v = row[col]
        if op == "is_null": return v is None
        if op == "is_not_null": return v is not None
        if v is None: return False
        if op in ("in", "not_in"):
            hit = any(e is not None and (v == e) for e in lit); return hit if op == "in" else not hit
        if op == "between": return lit[0] <= v <= lit[1]
        return {"==": v == lit, "!=": v != lit, "<": v < lit, "<=": v <= lit, ">": v > lit, ">=": v >= lit}[op]
    filters_ = [None, {"n": (">=", 50)}, {"n": ("<", 2.5)}, {"n": ("==", 2.5)}, {"n": ("between", (1.5, 3.5))}, {"n": ("in", [2, 2.5, 7])}, {"n": ("!=", 2)},
                {"s": ("in", ["z", None])}, {"s": ("not_in", ["z"])}, {"x": (">", 1.0)}, {"n": ("is_null", True)}, {"n": (">=", 0), "s": ("is_not_null", True)},
                {"x": ("!=", 2.0)}, {"n": ("<=", 4), "x": (">=", 1.0)}]
    for flt in filters_:
        for cols in (None, ["s"], ["n", "x"]):
            def spec():
                out = []
                for r in allrows:
                    if flt is None or all(ev(r, c, (cond[0] if isinstance(cond, tuple) else "=="), (cond[1] if isinstance(cond, tuple) else cond)) for c, cond in flt.items()):
                        out.append({k: r[k] for k in (cols or r.keys())})
                return rows_key(out)
            want = spec()
            got = {}
            try:
                got["scan"] = rows_key(t.scan(columns=cols, filter=flt))
                got["scan-parallel"] = rows_key(t.scan(columns=cols, filter=flt, parallel=2))
                got["scan-noverify"] = rows_key(t.scan(columns=cols, filter=flt, verify_checksums=False))
                got["batches"] = rows_key([r for b in t.scan_batches(batch_size=2, columns=cols, filter=flt) for r in b])
                got["batches-noverify"] = rows_key([r for b in t.scan_batches(batch_size=3, columns=cols, filter=flt, verify_checksums=False) for r in b])
                got["records"] = rows_key(list(t.iter_records(columns=cols, filter=flt)))
            except Exception as e:
                bad.append(("raised", flt, cols, repr(e)[:100])); continue
            for api, g in got.items():
                if g != want: bad.append((api, flt, cols, "got", len(g), "want", len(want)))
    # literals of another type than the column: whatever the engine does with them (answer or raise), every API does the same
    for flt in ({"n": ("in", ["2"])}, {"n": ("not_in", ["50"])}, {"s": ("in", [5])}, {"n": "abc"}):
        outcome = {}
        for api, fn in (("scan", lambda: rows_key(t.scan(filter=flt))),
                        ("scan-noverify", lambda: rows_key(t.scan(filter=flt, verify_checksums=False))),
                        ("batches", lambda: rows_key([r for b in t.scan_batches(batch_size=2, filter=flt) for r in b])),
                        ("batches-noverify", lambda: rows_key([r for b in t.scan_batches(batch_size=2, filter=flt, verify_checksums=False) for r in b])),
                        ("records", lambda: rows_key(list(t.iter_records(filter=flt))))):
            try: outcome[api] = ("rows", fn())
            except Exception as e: outcome[api] = ("raises",)
        if len({repr(v) for v in outcome.values()}) != 1:
            bad.append(("scan APIs disagree on a filter whose literal has another type than the column", flt, {k: v[0] for k, v in outcome.items()}))
finally:
    shutil.rmtree(root, ignore_errors=True)
print("replay read APIs vs independent evaluator ->", bad[:5] or "all APIs agree with SQL semantics")
sys.exit(1 if bad else 0)
'''


READ_UNITS = [
    ("ENGINE/_read_datafile_table", h_read_datafile_table(False), [f"{TX}:Table._read_datafile_table"]),
    ("ENGINE/_scan_table-sequential", h_scan_table(False), [f"{TX}:Table._scan_table"]),
    ("ENGINE/_scan_table-parallel", h_scan_table(True), [f"{TX}:Table._scan_table"]),
    ("ENGINE/scan", h_scan, [f"{TX}:Table.scan"]),
    ("ENGINE/scan_batches", h_scan_batches, [f"{TX}:Table.scan_batches"]),
    ("ENGINE/_iter_file_batches", h_iter_file_batches(False), [f"{TX}:Table._iter_file_batches"]),
    ("ENGINE/iter_records", h_iter_records, [f"{TX}:Table.iter_records"]),
]
FAULT_UNITS = [
    ("CHECKSUM/_read_datafile_table-twice(stateless)", h_read_datafile_table_twice, [f"{TX}:Table._read_datafile_table"]),
    ("PROPAGATE/_read_datafile_table-faults", h_read_datafile_table(True), [f"{TX}:Table._read_datafile_table"]),
    ("PROPAGATE/_iter_file_batches-faults", h_iter_file_batches(True), [f"{TX}:Table._iter_file_batches"]),
    ("CHECKSUM/_resolve_verify_checksums", h_resolve_verify, [f"{TX}:Table._resolve_verify_checksums"]),
]


# =================================================================================== _get_all_data_files
def h_get_all_data_files(mode: str):
    """mode 'seq' (C14: no other agent, fault edges) | 'rg' (C02: the pointer may advance between two metadata reads)"""
    def harness(h: H):
        c = h.ctx
        faults = mode == "seq"
        st = Store(h, fault_classes=["OSError"] if faults else [], max_faults=1, fault_ops=["exists"])
        st.install(h.reg)
        t = table_object(h, st)
        g = {"snap_calls": 0, "refresh_calls": 0, "list_reads": [], "man_reads": 0, "reader_fault": False}
        # state at the first metadata read (M1) and, for the second read, M2
        m1_none, m1_unset, m1_dangling = c.fresh_bool("m1_none"), c.fresh_bool("m1_current_unset"), c.fresh_bool("m1_dangling")
        snap = h.obj("Snapshot", snapshot_id=SInt(c.fresh_int("sid")), manifest_list=SStr(c.fresh_str("manifest_list")))
        fault_tok = SExc("OSError", origin="fault: metadata read", fields={"fault": True})

        def current_snapshot(I, fv, args, kwargs):
            g["snap_calls"] += 1
            if faults and I.ctx.flip("metadata-read-fault"):
                raise PyRaise(fault_tok)
            if I.ctx.flip("has-current-snapshot"):
                return snap
            I.ctx.assume(z3.Or(m1_none, m1_unset, m1_dangling))
            I.ctx.assume(z3.And(z3.Implies(m1_none, z3.And(z3.Not(m1_unset), z3.Not(m1_dangling))), z3.Implies(m1_unset, z3.Not(m1_dangling))))
            return None
        h.reg.contracts[f"{TX}:Table.current_snapshot"] = current_snapshot
        m2 = {}

        def refresh(I, fv, args, kwargs):
            g["refresh_calls"] += 1
            if faults and st.faults_injected == 0 and I.ctx.flip("metadata-read-fault-2"):
                raise PyRaise(fault_tok)
            if mode == "seq" and g["snap_calls"] > 0:
                # nobody else writes: the second read sees the state of the first
                none2, unset2, dang2 = m1_none, m1_unset, m1_dangling
            else:
                none2, unset2, dang2 = I.ctx.fresh_bool("m2_none"), I.ctx.fresh_bool("m2_current_unset"), I.ctx.fresh_bool("m2_dangling")
                I.ctx.assume(z3.Implies(none2, z3.And(z3.Not(unset2), z3.Not(dang2))))
                I.ctx.assume(z3.Implies(unset2, z3.Not(dang2)))
            m2.update(none=none2, unset=unset2, dangling=dang2)
            if I.ctx.decide(none2, "m2-none"):
                return None
            cur = SOpt(I.ctx.fresh_bool("cur_is_None"), SInt(I.ctx.fresh_int("cur_id")))
            I.ctx.assume(unset2 == z3.Or(cur.isnone, cur.val.z == -1))
            valid2 = z3.And(z3.Not(unset2), z3.Not(dang2))
            m2["valid"] = valid2
            I.ctx.assume(z3.Implies(valid2, snap.fields["snapshot_id"].z == cur.val.z))

            def mk_snap(I2):
                if I2.ctx.flip("candidate-is-the-current-snapshot"):
                    I2.ctx.assume(valid2)
                    return snap
                other = SObj("Snapshot", {"snapshot_id": SInt(I2.ctx.fresh_int("other_id")), "manifest_list": SStr(I2.ctx.fresh_str("other_ml"))})
                I2.ctx.assume(z3.Or(cur.isnone, other.fields["snapshot_id"].z != cur.val.z))   # ids are unique (WF, C15)
                return other
            return SObj("TableMetadata", {"current_snapshot_id": cur,
                                          "snapshots": TheoryObj("symiter", fields={"mk": mk_snap, "witnesses": []})})
        h.reg.contracts["metadata_manager:MetadataManager.refresh"] = refresh
        cur = {}
        install_count_contracts(h, g)

        def read_list(I, fv, args, kwargs):
            key = st.key(I, args[1])
            g["list_reads"].append(key)
            h.ensure("COUNT-CHECK:manifest-list-read-with-the-manifest-count-its-snapshot-records",
                     expectation_passed(g, "manifests", snap, kwargs, "expected_manifests") or
                     any(expectation_passed(g, "manifests", o, kwargs, "expected_manifests") for o in g.get("exp_objs", {}).values()))
            if not I.ctx.decide(z3.Select(st.ex, key), "list-exists"):
                raise PyRaise(SExc("FileNotFoundError", origin="read_manifest_list_file: missing", fields={"missing": True}))
            if faults and I.ctx.flip("list-reader-fault"):
                g["reader_fault"] = True
                raise PyRaise(SExc("ValueError", origin="read_manifest_list_file: cannot parse", fields={"fault": True}))

            def mk(I2):
                mp = SStr(I2.ctx.fresh_str("manifest_path"))
                cur["manifest"] = mp
                g["man_reads"] = 0
                cur["manifest_obj"] = SObj("ManifestFile", {"manifest_path": mp})
                return cur["manifest_obj"]
            return TheoryObj("symiter", label="MANIFESTS", fields={"mk": mk})
        h.reg.contracts["file_manager:FileManager.read_manifest_list_file"] = read_list

        def read_manifest(I, fv, args, kwargs):
            key = st.key(I, args[1])
            g["man_reads"] += 1
            h.ensure("COUNT-CHECK:manifest-read-with-the-entry-count-its-list-entry-records",
                     expectation_passed(g, "entries", cur.get("manifest_obj"), kwargs, "expected_entries"))
            cur["manifest_key"] = key
            if not I.ctx.decide(z3.Select(st.ex, key), "manifest-exists"):
                raise PyRaise(SExc("FileNotFoundError", origin="read_manifest_file: missing", fields={"missing": True}))
            if faults and I.ctx.flip("manifest-reader-fault"):
                g["reader_fault"] = True
                raise PyRaise(SExc("ValueError", origin="read_manifest_file: cannot parse", fields={"fault": True}))

            def mk(I2):
                df = SObj("DataFile", {"file_path": SStr(I2.ctx.fresh_str("file_path"))}, label="df")
                cur["df"] = df
                return df
            return TheoryObj("symiter", label="FILES", fields={"mk": mk})
        h.reg.contracts["file_manager:FileManager.read_manifest_file"] = read_manifest
        files = _acc.new_acc("all_data_files")
        seen = {"z": None, "before": None}

        def inv_manifests(I, env, it):
            res = []
            if it.get("after_body"):
                mp = cur["manifest"]
                res.append(("ALL-FILES:every-named-manifest-is-read(missing/unreadable=>no-completion)",
                            z3.Implies(z3.Length(mp.z) > 0, z3.BoolVal(g["man_reads"] == 1))))
                res.append(("PROPAGATE:iteration-with-a-reader-failure-does-not-complete", z3.BoolVal(not g["reader_fault"])))
            return res

        def havoc_manifests(I, env, it):
            env.vars["all_data_files"] = files
            env.vars["seen_paths"] = SSetZ_("seen")
            _acc.reset(files)

        def SSetZ_(nm):
            from pyvc.values import SSetZ
            return SSetZ("str", c.fresh(nm, z3.SetSort(STR)))

        def inv_files(I, env, it):
            res = []
            ok, sp = env.lookup("seen_paths")
            if it.get("after_body"):
                df = cur["df"]
                pz = df.fields["file_path"].z
                adds = files.fields["added"]
                # normalised path = path without leading slashes: relate through the set membership the code itself computed
                if len(adds) == 1:
                    res.append(("ROWS:appended-file-is-the-one-under-examination", z3.BoolVal(adds[0] is df)))
                elif len(adds) > 1:
                    res.append(("ROWS:each-file-contributes-at-most-once", z3.BoolVal(False)))
                res.append(("ROWS:file-kept-iff-its-normalised-path-was-not-seen-before",
                            z3.BoolVal(len(adds) == (0 if seen.get("dup") else 1))))
            return res

        def havoc_files(I, env, it):
            env.vars["all_data_files"] = files
            env.vars["seen_paths"] = SSetZ_("seen_in")
            seen["before"] = env.vars["seen_paths"].z
            seen["dup"] = None
            _acc.reset(files)
        # observe the membership test of the current file (the `in seen_paths` decision)
        orig_contains = h.I.contains

        def contains(container, item):
            r = orig_contains(container, item)
            from pyvc.values import SSetZ
            if isinstance(container, SSetZ):
                # path-at-a-time: record which way this path goes (decided right after by the `if`)
                seen["last_test"] = r
            return r
        h.I.contains = contains
        orig_decide_truth = h.I.decide_truth

        def decide_truth(v):
            t = orig_decide_truth(v)
            if seen.get("last_test") is not None:
                seen["dup"] = t
                seen["last_test"] = None
            return t
        h.I.decide_truth = decide_truth
        def exit_search(I, env, it):
            # rule ALL-VISITED: the loop ended without `break`, so no element matched the current id
            if "valid" in m2:
                I.ctx.assume(z3.Not(m2["valid"]), "rule ALL-VISITED")

        def havoc_search(I, env, it):
            env.vars["snapshot"] = None   # the search assigns `snapshot` only immediately before `break`
        skipv = ["all_data_files", "seen_paths", "manifest_path", "manifest_data_files", "file_path", "data_file", "manifest_ref",
                 "snapshot", "candidate"]
        h.reg.loops[f"{TX}:Table._get_all_data_files"] = {
            "iter:metadata.snapshots": LoopSpec(invariant=lambda I, e, it: [], havoc=havoc_search, on_exit=exit_search, name="find-current", skip=skipv),
            "iter:manifest_files": LoopSpec(invariant=inv_manifests, havoc=havoc_manifests, name="manifests", skip=skipv),
            "iter:manifest_data_files": LoopSpec(invariant=inv_files, havoc=havoc_files, name="files", skip=skipv)}
        out, val = h.run(f"{TX}:Table._get_all_data_files", [t])
        meta_reads = g["snap_calls"] + g["refresh_calls"]
        if out == "raise":
            if val is fault_tok or val.fields.get("fault") or val.fields.get("missing"):
                h.cover("PROPAGATE:fault-surfaces")
                return
            probed = any(e["op"] == "exists" for e in st.events)
            if val.cls == "RuntimeError" and g["refresh_calls"] >= 1 and not g["list_reads"] and not probed:
                # "current_snapshot_id matches no snapshot": must be true of the metadata the DECISION was taken on
                if mode == "seq":
                    h.ensure("NOT-EMPTY:inconsistency-error-only-for-a-dangling-current-id", m2.get("dangling", m1_dangling))
                else:
                    h.ensure("ONE-READ:inconsistency-error-only-if-that-same-metadata-has-a-dangling-current-id", m2.get("dangling", z3.BoolVal(False)),
                             classes=[("empty-table-then-first-commit-between-two-metadata-reads", z3.BoolVal(True))],
                             detail="the decision 'no snapshot' came from the first read, the current id from a second read")
                return
            if val.cls == "RuntimeError":
                # missing manifest list / manifest announced by the exists() probes
                h.ensure("NOT-EMPTY:missing-file-error-only-when-the-file-is-missing",
                         any(e["op"] == "exists" for e in st.events))
                return
            h.fail("PROPAGATE:unexpected-exception", detail=repr(val))
            return
        if isinstance(val, PList) and len(val.items) == 0 and not g["list_reads"]:
            if mode == "seq":
                h.ensure("NOT-EMPTY:[]-only-for-an-empty-table", z3.Or(m2.get("none", m1_none), m2.get("unset", m1_unset)))
            else:
                h.ensure("ONE-READ:[]-only-if-a-read-metadata-shows-an-empty-table", z3.Or(m1_none, m1_unset, m2.get("none", z3.BoolVal(False)), m2.get("unset", z3.BoolVal(False))))
            return
        h.ensure("ONE-READ:files-come-from-ONE-metadata-read", meta_reads == 1)
        h.ensure("ALL-FILES:manifest-list-of-that-snapshot-read-once", len(g["list_reads"]) == 1)
        h.ensure("NOT-EMPTY:returns-the-collected-list", val is files or (isinstance(val, PList)))
    return harness


def _replay_gadf(ob):
    fallback = ob.get("verdict") in ("undecided", "scenario")
    return f"FALLBACK = {fallback!r}\n" + '''
import sys, os, tempfile, shutil
from datashard import create_table, load_table
from datashard.data_structures import Schema
root = tempfile.mkdtemp(prefix="pyvc_replay_")
bad = []
try:
    p = os.path.join(root, "t")
    sch = Schema(schema_id=1, fields=[{"id": 1, "name": "a", "type": "long", "required": False}])
    t = create_table(p, schema=sch)
    reader = load_table(p)
    # a reader on an EMPTY table while the first commit lands between its two metadata reads
    real_refresh = reader.metadata_manager.refresh
    state = {"n": 0}
    def refresh():
        state["n"] += 1
        r = real_refresh()
        if state["n"] == 1:
            t.append_records([{"a": 1}])      # the writer commits right after the reader's first metadata read
        return r
    reader.metadata_manager.refresh = refresh
    try:
        rows = reader.scan()
        if sorted(r["a"] for r in rows) not in ([], [1]): bad.append(("rows of no committed snapshot", rows))
    except Exception as e:
        if not FALLBACK:
            bad.append(("read raised on a table that was consistent at every instant", repr(e)[:160]))
    reader.metadata_manager.refresh = real_refresh
    # fail closed (sequential): missing manifest list / manifest / dangling id
    t.append_records([{"a": 2}])
    md = t.metadata_manager.refresh()
    ml = md.snapshots[-1].manifest_list.lstrip("/")
    man = t.file_manager.read_manifest_list_file(ml)[0].manifest_path
    for victim in (ml, man):
        full = os.path.join(p, victim); data = open(full, "rb").read(); os.remove(full)
        for api in (lambda: t.scan(), lambda: list(t.scan_batches()), lambda: t.row_count(), lambda: list(t.iter_records())):
            try:
                r = api(); bad.append(("missing %s -> returned %r" % (victim, r if not isinstance(r, list) else len(r))))
            except Exception: pass
        open(full, "wb").write(data[: len(data) // 2])
        for api in (lambda: t.scan(), lambda: t.row_count()):
            try:
                r = api(); bad.append(("truncated %s -> returned" % victim))
            except Exception: pass
        open(full, "wb").write(data)
    if sorted(r["a"] for r in t.scan()) != [1, 2]: bad.append("restore failed")
finally:
    shutil.rmtree(root, ignore_errors=True)
print("replay _get_all_data_files ->", bad or "ok")
sys.exit(1 if bad else 0)
'''


def h_row_count(h: H):
    st = Store(h)
    t = table_object(h, st)
    tok = SExc("RuntimeError", origin="_get_all_data_files raises", fields={"fault": True})
    calls = []

    def gadf(I, fv, args, kwargs):
        calls.append(1)
        if I.ctx.flip("listing-raises"):
            raise PyRaise(tok)
        return PList([SObj("DataFile", {"record_count": SInt(I.ctx.fresh_int("n1"))}), SObj("DataFile", {"record_count": SInt(I.ctx.fresh_int("n2"))})])
    h.reg.contracts[f"{TX}:Table._get_all_data_files"] = gadf
    out, val = h.run(f"{TX}:Table.row_count", [t])
    h.ensure("ONE-READ:row_count-lists-once", len(calls) == 1)
    if out == "raise":
        h.ensure("PROPAGATE:row_count-raises-what-the-listing-raised", val is tok)


GADF_UNITS_SEQ = [("NOT-EMPTY/_get_all_data_files", h_get_all_data_files("seq"), [f"{TX}:Table._get_all_data_files"]),
                  ("PROPAGATE/row_count", h_row_count, [f"{TX}:Table.row_count"])]
GADF_UNITS_RG = [("ONE-READ/_get_all_data_files", h_get_all_data_files("rg"), [f"{TX}:Table._get_all_data_files"]),
                 ("ONE-READ/row_count", h_row_count, [f"{TX}:Table.row_count"])]


# =================================================================================== MetadataManager.refresh (no state between calls)
def h_refresh_stateless(h: H):
    """Two consecutive refresh() calls through one handle while other agents commit in between: each result is the metadata
    read from storage for the version resolved BY THAT CALL (nothing cached from an earlier call or an earlier write)."""
    c = h.ctx
    st = Store(h)
    st.install(h.reg)
    mm = h.obj("MetadataManager", storage=st.obj, metadata_path="metadata", table_path=h.str("table_path"), _lock=TheoryObj("rlock"), current_version=0)
    res = []

    def cvi(I, fv, args, kwargs):
        if I.ctx.flip("nothing-resolvable"):
            res.append(None)
            return None
        v = SInt(I.ctx.fresh_int("version")) if not res or res[-1] is None else (res[-1][0] if I.ctx.flip("same-version-number") else SInt(I.ctx.fresh_int("version")))
        name = SStr(I.ctx.fresh_str("metadata_file"))
        res.append((v, name))
        return (v, name)
    h.reg.contracts["metadata_manager:MetadataManager._current_version_info"] = cvi
    reads = []

    def rmf(I, fv, args, kwargs):
        tok = SObj("TableMetadata", {}, label=f"META#{len(reads)}")
        reads.append((pyops.str_z(args[-1]), tok))
        return tok
    h.reg.contracts["metadata_manager:MetadataManager._read_metadata_file"] = rmf
    # a write of some metadata file through this handle (e.g. a failed commit's) must not influence later reads
    for k in range(2):
        n0 = len(reads)
        out, val = h.run("metadata_manager:MetadataManager.refresh", [mm])
        h.ensure(f"ONE-READ:refresh#{k + 1}-no-raise", out == "ok")
        r = res[-1] if res else None
        if r is None:
            h.ensure(f"ONE-READ:refresh#{k + 1}-None-iff-nothing-resolvable", val is None and len(reads) == n0)
        else:
            h.ensure(f"ONE-READ:refresh#{k + 1}-reads-the-file-resolved-by-this-call",
                     len(reads) == n0 + 1 and val is reads[-1][1] and z3.is_true(z3.simplify(reads[-1][0] == z3.Concat(z3.StringVal("metadata/"), r[1].z))))
        if k == 0:
            h.call(h.I.getattr(mm, "_write_metadata_file"), [SStr(c.fresh_str("other_path")), SObj("TableMetadata", {}, label="written-by-a-failed-commit")]) \
                if False else None


def _replay_refresh(ob):
    return """
import sys, os, tempfile, shutil
from datashard import create_table, load_table
from datashard.data_structures import Schema
import datashard.metadata_manager as mmod
root = tempfile.mkdtemp(prefix="pyvc_replay_")
bad = []
try:
    p = os.path.join(root, "t")
    sch = Schema(schema_id=1, fields=[{"id": 1, "name": "a", "type": "long", "required": False}])
    A = create_table(p, schema=sch); A.append_records([{"a": 1}])
    B = load_table(p)
    real = mmod.MetadataManager._write_hint_at_commit_point
    def fail(self, *a, **k): raise OSError(28, "No space left on device")
    mmod.MetadataManager._write_hint_at_commit_point = fail
    try:
        try: A.append_records([{"a": 100}, {"a": 101}])
        except OSError: pass
    finally:
        mmod.MetadataManager._write_hint_at_commit_point = real
    B.append_records([{"a": 2}])
    want = sorted(r["a"] for r in load_table(p).scan())
    try:
        got = sorted(r["a"] for r in A.scan()); n = A.row_count()
        if got != want or n != len(want): bad.append(("handle A reads a state that was never committed", got, n, "committed", want))
    except Exception as e:
        bad.append(("handle A cannot read after its failed commit and B's commit", repr(e)[:120]))
finally:
    shutil.rmtree(root, ignore_errors=True)
print("replay refresh ->", bad or "ok")
sys.exit(1 if bad else 0)
"""


def h_refresh_exact(h: H):
    """PROPAGATE (refresh itself): the metadata returned is the one read from the file of the RESOLVED version; when that file cannot
    be read or parsed the exception surfaces - refresh never falls back to another (older) version, which would make readers
    and the collector work on stale metadata."""
    c = h.ctx
    st = Store(h)
    st.install(h.reg)
    mm = h.obj("MetadataManager", storage=st.obj, metadata_path="metadata", _lock=TheoryObj("rlock"))
    log = []
    resolvable = c.flip("a-version-is-resolvable")
    ver, name = SInt(c.fresh_int("resolved_version")), SStr(c.fresh_str("resolved_metadata_file"))
    h.reg.contracts["metadata_manager:MetadataManager._current_version_info"] = lambda I, fv, a, k: log.append(("resolve",)) or ((ver, name) if resolvable else None)

    def recover(I, fv, a, k):
        log.append(("recover",))
        return (SInt(I.ctx.fresh_int("older_version")), SStr(I.ctx.fresh_str("older_file"))) if I.ctx.flip("older-version-exists") else None
    h.reg.contracts["metadata_manager:MetadataManager._recover_version_from_files"] = recover
    md = SObj("TableMetadata", {}, label="metadata-of-the-resolved-version")
    damage = {}

    def read_md(I, fv, a, k):
        log.append(("read", a[-1]))
        k2 = I.ctx.choose(3, "metadata-file")
        if k2 == 0 or len([x for x in log if x[0] == "read"]) > 1:
            return md if len([x for x in log if x[0] == "read"]) == 1 else SObj("TableMetadata", {}, label="some-OTHER-version")
        damage["exc"] = SExc(["ValueError", "OSError"][k2 - 1], origin="metadata file unreadable / unparseable", fields={"damage": True})
        raise PyRaise(damage["exc"])
    h.reg.contracts["metadata_manager:MetadataManager._read_metadata_file"] = read_md
    out, val = h.run("metadata_manager:MetadataManager.refresh", [mm])
    reads = [x for x in log if x[0] == "read"]
    if not resolvable:
        h.ensure("PROPAGATE:refresh-returns-None-only-when-no-version-is-resolvable", out == "ok" and val is None and not reads)
        return
    h.ensure("PROPAGATE:refresh-reads-exactly-the-file-of-the-resolved-version",
             len(reads) >= 1 and z3.is_true(z3.simplify(pyops.str_z(reads[0][1]) == z3.Concat(z3.StringVal("metadata/"), name.z))))
    if "exc" in damage:
        h.ensure("PROPAGATE:an-unreadable-current-metadata-file-surfaces(never-an-older-version-instead)",
                 out == "raise" and (val is damage["exc"] or val.cause is damage["exc"]), detail=repr(val))
    else:
        h.ensure("PROPAGATE:refresh-returns-the-metadata-read-from-that-file", out == "ok" and val is md)
    h.ensure("PROPAGATE:refresh-does-not-re-resolve-or-scan-on-its-own", len(reads) == 1 and ("recover",) not in log and log.count(("resolve",)) == 1)


REFRESH_UNITS = [("ONE-READ/MetadataManager.refresh-stateless", h_refresh_stateless, ["metadata_manager:MetadataManager.refresh"]),
                 ("PROPAGATE/MetadataManager.refresh-exact", h_refresh_exact, ["metadata_manager:MetadataManager.refresh"])]
