"""Contracts on the commit path (shared by C01, C03, C04, C08, C10-WRITABLE, C16, C18).

Ghost state of one committer call:   flips    = pointer writes performed by this call (events of T-store on the hint path)
                                     validated = the pointer content at the instant the OCC validation read it
Environments:  SEQ (no other agent)   RG-lock (others never write the pointer while our flock is held)
               RG-any (CAS backends: any other agent may replace the pointer at any action boundary, always through a
               conditional PUT; tags grow with every write and the content is a function of the tag)
"""
from __future__ import annotations

import z3

from pyvc import pyops
from pyvc.ctx import PathEnd, Unsupported
from pyvc.engine import LoopSpec, PyRaise
from pyvc.pyops import PyExc
from pyvc.runner import H, Unit, base_registry, register, set_registry_factory
from pyvc.theories import misc, pybuiltins as pb
from pyvc.theories.store import Store
from pyvc.values import (Builtin, ClassVal, EnumVal, ModuleVal, PDict, PList, SBool, SBytes, SExc, SInt, SObj, SOpt, SStr,
                         TheoryObj, to_z3)

MM = "metadata_manager"
TX = "transaction"
SM = "snapshot_manager"
STR = z3.StringSort()
HINT = "metadata.version-hint.text"
HINTZ = z3.StringVal(HINT)
ENC = z3.Function("utf8.encode", STR, STR)
CONTENT_OF_TAG = z3.Function("ghost.pointer_content_of_tag", z3.IntSort(), STR)

META = {
    "explanation": "Linearisation-style postconditions over ghost history (which pointer content was validated, which was replaced), "
                   "exceptional postconditions on every fault edge, object invariant is_active() => not committed_by_me.",
    "trusted": [
        "T-store action contracts with fault-before edges (fault-after on backends without atomic write failures)",
        "T-lock interface contract; on CAS backends NO exclusion is assumed from the lock (rely RG-any)",
        "RG-any: every agent replaces the pointer only by conditional PUT; each write gets a larger tag; content is a function of the tag",
        "A-uuid: uuid4 values are fresh, so metadata/manifest file names are never reused",
        "threading.RLock makes the region sequential for threads sharing one handle",
    ],
    "assumptions": [],
}


def registry():
    reg = base_registry()
    misc.install_rlock(reg)
    misc.install_regex(reg)
    return reg


for _p in ("C01", "C03", "C04", "C08", "C16", "C18", "C06"):
    set_registry_factory(_p, registry)


def is_hint(p):
    return z3.is_true(z3.simplify(p == HINTZ))


def flips(st: Store):
    return [e for e in st.events if e["op"] in ("write_file", "write_file_cas") and e.get("ok", True) and is_hint(e["path"])]


def mm_object(h: H, st: Store, lock):
    return h.obj("MetadataManager", table_path=h.str("table_path"), storage=st.obj, metadata_path="metadata",
                 current_version=SInt(h.ctx.fresh_int("cur_version_field")), _lock=TheoryObj("rlock"), lock_provider=lock.obj)


# =================================================================================== _write_hint_at_commit_point
def h_write_hint(cas: bool, atomic: bool):
    def harness(h: H):
        c = h.ctx
        st = Store(h, supports_cas=cas, atomic_write_failures=atomic, max_faults=1,
                   fault_classes=["OSError", "OtherException", "KeyboardInterrupt"])
        st.install(h.reg)
        lock = misc.Lock(store=st)
        lock.install(h.reg)
        mm = mm_object(h, st, lock)
        name = h.str("metadata_file")
        etag = None if c.flip("etag-none") else SInt(c.fresh_int("hint_etag"))
        out, val = h.run(f"{MM}:MetadataManager._write_hint_at_commit_point", [mm, name, etag])
        fl = flips(st)
        attempts = [e for e in st.events if e["op"] in ("write_file", "write_file_cas") and is_hint(e["path"])]
        faults = [e for e in st.events if e["op"] == "FAULT"]
        h.ensure("CLASSIFY:at-most-one-pointer-write", len(fl) <= 1 and len(attempts) <= 1)
        for e in fl:
            h.ensure("CLASSIFY:pointer-content=the-metadata-file-name", e["content"] == ENC(name.z))
            h.ensure("CAS-MAP:conditional-write-on-CAS-backends", (e["op"] == "write_file_cas") == cas)
            if cas:
                h.ensure("ETAG-SRC:conditional-on-the-caller's-etag", e["etag"] is etag)
        for e in st.events:
            if e["op"] in ("write_file", "write_file_cas", "delete_file") and not is_hint(e["path"]):
                h.fail("CLASSIFY:touches-only-the-pointer")
        if out == "ok":
            h.ensure("OUTCOME:returns-normally-only-if-the-pointer-was-written", len(fl) == 1 and not faults)
            return
        landed = len(fl) == 1
        if val.cls == "ConcurrentModificationException":
            h.ensure("CLASSIFY:conflict-only-for-a-failed-precondition-and-nothing-written",
                     cas and not landed and isinstance(val.cause, SExc) and val.cause.cls == "CASConflictError")
            h.cover("CLASSIFY:conflict-reachable")
        elif val.cls == "AmbiguousCommitError":
            h.ensure("CLASSIFY:ambiguous-only-where-a-failed-write-may-have-landed", (cas or not atomic) and len(faults) == 1 and faults[0]["cls"] != "KeyboardInterrupt")
            h.cover("CLASSIFY:ambiguous-reachable")
        elif val.cls == "KeyboardInterrupt":
            h.ensure("CLASSIFY:interrupts-propagate-unchanged", bool(val.fields.get("fault")))
        else:
            h.ensure("CLASSIFY:plain-error-only-on-atomic-backends-and-then-nothing-was-written",
                     (not cas) and atomic and not landed and bool(val.fields.get("fault")), detail=repr(val))
            h.cover("CLASSIFY:clean-failure-reachable")
        if landed:
            h.ensure("AMBIG:a-raise-after-the-write-landed-is-reported-as-ambiguous", val.cls in ("AmbiguousCommitError", "KeyboardInterrupt"))
    return harness


# =================================================================================== MetadataManager.commit
def h_mm_commit(env: str, metadata_only_stamp=False):
    """env: 'local' (RG-lock: flock excludes other pointer writers) | 'cas' (RG-any: the lock gives nothing)"""
    cas = env == "cas"

    def harness(h: H):
        c = h.ctx
        g = {"validated_tag": None, "validated_exists": None, "cvi_calls": 0, "rvh_calls": 0, "etag_read_tag": None}

        def env_step(store, I, when):
            """other agents: on CAS backends they may replace the pointer (conditional PUT) at any action boundary."""
            if not cas:
                # RG-lock: while we hold the flock nobody else writes the pointer; without it anything may happen, but every
                # pointer access of commit() lies inside the lock (obligation GUAR-lock below)
                if lock.held:
                    return
            newtag = I.ctx.fresh_int("env_tag")
            newex = I.ctx.fresh_bool("env_ptr_exists")
            oldtag = z3.Select(store.tag, HINTZ)
            changed = I.ctx.fresh_bool("env_flipped")
            # tags only grow; unchanged tag <=> unchanged pointer
            # nobody deletes the pointer: other agents only create it (if absent) or replace it, by conditional PUT
            I.ctx.assume(z3.If(changed, z3.And(newtag > oldtag, newex), z3.And(newtag == oldtag, newex == z3.Select(store.ex, HINTZ))))
            store.tag = z3.Store(store.tag, HINTZ, newtag)
            store.ex = z3.Store(store.ex, HINTZ, newex)
            store.ct = z3.Store(store.ct, HINTZ, CONTENT_OF_TAG(newtag))
            g.setdefault("env_steps", []).append((when, changed))
        st = Store(h, supports_cas=cas, atomic_write_failures=not cas, max_faults=1, fault_classes=["OSError"],
                   fault_ops=["read_file_with_etag"], env_step=env_step)
        h.assume(z3.Select(st.ct, HINTZ) == CONTENT_OF_TAG(z3.Select(st.tag, HINTZ)))
        orig_fresh = st.fresh_etag

        def fresh_etag(I):
            t = orig_fresh(I)
            I.ctx.assume(t > z3.Select(st.tag, HINTZ))
            return t
        st.fresh_etag = fresh_etag
        st.install(h.reg)
        lock = misc.Lock(store=st, is_held_may_be_false=True)
        lock.install(h.reg)
        misc.install_clock(h.reg, c)
        mm = mm_object(h, st, lock)
        base = h.obj("TableMetadata", label="base", table_uuid=h.str("base_uuid"), current_snapshot_id=SOpt(z3.Bool("base_cur_none"), h.int("base_cur")),
                     last_updated_ms=h.int("base_updated_ms"))
        new = h.obj("TableMetadata", label="new", table_uuid=base.fields["table_uuid"], current_snapshot_id=SOpt(z3.Bool("new_cur_none"), h.int("new_cur")),
                    last_updated_ms=h.int("new_updated_ms_in"), metadata_log=PList([]), properties=PDict({}))
        cur = h.obj("TableMetadata", label="current", table_uuid=h.str("cur_uuid"), current_snapshot_id=SOpt(z3.Bool("cur_cur_none"), h.int("cur_cur")),
                    last_updated_ms=h.int("cur_updated_ms"))
        cur_none = z3.Bool("no_current_metadata")

        def hint_accesses(n0):
            return [e for e in st.events[n0:] if e["op"] in ("exists", "read_file", "read_file_with_etag") and is_hint(e["path"])]

        def refresh(I, fv, args, kwargs):
            """tracking wrapper: the REAL body of refresh() is interpreted (down to the storage actions); the pointer state it
            validated is the one seen by its last access to the hint"""
            n0 = len(st.events)
            g["refresh_lock_held"] = lock.held
            r = I.run_function(fv, args, kwargs)
            acc = hint_accesses(n0)
            if acc:
                g["validated_tag"], g["validated_exists"] = acc[-1]["tag"], acc[-1]["ex"]
            g["refresh_result"] = r
            return r
        h.reg.contracts[f"{MM}:MetadataManager.refresh"] = refresh

        def read_meta(I, fv, args, kwargs):
            st.log("read_metadata_file", path=pyops.str_z(args[-1]))
            return cur
        h.reg.contracts[f"{MM}:MetadataManager._read_metadata_file"] = read_meta
        cvi_version = SInt(c.fresh_int("resolved_version"))
        h.assume(cvi_version.z >= 0)

        def cvi(I, fv, args, kwargs):
            """tracking wrapper around the real _current_version_info (hint if usable, else recovery)"""
            g["cvi_calls"] += 1
            r = I.run_function(fv, args, kwargs)
            g["cvi_last"] = r
            if r is None:
                g["cvi_none"] = True
            return r
        h.reg.contracts[f"{MM}:MetadataManager._current_version_info"] = cvi

        def recover(I, fv, args, kwargs):
            st.log("recover_version_from_files")
            if I.ctx.decide(cur_none, "nothing-recoverable"):
                return None
            return (cvi_version, SStr(I.ctx.fresh_str("recovered_name")))
        h.reg.contracts[f"{MM}:MetadataManager._recover_version_from_files"] = recover

        def rvh(I, fv, args, kwargs):
            g["rvh_calls"] += 1
            return I.run_function(fv, args, kwargs)
        h.reg.contracts[f"{MM}:MetadataManager._read_version_hint"] = rvh
        parsed = {}

        def parse(I, fv, args, kwargs):
            parsed["arg"] = args[-1]
            content = pyops.str_z(args[-1])
            PARSE_OK = z3.Function("ghost.hint_parses", STR, z3.BoolSort())
            PV = z3.Function("ghost.hint_version", STR, z3.IntSort())
            PN = z3.Function("ghost.hint_name", STR, STR)
            if not I.ctx.decide(PARSE_OK(content), "hint-parseable"):
                parsed.setdefault("all", []).append(None)
                parsed["r"] = None
                return None
            I.ctx.assume(z3.And(PV(content) >= 0, z3.Not(z3.PrefixOf(z3.StringVal("/"), PN(content)))))
            parsed["r"] = (SInt(PV(content)), SStr(PN(content)))
            parsed.setdefault("all", []).append(parsed["r"])
            return parsed["r"]
        h.reg.contracts[f"{MM}:MetadataManager._parse_hint_content"] = parse
        h.reg.contracts[f"{MM}:MetadataManager._append_metadata_log"] = lambda I, fv, a, k: st.log("append_metadata_log", args=a[1:]) and None
        names = []

        def new_name(I, fv, args, kwargs):
            n = I.ctx.fresh_str("new_metadata_file")
            names.append((args[-1], n))
            return SStr(n)
        h.reg.contracts[f"{MM}:MetadataManager._new_metadata_filename"] = new_name

        def write_meta(I, fv, args, kwargs):
            _s, path, md = args
            st.a_write_file(I, st.obj, [path, SBytes(I.ctx.fresh_str("metadata_json"))], {})
            st.events[-1].update(is_metadata=True, lock_held=lock.held, md=md,
                                 stamp=md.fields.get("last_updated_ms") if isinstance(md, SObj) else None)
            return None
        h.reg.contracts[f"{MM}:MetadataManager._write_metadata_file"] = write_meta
        hintw = {}

        def write_hint(I, fv, args, kwargs):
            _s, mfile, etag = args
            st.step(I, "pointer-write")
            hintw.update(file=mfile, etag=etag, lock_held=lock.held, tag_at_landing=z3.Select(st.tag, HINTZ),
                         exists_at_landing=z3.Select(st.ex, HINTZ), n=len(st.events))
            if cas:
                okc = z3.Not(z3.Select(st.ex, HINTZ)) if etag is None else \
                    z3.And(z3.Select(st.ex, HINTZ), z3.Select(st.tag, HINTZ) == pyops.int_z(I.force(etag)))
                if not I.ctx.decide(okc, "cas-precondition"):
                    raise PyRaise(SExc("ConcurrentModificationException", origin="CAS conflict", fields={"conflict": True}))
            k = I.ctx.choose(3, "hint-write-outcome")
            if k == 1:
                raise PyRaise(SExc("AmbiguousCommitError", origin="ambiguous pointer write", fields={"ambiguous": True}))
            if k == 2 and not cas:
                raise PyRaise(SExc("OSError", origin="clean pointer write failure", fields={"fault": True}))
            st.effect_write(I, HINTZ, SBytes(ENC(pyops.str_z(mfile))))
            st.log("write_file_cas" if cas else "write_file", path=HINTZ, ok=True, content=ENC(pyops.str_z(mfile)), by_me=True)
            return None
        h.reg.contracts[f"{MM}:MetadataManager._write_hint_at_commit_point"] = write_hint
        out, val = h.run(f"{MM}:MetadataManager.commit", [mm, base, new])
        fl = [e for e in st.events if e.get("by_me")]
        metaw = [e for e in st.events if e.get("is_metadata")]
        # ---------------- always
        dels = [e for e in st.events if e["op"] in ("delete_file", "rename", "remove")]
        h.ensure("FRAME:commit-deletes-or-renames-nothing(the-metadata-file-it-wrote-stays:the-pointer-may-name-it-after-an-ambiguous-failure)",
                 not dels, detail="an ambiguous pointer write may have landed: deleting the new metadata file leaves the pointer dangling "
                 "and recovery silently serves the previous version " + repr([e["op"] for e in dels]))
        h.ensure("GUAR-lock:lock-released-on-every-path", not lock.held)
        rel = [e for e in lock.events if e["op"] == "lock.release"]
        acq = [e for e in lock.events if e["op"] == "lock.acquire" and e["ok"]]
        h.ensure("GUAR-lock:release-iff-acquired", len(rel) == len(acq))
        h.ensure("RETRY:at-most-one-pointer-flip-per-call", len(fl) <= 1)
        if fl:
            h.ensure("GUAR-lock:pointer-written-inside-the-lock", hintw.get("lock_held") is True and g.get("refresh_lock_held") is True)
            h.ensure("ORDER:new-metadata-file-written-before-the-pointer", len(metaw) == 1 and metaw[0]["n"] < hintw["n"])
            if metaw and names:
                h.ensure("LIN:pointer-names-the-file-holding-new_metadata",
                         hintw["file"].z.eq(names[0][1]) and metaw[0]["path"] == z3.Concat(z3.StringVal("metadata/"), names[0][1]) and metaw[0]["md"] is new)
        if out == "raise":
            if val.cls != "AmbiguousCommitError":
                h.ensure("NOFLIP:a-non-ambiguous-raise-leaves-the-pointer-unwritten", len(fl) == 0)
            # ACCEPT: a commit is refused only for a reason the caller can act on - the base is not the current version, the lock
            # was lost, the pointer race was lost - or because the environment failed (injected storage / lock fault).  Leftovers
            # of dead writers (orphan metadata files, stale temp files) are never a reason: the table "accepts new commits".
            rr = g.get("refresh_result")
            env_fault = bool(getattr(val, "fields", {}).get("fault") or getattr(val, "fields", {}).get("ambiguous"))
            if val.cls == "ConcurrentModificationException":
                lost_lock = any(e["result"] is False for e in lock.events if e["op"] == "lock.is_held")
                lost_race = bool(val.fields.get("conflict"))
                ne = lambda f: z3.Not(pyops.bool_z(pyops.py_eq(cur.fields[f], base.fields[f])))
                stale = z3.Or(ne("current_snapshot_id"), ne("last_updated_ms")) if rr is cur else z3.BoolVal(False)
                h.ensure("ACCEPT:a-conflict-is-reported-only-for-a-stale-base,a-lost-lock-or-a-lost-pointer-race",
                         z3.BoolVal(True) if (lost_lock or lost_race) else stale,
                         detail="a commit whose base IS the validated current version must go through, whatever else lies in metadata/ " + repr(val))
            elif val.cls == "ValueError" and not env_fault:
                h.ensure("ACCEPT:ValueError-only-for-a-base-of-another-table",
                         z3.Not(pyops.bool_z(pyops.py_eq(cur.fields["table_uuid"], base.fields["table_uuid"]))) if rr is cur else z3.BoolVal(False), detail=repr(val))
            else:
                h.ensure("ACCEPT:any-other-failure-is-an-environment-fault(storage,lock,ambiguous-pointer-write)", env_fault, detail=repr(val))
            return
        # ---------------- acknowledged
        h.ensure("OUTCOME:acknowledged=>flipped-exactly-once", len(fl) == 1)
        h.ensure("OUTCOME:returns-new_metadata", val is new)
        if not fl:
            return
        # OCC validation happened and passed against the resolved current version
        h.ensure("LIN:validation-read-precedes-the-flip", g["validated_tag"] is not None)
        cz = lambda m, f: pyops.bool_z(pyops.py_eq(m.fields[f], base.fields[f]))
        h.ensure("LIN:acknowledged-only-if-base-has-the-stamp-of-the-validated-version",
                 z3.Or(cur_none, z3.And(cz(cur, "table_uuid"), cz(cur, "current_snapshot_id"), cz(cur, "last_updated_ms"))))
        # the pointer that was replaced is the one that was validated
        h.ensure("LIN:the-replaced-pointer-is-the-validated-one(no-write-in-between)",
                 z3.And(hintw["tag_at_landing"] == g["validated_tag"], hintw["exists_at_landing"] == g["validated_exists"]),
                 classes=[("pointer-flipped-between-validation-read-and-etag-read", z3.BoolVal(True))],
                 detail="tag at the instant the conditional write landed == tag at the instant refresh() validated")
        # fence
        held_checks = [e for e in lock.events if e["op"] == "lock.is_held"]
        h.ensure("FENCE:ownership-rechecked-before-the-commit-point", len(held_checks) >= 1 and all(e["result"] for e in held_checks))
        # STAMP: stamps strictly increase along the chain
        stamp_written = metaw[0]["stamp"] if metaw else None
        h.ensure("STAMP:last_updated_ms-strictly-exceeds-the-validated-version's",
                 z3.Or(cur_none, pyops.int_z(stamp_written) > cur.fields["last_updated_ms"].z) if stamp_written is not None else z3.BoolVal(False),
                 classes=[("clock-did-not-advance-between-commits", z3.BoolVal(True))])
        # WRITABLE: version arithmetic
        ver = pyops.int_z(names[0][0]) if names else None
        etag_reads = [e for e in st.events if e["op"] == "read_file_with_etag" and is_hint(e["path"]) and e.get("ok")]
        PARSE_OK = z3.Function("ghost.hint_parses", STR, z3.BoolSort())
        PV = z3.Function("ghost.hint_version", STR, z3.IntSort())
        if ver is None:
            h.fail("WRITABLE:a-version-number-is-assigned")
        else:
            # on EVERY backend: a pointer that parses but names a missing file (stale / damaged) must not be the source of the
            # version number - the next version has to exceed every version that exists (recovery-aware resolver)
            last = g.get("cvi_last")
            h.ensure("WRITABLE:version-base-comes-from-the-recovery-aware-resolver", g["cvi_calls"] >= 1)
            h.ensure("WRITABLE:next-version=resolved-version+1(1-only-if-nothing-is-resolvable)",
                     (ver == pyops.int_z(last[0]) + 1) if isinstance(last, tuple) else ver == 1)
        h.ensure("WRITABLE:in-memory-version-updated", pyops.bool_z(pyops.py_eq(mm.fields["current_version"], names[0][0])) if names else z3.BoolVal(False))
        h.cover("LIN:ack-reachable")
    return harness


def h_mm_commit_fence(h: H):
    """FENCE: is_held() False before the commit point => ConcurrentModificationException and no flip (any backend)."""
    c = h.ctx
    st = Store(h, supports_cas=True, atomic_write_failures=False)
    st.install(h.reg)
    lock = misc.Lock(store=st, can_fail_acquire=False, release_may_raise=False, is_held_may_be_false=False)
    lock.install(h.reg)

    def not_held(I, o, a, k):
        lock.log("is_held", result=False)
        return False
    h.reg.theory_methods[("lock", "is_held")] = not_held
    misc.install_clock(h.reg, c)
    mm = mm_object(h, st, lock)
    base = h.obj("TableMetadata", table_uuid="u", current_snapshot_id=1, last_updated_ms=5)
    new = h.obj("TableMetadata", table_uuid="u", current_snapshot_id=2, last_updated_ms=5, metadata_log=PList([]), properties=PDict({}))
    h.reg.contracts[f"{MM}:MetadataManager.refresh"] = lambda I, fv, a, k: None
    h.reg.contracts[f"{MM}:MetadataManager._current_version_info"] = lambda I, fv, a, k: None
    h.reg.contracts[f"{MM}:MetadataManager._parse_hint_content"] = lambda I, fv, a, k: None
    h.reg.contracts[f"{MM}:MetadataManager._new_metadata_filename"] = lambda I, fv, a, k: "v1-aaaaaaaa.metadata.json"
    h.reg.contracts[f"{MM}:MetadataManager._write_metadata_file"] = lambda I, fv, a, k: None
    wrote = []
    h.reg.contracts[f"{MM}:MetadataManager._write_hint_at_commit_point"] = lambda I, fv, a, k: wrote.append(1)
    out, val = h.run(f"{MM}:MetadataManager.commit", [mm, base, new])
    h.ensure("FENCE:lost-lock=>retryable-conflict-and-no-flip", out == "raise" and val.cls == "ConcurrentModificationException" and not wrote)
    h.ensure("FENCE:lock-released", not lock.held)


def _replay_mm_commit(ob):
    fallback = ob.get("verdict") in ("undecided", "scenario")
    name = ob.get("name", "")
    return f"FALLBACK = {fallback!r}\nOBLIGATION = {name!r}\n" + '''
import sys, os, tempfile, shutil, copy, time
import datashard.metadata_manager as mmod
from datashard.metadata_manager import MetadataManager, ConcurrentModificationException
from datashard.data_structures import TableMetadata
from doubles.s3 import FakeS3
bad = []
# ---- CAS backend with a lock that excludes nobody: a flip between the validation read and the etag read
def s3_backend(s3):
    from datashard.storage_backend import S3StorageBackend
    be = S3StorageBackend.__new__(S3StorageBackend)
    be.bucket, be.prefix, be.s3, be.use_conditional_writes = "bkt", "tbl", s3, True
    be.access_key = be.secret_key = be.endpoint_url = None; be.region = "us-east-1"
    class NoLock:
        def acquire(self): return True
        def release(self): pass
        def is_held(self): return True
    be.create_lock = lambda path, timeout=30.0: NoLock()
    return be
s3 = FakeS3()
A = MetadataManager("tbl", s3_backend(s3)); B = MetadataManager("tbl", s3_backend(s3))
A.initialize_table(TableMetadata(location="tbl"))
def bump(mgr, tag):
    base = mgr.refresh(); new = copy.deepcopy(base); new.properties = dict(new.properties, **{tag: "1"}); new.current_snapshot_id = (base.current_snapshot_id or 0) + 7
    mgr.commit(base, new); return new
baseA = A.refresh(); newA = copy.deepcopy(baseA); newA.properties = {"A": "1"}; newA.current_snapshot_id = 1001
state = {"gets": 0}
def before(op, kw):
    if op == "get_object" and kw["Key"].endswith("metadata.version-hint.text"):
        state["gets"] += 1
        if state["gets"] == 2 and not state.get("done"):
            state["done"] = True; s3.before = None
            try: bump(B, "B")        # B commits between A's validation read and A's etag read
            finally: s3.before = before
s3.before = before
try:
    A.commit(baseA, newA); acked = True
except ConcurrentModificationException:
    acked = False
s3.before = None
final = A.refresh()
if acked and "B" not in final.properties and state.get("done"):
    bad.append("CAS: A was acknowledged although B's acknowledged commit (made after A's validation) was overwritten")
# ---- WRITABLE on CAS: a commit through a stale pointer (names a missing file) must be numbered above every existing version
s3b = FakeS3()
W = MetadataManager("tbl", s3_backend(s3b)); W.initialize_table(TableMetadata(location="tbl"))
for tag in ("c1", "c2", "c3"): bump(W, tag)
hint = [k for k in s3b.objects if k[1].endswith("version-hint.text")][0]
v1 = [k for k in s3b.objects if "/v1-" in k[1]][0]
s3b.objects[hint] = v1[1].split("/")[-1].encode(); s3b._stamp(hint)
del s3b.objects[v1]; s3b.meta.pop(v1, None)
W2 = MetadataManager("tbl", s3_backend(s3b)); bump(W2, "acknowledged")
del s3b.objects[hint]; s3b.meta.pop(hint, None)
if "acknowledged" not in MetadataManager("tbl", s3_backend(s3b)).refresh().properties:
    bad.append("CAS: a commit made through a stale pointer was numbered below an existing version; after the pointer was lost again recovery dropped it")
# ---- same-millisecond metadata-only commits: stale base must not validate
root = tempfile.mkdtemp(prefix="pyvc_replay_")
try:
    from datashard.storage_backend import LocalStorageBackend
    frozen = mmod.datetime
    class FrozenDT(frozen):
        @classmethod
        def now(cls, tz=None): return frozen.fromtimestamp(1_700_000_000.0)
    mmod.datetime = FrozenDT
    try:
        M1 = MetadataManager(os.path.join(root, "t"), LocalStorageBackend(os.path.join(root, "t")))
        M2 = MetadataManager(os.path.join(root, "t"), LocalStorageBackend(os.path.join(root, "t")))
        md0 = TableMetadata(location="t"); M1.initialize_table(md0)
        b1 = M1.refresh(); b2 = M2.refresh()
        n1 = copy.deepcopy(b1); n1.properties = {"first": "1"}; M1.commit(b1, n1)
        n2 = copy.deepcopy(b2); n2.properties = {"second": "1"}
        try:
            M2.commit(b2, n2)
            if "first" not in M2.refresh().properties:
                bad.append("frozen clock: a commit validated against a STALE base (equal stamp) and overwrote an acknowledged commit")
        except ConcurrentModificationException:
            pass
    finally:
        mmod.datetime = frozen
    # ---- ACCEPT: a dead writer's orphan (metadata file of the NEXT version, pointer never advanced) must not block commits
    M3 = MetadataManager(os.path.join(root, "o"), LocalStorageBackend(os.path.join(root, "o")))
    M3.initialize_table(TableMetadata(location="o"))
    b = M3.refresh(); n = copy.deepcopy(b); n.properties = {"one": "1"}; M3.commit(b, n)
    mdir = os.path.join(root, "o", "metadata")
    curf = open(os.path.join(root, "o", "metadata.version-hint.text")).read().strip()
    nextv = int(curf[1:].split("-")[0].split(".")[0]) + 1
    import json as _json
    orphan = _json.load(open(os.path.join(mdir, curf))); orphan.setdefault("properties", {})["orphan"] = "1"
    _json.dump(orphan, open(os.path.join(mdir, "v%d-0a0b0c0d.metadata.json" % nextv), "w"))
    M4 = MetadataManager(os.path.join(root, "o"), LocalStorageBackend(os.path.join(root, "o")))
    seen = M4.refresh()
    if seen is not None and "orphan" in seen.properties:
        bad.append("a reader with a VALID pointer was served a higher-versioned metadata file the pointer never named (uncommitted state visible)")
    b = M4.refresh(); n = copy.deepcopy(b); n.properties = {"two": "1"}
    try:
        M4.commit(b, n)
        if "two" not in MetadataManager(os.path.join(root, "o"), LocalStorageBackend(os.path.join(root, "o"))).refresh().properties:
            bad.append("commit next to an orphan was acknowledged but is not visible")
    except Exception as e:
        bad.append("a commit on the current base was refused because of a dead writer's orphan metadata file: %r" % (e,))
    # ---- FRAME: the pointer write LANDS and then reports an error (ambiguous): the version it names must still be there
    class NonAtomicLocal(LocalStorageBackend):
        atomic_write_failures = False            # like plain S3: a failed write may have landed
    be5 = NonAtomicLocal(os.path.join(root, "amb"))
    M5 = MetadataManager(os.path.join(root, "amb"), be5); M5.initialize_table(TableMetadata(location="amb"))
    b = M5.refresh(); n = copy.deepcopy(b); n.properties = {"landed": "1"}
    real_write = be5.write_file
    def landed_then_error(path, content):
        real_write(path, content)
        if path.endswith("version-hint.text"): raise OSError("acknowledgement lost (injected)")
    be5.write_file = landed_then_error
    try:
        M5.commit(b, n); bad.append("a failing pointer write was reported as success")
    except mmod.AmbiguousCommitError:
        pass
    except Exception as e:
        bad.append("landed-then-failed pointer write not reported as ambiguous: %r" % (e,))
    be5.write_file = real_write
    seen = MetadataManager(os.path.join(root, "amb"), LocalStorageBackend(os.path.join(root, "amb"))).refresh()
    if seen is None or "landed" not in seen.properties:
        bad.append("after an ambiguous pointer write that LANDED, the version the pointer names is gone: readers are served the previous version")
finally:
    shutil.rmtree(root, ignore_errors=True)
print("replay MetadataManager.commit ->", bad or "ok")
sys.exit(1 if bad else 0)
'''


# =================================================================================== transaction object
def tx_object(h: H, st: Store, *, active=True, written=None, markers=None, operations=None):
    fm = h.obj("FileManager", storage=st.obj)
    mm = h.obj("MetadataManager", storage=st.obj, table_path=h.str("table_path"))
    sm = h.obj("SnapshotManager", metadata_manager=mm)
    return h.obj("Transaction", metadata_manager=mm, snapshot_manager=sm, file_manager=fm, table_path=mm.fields["table_path"],
                 _is_active=active, _is_committed=False, _is_rolled_back=False, _commit_point_may_have_passed=False,
                 _operations=operations if operations is not None else PList([]),
                 _written_files=written if written is not None else PList([]),
                 _inflight_markers=markers if markers is not None else PList([]), _lock=TheoryObj("rlock"))


def sym_paths(h: H, label):
    """a list of unknown length of path strings (a transaction's written files / markers)"""
    cur = {}

    def mk(I):
        p = SStr(I.ctx.fresh_str(label))
        I.ctx.assume(z3.Not(z3.PrefixOf(z3.StringVal("/"), p.z)))
        cur["p"] = p
        return p
    it = TheoryObj("symiter", label=label, fields={"mk": mk})
    return it, cur


def h_rollback(delete_files: bool):
    def harness(h: H):
        c = h.ctx
        st = Store(h, fault_classes=["OSError", "OtherException"], max_faults=2)
        st.install(h.reg)
        written, wcur = sym_paths(h, "written_file")
        markers, mcur = sym_paths(h, "marker")
        tx = tx_object(h, st, written=written, markers=markers)
        phase = {"loop": None}

        def on_event(ev):
            if ev["op"] == "delete_file":
                if not delete_files:
                    h.fail("AMBIG:ambiguous-rollback-deletes-nothing")
                    return
                owners = [x.z for x in (wcur.get("p"), mcur.get("p")) if x is not None]   # the elements currently being visited
                h.ensure("DEL-OWN:rollback-deletes-only-files-and-markers-this-transaction-wrote",
                         z3.Or([ev["path"] == o for o in owners]) if owners else z3.BoolVal(False))
        st.on_event = on_event

        def mk_spec(which):
            def havoc(I, env, it):
                phase["loop"] = which
            return LoopSpec(invariant=lambda I, e, it: [], havoc=havoc, name=which, skip=["file_path", "marker", "e"])
        h.reg.loops[f"{TX}:Transaction._rollback"] = {"iter:self._written_files": mk_spec("files"), "iter:self._inflight_markers": mk_spec("markers")}
        args = [tx] if delete_files else [tx, False]
        out, val = h.run(f"{TX}:Transaction._rollback", args)
        h.ensure("USABLE:_rollback-never-raises-on-storage-faults", out == "ok", detail=repr(val) if out != "ok" else "")
        h.ensure("USABLE:transaction-inactive-and-rolled-back-afterwards",
                 tx.fields["_is_active"] is False and tx.fields["_is_rolled_back"] is True)
        if not delete_files:
            h.ensure("AMBIG:ambiguous-rollback-touches-no-storage", len(st.events) == 0)
            h.ensure("AMBIG:ambiguous-rollback-keeps-the-markers(protection)", tx.fields["_inflight_markers"] is markers and tx.fields["_written_files"] is written)
    return harness


def h_rollback_guarded(h: H):
    """_rollback() while the commit-point guard is set never deletes (an interrupt left commit() with unknown outcome)."""
    st = Store(h, fault_classes=["OSError"], max_faults=1)
    st.install(h.reg)
    written, _w = sym_paths(h, "written_file")
    markers, _m = sym_paths(h, "marker")
    tx = tx_object(h, st, written=written, markers=markers)
    tx.fields["_commit_point_may_have_passed"] = True
    h.reg.loops[f"{TX}:Transaction._rollback"] = {"*": LoopSpec(invariant=lambda I, e, it: [], havoc=lambda I, e, it: None, name="any", skip=["file_path", "marker", "e"])}
    out, val = h.run(f"{TX}:Transaction._rollback", [tx])
    h.ensure("ACTIVE-INV:guarded-rollback-deletes-nothing", out == "ok" and not [e for e in st.events if e["op"] == "delete_file"])
    h.ensure("USABLE:guarded-rollback-deactivates", tx.fields["_is_active"] is False and tx.fields["_is_rolled_back"] is True)


def h_finish_committed(h: H):
    st = Store(h, fault_classes=["OSError", "OtherException"], max_faults=2)
    st.install(h.reg)
    markers, mcur = sym_paths(h, "marker")
    written, _w = sym_paths(h, "written_file")
    tx = tx_object(h, st, written=written, markers=markers)

    def on_event(ev):
        if ev["op"] == "delete_file":
            h.ensure("DEL-OWN:after-the-commit-point-only-markers-are-removed", ev["path"] == mcur["p"].z if mcur.get("p") is not None else z3.BoolVal(False))
        elif ev["op"] in ("write_file", "write_file_cas", "read_file", "list_files"):
            h.fail("POST-CP:no-other-storage-action-after-the-commit-point")
    st.on_event = on_event
    h.reg.loops[f"{TX}:Transaction._finish_committed"] = {"*": LoopSpec(invariant=lambda I, e, it: [], havoc=lambda I, e, it: None, name="markers", skip=["marker"])}
    out, val = h.run(f"{TX}:Transaction._finish_committed", [tx])
    h.ensure("POST-CP:_finish_committed-never-raises-on-storage-faults", out == "ok", detail=repr(val) if out != "ok" else "")
    h.ensure("POST-CP:transaction-marked-committed-and-inactive", tx.fields["_is_active"] is False and tx.fields["_is_committed"] is True)


def h_rollback_public_and_exit(h: H):
    c = h.ctx
    st = Store(h)
    st.install(h.reg)
    active, committed, rolled = c.flip("active"), c.flip("committed"), c.flip("rolled")
    tx = tx_object(h, st, active=active)
    tx.fields["_is_committed"], tx.fields["_is_rolled_back"] = committed, rolled
    calls = []

    def rb(I, fv, args, kwargs):
        calls.append(("_rollback", args[1:], dict(kwargs)))
        args[0].fields["_is_active"] = False
        args[0].fields["_is_rolled_back"] = True
        return True
    h.reg.contracts[f"{TX}:Transaction._rollback"] = rb

    def cm(I, fv, args, kwargs):
        calls.append(("commit",))
        return True
    h.reg.contracts[f"{TX}:Transaction.commit"] = cm
    is_act = active and not committed and not rolled
    which = c.choose(3, "entry")
    if which == 0:
        out, val = h.run(f"{TX}:Transaction.rollback", [tx])
        h.ensure("ACTIVE-INV:rollback()-deletes-only-while-the-transaction-is-active",
                 out == "ok" and ((len(calls) == 1 and calls[0][0] == "_rollback" and val is True) if is_act else (not calls and val is False)))
    elif which == 1:
        exc = SExc("KeyboardInterrupt")
        out, val = h.run(f"{TX}:Transaction.__exit__", [tx, ClassVal("KeyboardInterrupt"), exc, None])
        h.ensure("ACTIVE-INV:__exit__-with-an-exception-rolls-back-only-an-active-transaction",
                 out == "ok" and (([c0[0] for c0 in calls] == ["_rollback"]) if is_act else not calls))
    else:
        out, val = h.run(f"{TX}:Transaction.__exit__", [tx, None, None, None])
        h.ensure("USABLE:__exit__-without-exception-commits-an-active-transaction",
                 out == "ok" and (([c0[0] for c0 in calls] == ["commit"]) if is_act else not calls))


def h_begin(h: H):
    c = h.ctx
    st = Store(h)
    active = c.flip("active")
    tx = tx_object(h, st, active=active, written=PList([SStr(c.fresh_str("w"))]), markers=PList([SStr(c.fresh_str("m"))]),
                   operations=PList([PDict({"type": "append_files"})]))
    tx.fields["_is_committed"] = c.flip("committed")
    tx.fields["_is_rolled_back"] = c.flip("rolled")
    out, val = h.run(f"{TX}:Transaction.begin", [tx])
    if active:
        h.ensure("USABLE:begin-on-an-active-transaction-raises", out == "raise" and val.cls == "RuntimeError")
    else:
        f = tx.fields
        h.ensure("USABLE:begin-starts-from-empty-state",
                 out == "ok" and f["_is_active"] is True and f["_is_committed"] is False and f["_is_rolled_back"] is False and
                 isinstance(f["_operations"], PList) and not f["_operations"].items and not f["_written_files"].items and not f["_inflight_markers"].items)


# =================================================================================== Transaction.commit
def h_tx_commit(kind: str, async_edges: bool):
    """kind: 'file-ops' (appends/deletes -> _commit_file_ops) | 'metadata-only' (expire) | 'empty'"""
    def harness(h: H):
        c = h.ctx
        st = Store(h)
        st.install(h.reg)
        misc.install_clock(h.reg, c)
        if kind == "file-ops":
            ops = PList([PDict({"type": "append_files", "files": PList([SObj("DataFile", {"file_path": SStr(c.fresh_str("f"))})])}),
                         PDict({"type": "delete_files", "file_paths": PList([SStr(c.fresh_str("d"))])})][: 1 + c.choose(2, "n-ops")])
        elif kind == "metadata-only":
            ops = PList([PDict({"type": "expire_snapshots", "older_than_ms": SInt(c.fresh_int("cutoff"))})])
        else:
            ops = PList([])
        written, _wc = sym_paths(h, "written_file")
        markers, _mc = sym_paths(h, "marker")
        tx = tx_object(h, st, operations=ops, written=written, markers=markers)
        g = {"committed": False, "ambiguous": False, "rollbacks": [], "finishes": 0, "commit_calls": 0, "bases": [], "refreshes": [],
             "async": 0, "after_cp_calls": []}

        def on_event(ev):
            # g2 (C06): commit() releases markers / files only through _finish_committed (after the commit point) or _rollback;
            # in particular a conflict retry keeps every marker (the data files stay in flight across attempts)
            if ev["op"] in ("delete_file", "write_file", "rename"):
                h.fail("GUAR-tx:g2:commit()-touches-storage-only-through-_commit_file_ops/_finish_committed/_rollback",
                       detail=f"{ev['op']} performed by commit() itself (markers and written files must survive conflict retries)")
        st.on_event = on_event

        def kept():
            return tx.fields.get("_inflight_markers") is markers and tx.fields.get("_written_files") is written \
                and not markers.fields.get("appended") and not written.fields.get("appended") \
                and not markers.fields.get("removed_some") and not written.fields.get("removed_some")
        FAULT = SExc("OSError", origin="storage fault", fields={"fault": True})

        def refresh(I, fv, args, kwargs):
            if g["committed"] or g["ambiguous"]:
                g["after_cp_calls"].append("refresh")
            k = I.ctx.choose(3, "refresh-outcome")
            if k == 1:
                raise PyRaise(FAULT)
            if k == 2:
                g["refreshes"].append(None)
                return None
            b = SObj("TableMetadata", {"last_sequence_number": SInt(I.ctx.fresh_int("lsn"))}, label=f"base{len(g['refreshes'])}")
            g["refreshes"].append(b)
            return b
        h.reg.contracts[f"{MM}:MetadataManager.refresh"] = refresh

        def commit_point(name):
            def contract(I, fv, args, kwargs):
                if g["committed"] or g["ambiguous"]:
                    g["after_cp_calls"].append(name)
                g["commit_calls"] += 1
                g["bases"].append(args[1])
                k = I.ctx.choose(4, f"{name}-outcome")
                if k == 0:
                    g["successes"] = g.get("successes", 0) + 1
                    g["committed"] = True
                    return None
                if k == 1:
                    raise PyRaise(SExc("ConcurrentModificationException", origin=f"{name}: conflict", fields={"conflict": True}))
                if k == 2:
                    g["ambiguous"] = True
                    raise PyRaise(SExc("AmbiguousCommitError", origin=f"{name}: ambiguous", fields={"ambiguous": True}))
                raise PyRaise(SExc(["OSError", "RuntimeError"][I.ctx.choose(2, "exc")], origin=f"{name}: pre-commit failure", fields={"fault": True}))
            return contract
        h.reg.contracts[f"{TX}:Transaction._commit_file_ops"] = commit_point("_commit_file_ops")
        h.reg.contracts[f"{MM}:MetadataManager.commit"] = commit_point("MetadataManager.commit")
        h.reg.contracts[f"{TX}:Transaction._make_expire_mutator"] = lambda I, fv, a, k: TheoryObj("mutator", fields={"cutoff": a[-1]})
        h.reg.theory_methods[("mutator", "__call__")] = lambda I, o, a, k: None
        h.reg.contracts[f"{TX}:Transaction._deep_copy_metadata"] = lambda I, fv, a, k: SObj("TableMetadata", {}, label="copy")

        def rb(I, fv, args, kwargs):
            delete = kwargs.get("delete_files", args[1] if len(args) > 1 else True)
            if delete is not False and args[0].fields.get("_commit_point_may_have_passed") is True:
                delete = False   # contract of _rollback (unit DEL-OWN/_rollback-guarded): the guard turns deletion off
            g["rollbacks"].append(delete)
            if delete is not False:
                h.ensure("DEL-OWN:rollback-that-deletes-written-files-only-before-the-commit-point",
                         not g["committed"] and not g["ambiguous"],
                         detail="_rollback(delete_files=True) after the pointer may have been flipped deletes committed data")
            args[0].fields["_is_active"] = False
            args[0].fields["_is_rolled_back"] = True
            return True
        h.reg.contracts[f"{TX}:Transaction._rollback"] = rb

        def fin(I, fv, args, kwargs):
            g["finishes"] += 1
            args[0].fields["_is_active"] = False
            args[0].fields["_is_committed"] = True
            return None
        h.reg.contracts[f"{TX}:Transaction._finish_committed"] = fin

        def inv(I, env, it):
            ok, rc = env.lookup("retry_count")
            return [("RETRY:no-flip-carried-into-another-attempt", z3.BoolVal(not g["committed"] and not g["ambiguous"] and not g["rollbacks"])),
                    ("GUAR-tx:g2:markers-and-written-files-are-carried-unchanged-into-every-attempt", z3.BoolVal(kept())),
                    ("ACTIVE-INV:the-commit-point-guard-is-armed-whenever-an-attempt-starts(also-after-a-conflict-retry)",
                     z3.BoolVal(tx.fields.get("_commit_point_may_have_passed") is True)),
                    ("RETRY:retry_count-in-range", z3.And(pyops.int_z(rc) >= 0, pyops.int_z(rc) <= 50))]

        def havoc(I, env, it):
            g["refreshes"] = []
            g["bases"] = []
        h.reg.loops[f"{TX}:Transaction.commit"] = {"iter:retry_count < max_retries": LoopSpec(invariant=inv, havoc=havoc, name="retry")}
        if async_edges:
            import ast as _ast
            mi, fn = h.repo.function(f"{TX}:Transaction.commit")
            own = set(id(n) for n in _ast.walk(fn) if isinstance(n, _ast.stmt))

            def hook(I, node, env):
                if id(node) in own and g["async"] == 0 and I.cur_fn and I.cur_fn[-1] == f"{TX}:Transaction.commit" and I.ctx.flip("async"):
                    g["async"] = 1
                    g["async_after_cp"] = g["committed"] or g["ambiguous"]
                    raise PyRaise(SExc("KeyboardInterrupt", origin=f"async interrupt before line {node.lineno}", fields={"async": True}))
            h.reg.stmt_hook = hook
        out, val = h.run(f"{TX}:Transaction.commit", [tx])
        f = tx.fields
        active_now = pyops._conj([pyops.bool_z(pyops.truth(f["_is_active"])), z3.Not(pyops.bool_z(pyops.truth(f["_is_committed"]))),
                                  z3.Not(pyops.bool_z(pyops.truth(f["_is_rolled_back"])))])
        active_now = z3.simplify(pyops.bool_z(active_now))
        guard = f.get("_commit_point_may_have_passed", False)
        would_delete = z3.And(active_now, z3.Not(pyops.bool_z(pyops.truth(guard))))
        # ---- object invariant at EVERY exit: a later rollback()/__exit__ deletes written files only if the commit point was not passed
        h.ensure("ACTIVE-INV:leaving-commit()-active=>the-pointer-was-not-(possibly)-flipped",
                 z3.Implies(would_delete, z3.BoolVal(not g["committed"] and not g["ambiguous"])),
                 classes=[("interrupt-between-the-commit-point-and-_finish_committed", z3.BoolVal(bool(g.get("async_after_cp"))))],
                 detail="__exit__/rollback() delete the written files exactly when is_active()")
        h.ensure("POST-CP:nothing-fallible-after-the-commit-point", not g["after_cp_calls"], detail=str(g["after_cp_calls"]))
        h.ensure("ATOMIC-VIS:all-operations-of-the-transaction-go-into-ONE-commit(one-pointer-flip)", g.get("successes", 0) <= 1 and
                 (g["commit_calls"] <= 1 or not g["committed"] or g.get("successes", 0) == 1))
        h.ensure("RETRY:at-most-one-successful-commit-per-call", g["finishes"] <= 1 and (not g["committed"] or g["commit_calls"] >= 1))
        for b in g["bases"][-1:]:
            h.ensure("DERIVE:commit-uses-the-base-read-in-the-same-attempt", g["refreshes"] and b is g["refreshes"][-1])
        if out == "ok":
            h.ensure("OUTCOME:True=>committed-or-nothing-to-commit", val is True and (g["committed"] or kind == "empty") and not g["ambiguous"])
            h.ensure("OUTCOME:success-finishes-exactly-once-and-never-rolls-back", g["finishes"] == 1 and not g["rollbacks"])
            return
        if val.fields.get("async"):
            if kind != "empty":
                h.cover("ASYNC:interrupt-after-commit-point", z3.BoolVal(bool(g.get("async_after_cp"))))
            return
        if val.cls == "AmbiguousCommitError":
            h.ensure("AMBIG:ambiguous=>files-kept", g["rollbacks"] == [False])
            return
        h.ensure("OUTCOME:a-storage/conflict-raise=>not-committed", not g["committed"] and not g["ambiguous"], detail=repr(val))
        h.ensure("USABLE:failed-commit-is-rolled-back", g["rollbacks"] == [True] and not g["finishes"])
    return harness


def _replay_tx(ob):
    fallback = ob.get("verdict") in ("undecided", "scenario")
    return f"FALLBACK = {fallback!r}\n" + '''
import sys, os, tempfile, shutil
from datashard import create_table, load_table
from datashard.data_structures import Schema
import datashard.metadata_manager as mmod
root = tempfile.mkdtemp(prefix="pyvc_replay_")
bad = []
sch = Schema(schema_id=1, fields=[{"id": 1, "name": "a", "type": "long", "required": False}])
def rows(p): return sorted(r["a"] for r in load_table(p).scan())
try:
    # (1) asynchronous interrupt right after the commit point, context-manager style
    p = os.path.join(root, "t1"); t = create_table(p, schema=sch); t.append_records([{"a": 1}])
    real = mmod.MetadataManager._write_hint_at_commit_point
    def flip_then_interrupt(self, *a, **k):
        real(self, *a, **k)
        raise KeyboardInterrupt()
    mmod.MetadataManager._write_hint_at_commit_point = flip_then_interrupt
    try:
        try:
            t.append_records([{"a": 2}])
        except KeyboardInterrupt:
            pass
    finally:
        mmod.MetadataManager._write_hint_at_commit_point = real
    try:
        r = rows(p)
        if r not in ([1], [1, 2]): bad.append(("interrupt after flip: unexpected rows", r))
    except Exception as e:
        bad.append(("interrupt after the pointer flip: the committed snapshot's data files were deleted by the context-manager rollback", repr(e)[:120]))
    # (1b) the same interrupt on the RETRY after a clean conflict (the guard has to be re-armed for every attempt)
    p = os.path.join(root, "t1b"); t = create_table(p, schema=sch); t.append_records([{"a": 1}])
    calls = {"n": 0}
    def conflict_then_flip_interrupt(self, *a, **k):
        calls["n"] += 1
        if calls["n"] == 1:
            raise mmod.ConcurrentModificationException("lost the race (injected)")
        real(self, *a, **k)
        raise KeyboardInterrupt()
    mmod.MetadataManager._write_hint_at_commit_point = conflict_then_flip_interrupt
    try:
        try:
            t.append_records([{"a": 2}])
        except KeyboardInterrupt:
            pass
    finally:
        mmod.MetadataManager._write_hint_at_commit_point = real
    try:
        r = rows(p)
        if r not in ([1], [1, 2]): bad.append(("interrupt after flip on a retry: unexpected rows", r))
    except Exception as e:
        bad.append(("interrupt after the pointer flip on a RETRY: the committed snapshot's data files were deleted by the rollback", repr(e)[:120]))
    # (2) a clean pointer-write failure leaves the pre-state and removes the transaction's files
    p = os.path.join(root, "t2"); t = create_table(p, schema=sch); t.append_records([{"a": 1}])
    before = set(t.storage.list_files("data"))
    def fail_before(self, *a, **k): raise OSError("disk full")
    mmod.MetadataManager._write_hint_at_commit_point = fail_before
    try:
        try: t.append_records([{"a": 2}]); bad.append("failed pointer write reported success")
        except OSError: pass
    finally:
        mmod.MetadataManager._write_hint_at_commit_point = real
    if rows(p) != [1]: bad.append(("clean failure changed the table", rows(p)))
    if set(t.storage.list_files("data")) != before: bad.append("clean failure left uncommitted data files behind")
    t.append_records([{"a": 3}])
    if rows(p) != [1, 3]: bad.append("table not writable after a failed commit")
    # (3) ambiguous failure: files must be kept
    p = os.path.join(root, "t3"); t = create_table(p, schema=sch); t.append_records([{"a": 1}])
    def ambiguous(self, *a, **k):
        real(self, *a, **k); raise mmod.AmbiguousCommitError("maybe")
    mmod.MetadataManager._write_hint_at_commit_point = ambiguous
    try:
        try: t.append_records([{"a": 2}])
        except mmod.AmbiguousCommitError: pass
    finally:
        mmod.MetadataManager._write_hint_at_commit_point = real
    try:
        if rows(p) != [1, 2]: bad.append(("ambiguous commit that landed lost its rows", rows(p)))
    except Exception as e:
        bad.append(("ambiguous commit: files deleted", repr(e)[:100]))
    # (4) an I/O error while removing the in-flight markers AFTER the pointer flip: the commit is done - it must not raise, let
    #     alone roll back the files the new snapshot references
    p = os.path.join(root, "t4"); t = create_table(p, schema=sch); t.append_records([{"a": 1}])
    real_delete = t.storage.delete_file
    hit = {"n": 0}
    def failing_marker_delete(path):
        if path.endswith(".inflight") and hit["n"] == 0:
            hit["n"] += 1; raise OSError(5, "Input/output error (injected)")
        return real_delete(path)
    t.storage.delete_file = failing_marker_delete
    try:
        try:
            t.append_records([{"a": 2}])
        except Exception as e:
            bad.append(("a committed transaction raised because marker cleanup failed", repr(e)[:100]))
    finally:
        t.storage.delete_file = real_delete
    try:
        if rows(p) != [1, 2]: bad.append(("marker-cleanup failure after the flip changed the table", rows(p)))
    except Exception as e:
        bad.append(("marker-cleanup failure after the flip: committed data files were deleted", repr(e)[:100]))
finally:
    shutil.rmtree(root, ignore_errors=True)
print("replay transaction commit ->", bad or "ok")
sys.exit(1 if bad else 0)
'''


# =================================================================================== _commit_file_ops
FMOD = "file_manager"


def h_commit_file_ops(mode: str):
    """mode: 'append' | 'delete' | 'both'"""
    def harness(h: H):
        from pyvc import acc as _acc
        _acc.install(h.reg)
        c = h.ctx
        st = Store(h)
        st.install(h.reg)
        h.reg.stale_state.add("Transaction")   # _commit_file_ops runs once per attempt on the same object
        misc.install_uuid(h.reg, c)
        written0, _wc0 = sym_paths(h, "written_file")
        tx = tx_object(h, st, written=written0)
        base_cur = SOpt(c.fresh_bool("base_cur_none"), SInt(z3.Int("base_current_snapshot_id")))
        base_lsn = h.int("base_last_sequence_number")
        cur_snap = SObj("Snapshot", {"snapshot_id": base_cur.val, "manifest_list": SStr(z3.String("base_manifest_list"))}, label="base-current")
        dangling = c.fresh_bool("dangling")

        def mk_snap(I):
            if I.ctx.flip("is-current"):
                I.ctx.assume(z3.And(z3.Not(dangling), z3.Not(base_cur.isnone)))
                return cur_snap
            o = SObj("Snapshot", {"snapshot_id": SInt(I.ctx.fresh_int("other_id")), "manifest_list": SStr(I.ctx.fresh_str("other_ml"))})
            I.ctx.assume(z3.Or(base_cur.isnone, o.fields["snapshot_id"].z != base_cur.val.z))
            return o
        base = h.obj("TableMetadata", label="base", current_snapshot_id=base_cur, last_sequence_number=base_lsn,
                     snapshots=TheoryObj("symiter", fields={"mk": mk_snap}))
        g = {"list_reads": [], "man_reads": [], "new_manifests": [], "list_writes": [], "snap_calls": [], "order": [], "final": _acc.new_acc("final_manifests")}
        g["final"].fields["mk_earlier"] = lambda I2: SObj("ManifestFile", {"manifest_path": SStr(I2.ctx.fresh_str("some_manifest_of_the_list")), "partition_spec_id": 0}, label="some-manifest-of-the-new-list")
        w_orig = {"added_snapshot_id": SOpt(z3.Bool("witness_file_added_sid_none"), SInt(z3.Int("witness_file_added_sid"))),
                  "sequence_number": SOpt(z3.Bool("witness_file_seq_none"), SInt(z3.Int("witness_file_seq"))),
                  "checksum": SOpt(z3.Bool("witness_file_checksum_none"), SStr(z3.String("witness_file_checksum"))),
                  "record_count": SInt(z3.Int("witness_file_record_count")),
                  "file_size_in_bytes": SInt(z3.Int("witness_file_size"))}
        w_file = SObj("DataFile", dict(w_orig, file_path=SStr(z3.String("witness_file_path"))), label="witness-file")
        w_in_manifest = z3.Bool("witness_file_in_manifest")
        cur = {}

        from contracts.readpath import install_count_contracts, expectation_passed
        install_count_contracts(h, g)

        def read_list(I, fv, args, kwargs):
            g["list_reads"].append(pyops.str_z(args[1]))
            h.ensure("COUNT-CHECK:base-manifest-list-read-with-the-manifest-count-the-base-snapshot-records",
                     expectation_passed(g, "manifests", cur_snap, kwargs, "expected_manifests"))
            if I.ctx.flip("list-read-fails"):
                raise PyRaise(SExc("ValueError", origin="read_manifest_list_file fails", fields={"fault": True}))

            def mk(I2):
                m = SObj("ManifestFile", {"manifest_path": SStr(I2.ctx.fresh_str("mp")), "partition_spec_id": SInt(I2.ctx.fresh_int("spec"))}, label="existing-manifest")
                cur["manifest"] = m
                return m
            ex = TheoryObj("symiter", label="EXISTING-MANIFESTS", fields={"mk": mk})
            g["existing"] = ex
            return ex
        h.reg.contracts[f"{FMOD}:FileManager.read_manifest_list_file"] = read_list

        def read_manifest(I, fv, args, kwargs):
            g["man_reads"].append(pyops.str_z(args[1]))
            h.ensure("COUNT-CHECK:base-manifest-read-with-the-entry-count-its-list-entry-records",
                     expectation_passed(g, "entries", cur.get("manifest"), kwargs, "expected_entries"))
            if I.ctx.flip("manifest-read-fails"):
                raise PyRaise(SExc("OSError", origin="read_manifest_file fails", fields={"fault": True}))

            def mk(I2):
                if I2.ctx.flip("is-witness-file"):
                    I2.ctx.assume(w_in_manifest)
                    return w_file
                return SObj("DataFile", {"file_path": SStr(I2.ctx.fresh_str("fp"))})
            files = TheoryObj("symiter", label="FILES-OF-MANIFEST", fields={"mk": mk, "witnesses": [(w_file, w_in_manifest)]})
            cur["files"] = files
            return files
        h.reg.contracts[f"{FMOD}:FileManager.read_manifest_file"] = read_manifest

        def create_manifest(I, fv, args, kwargs):
            m = SObj("ManifestFile", {"manifest_path": SStr(I.ctx.fresh_str("new_manifest_path")), "partition_spec_id": 0}, label=f"new-manifest#{len(g['new_manifests'])}")
            g["new_manifests"].append({"obj": m, "args": args[1:], "kw": dict(kwargs)})
            g["order"].append("manifest")
            return m
        h.reg.contracts[f"{FMOD}:FileManager.create_manifest_file"] = create_manifest

        def create_list(I, fv, args, kwargs):
            g["list_writes"].append({"args": args[1:], "kw": dict(kwargs)})
            g["order"].append("list")
            lp = SStr(I.ctx.fresh_str("new_list_path"))
            g.setdefault("new_list_paths", []).append(lp)
            return lp
        h.reg.contracts[f"{FMOD}:FileManager.create_manifest_list_file"] = create_list
        h.reg.contracts[f"{FMOD}:FileManager.validate_data_files"] = lambda I, fv, a, k: g["order"].append("validate") or True

        def create_snapshot(I, fv, args, kwargs):
            g["snap_calls"].append(dict(kwargs))
            g["order"].append("snapshot")
            return SObj("Snapshot", {})
        h.reg.contracts[f"{SM}:SnapshotManager.create_snapshot"] = create_snapshot
        h.reg.contracts[f"{MM}:MetadataManager.refresh"] = lambda I, fv, a, k: SObj("TableMetadata", {
            "current_snapshot_id": base_cur, "last_sequence_number": SInt(I.ctx.fresh_int("other_lsn"))}, label="ANOTHER-read-of-the-metadata")
        appended = TheoryObj("symiter", label="APPEND-FILES", fields={"mk": lambda I: SObj("DataFile", {"file_path": SStr(I.ctx.fresh_str("af"))})})
        deleted = None
        if mode in ("delete", "both"):
            from pyvc.values import SSetZ
            deleted = SSetZ("str", z3.Const("deleted_paths", z3.SetSort(STR)))
            h.assume(deleted.z != z3.EmptySet(STR))
        else:
            from pyvc.values import PSet
            deleted = PSet([])
        if mode == "delete":
            appended = PList([])
        else:
            h.assume(h.I.symiter_nonempty(appended))
        mutator = TheoryObj("mutator") if c.flip("has-mutator") else None

        def inv_find(I, env, it):
            return []

        def havoc_find(I, env, it):
            env.vars["base_snapshot"] = None

        def exit_find(I, env, it):
            I.ctx.assume(z3.Or(dangling, base_cur.isnone), "rule ALL-VISITED")

        def inv_manifests(I, env, it):
            res = []
            if it.get("after_body"):
                m = cur["manifest"]
                adds = g["final"].fields["added"]
                files = cur.get("files")
                res.append(("DELETE-EXACT:each-base-manifest-read-once", z3.BoolVal(len(g["man_reads"]) == 1)))
                if files is not None:
                    surv = cur.get("survivors")
                    # reused | rewritten | dropped
                    if len(adds) == 1 and adds[0] is m:
                        res.append(("DELETE-EXACT:manifest-reused-only-if-no-file-of-it-is-deleted", z3.BoolVal(True)))
                    elif len(adds) == 1:
                        nm = [x for x in g["new_manifests"] if x["obj"] is adds[0]]
                        ok = len(nm) == 1 and len(I.iter_concrete(nm[0]["args"][0])) == 0 and nm[0]["kw"].get("existing_files") is not None
                        res.append(("DELETE-EXACT:rewritten-manifest-carries-survivors-as-EXISTING(no-ADDED-entries)", z3.BoolVal(bool(ok))))
                        if ok:
                            ef = nm[0]["kw"]["existing_files"]
                            wit = ef.fields.get("witnesses", []) if isinstance(ef, TheoryObj) else []
                            wz = w_file.fields["file_path"].z
                            from pyvc.theories import pybuiltins as _pb
                            keep = [m_ for (w, m_) in wit if w is w_file]
                            stripped = z3.Function("str.lstrip[2f]", STR, STR)(wz)
                            spec = z3.And(w_in_manifest, z3.Not(z3.IsMember(wz, deleted.z)), z3.Not(z3.IsMember(stripped, deleted.z)))
                            if not keep:    # a comprehension rebuilt the survivors: the entry derived from the witness carries its condition
                                keep = [m_ for (w, m_) in wit if isinstance(w, SObj) and w.cls == "DataFile"][:1]
                            res.append(("DELETE-EXACT:a-file-survives-iff-neither-spelling-of-its-path-is-named",
                                        (keep[0] == spec) if keep else z3.BoolVal(False)))
                            _eq = lambda a, b: z3.BoolVal(True) if a is b else pyops.bool_z(pyops.py_eq(a, b))
                            # the object handed over for the witness: the witness itself, or (comprehension) the object built from it
                            cand = w_file if any(w is w_file for (w, m_) in wit) else next((w for (w, m_) in wit if isinstance(w, SObj) and w.cls == "DataFile"), None)
                            cf = cand.fields if cand is not None else {}
                            res.append(("CARRY:survivors-are-handed-to-the-rewrite-with-the-adding-snapshot-and-sequence-number-they-were-read-with",
                                        z3.Implies(spec, z3.And(_eq(cf.get("added_snapshot_id"), w_orig["added_snapshot_id"]),
                                                                _eq(cf.get("sequence_number"), w_orig["sequence_number"])))))
                            res.append(("CARRY:survivors-keep-their-recorded-checksum,row-count-and-size(readers-verify-against-them)",
                                        z3.Implies(spec, z3.And(*[_eq(cf.get(k_), w_orig[k_]) for k_ in ("checksum", "record_count", "file_size_in_bytes")]))))
                            res.append(("CARRY:rewrite-stamped-with-this-commit's-snapshot-id-and-sequence-number",
                                        z3.BoolVal(nm[0]["args"][2] is cur["snapshot_id"] and nm[0]["kw"].get("sequence_number") is cur["seq"])))
                            res.append(("GUAR-tx:rewritten-manifest-registered-in-flight-before-written",
                                        z3.BoolVal(_is_register_hook(nm[0]["kw"].get("pre_write_hook"), tx))))
                    else:
                        res.append(("DELETE-EXACT:at-most-one-manifest-per-base-manifest", z3.BoolVal(len(adds) == 0)))
            return res

        def havoc_manifests(I, env, it):
            env.vars["final_manifests"] = g["final"]
            _acc.reset(g["final"])
            g["man_reads"] = []
            del g["new_manifests"][:]
            ok, sid = env.lookup("snapshot_id")
            ok2, sq = env.lookup("sequence_number")
            cur["snapshot_id"], cur["seq"] = sid, sq
        h.reg.loops[f"{TX}:Transaction._commit_file_ops"] = {
            "iter:base_metadata.snapshots": LoopSpec(invariant=inv_find, havoc=havoc_find, on_exit=exit_find, name="find-base", skip=["base_snapshot", "s"]),
            "iter:existing_manifests": LoopSpec(invariant=inv_manifests, havoc=havoc_manifests, name="base-manifests",
                                               skip=["final_manifests", "manifest_path", "data_files", "surviving_files", "new_manifest", "manifest"])}
        h.reg.builtins["__list_of_symiter__"] = None
        out, val = h.run(f"{TX}:Transaction._commit_file_ops", [tx, base, appended, deleted, mutator])
        if out == "raise":
            h.ensure("DERIVE:raises-RuntimeError-only-when-the-base-file-set-is-unknown",
                     val.cls == "RuntimeError" and (len(g["snap_calls"]) == 0), detail=repr(val))
            h.ensure("NOFLIP:no-snapshot-committed-on-failure", len(g["snap_calls"]) == 0)
            return
        h.ensure("DERIVE:exactly-one-snapshot-committed-last", len(g["snap_calls"]) == 1 and g["order"][-1] == "snapshot")
        if len(g["snap_calls"]) != 1:
            return
        kw = g["snap_calls"][0]
        # OWN-REGISTER: whatever this commit adds to the transaction's list of files to delete on rollback is a file THIS attempt
        # created (a new manifest or the new list) - never a manifest carried over from the base, which earlier snapshots share
        reg_now = list(written0.fields.get("appended", [])) if tx.fields.get("_written_files") is written0 else None
        own_paths = [pyops.str_z(nm["obj"].fields["manifest_path"]) for nm in g["new_manifests"]] + \
                    [pyops.str_z(x) for x in g.get("new_list_paths", [])]
        if reg_now is None:
            h.fail("OWN-REGISTER:the-transaction's-written-file-list-is-only-appended-to")
        else:
            for item in reg_now:
                iz = pyops.str_z(item) if pyops.is_strlike(item) else None
                h.ensure("OWN-REGISTER:only-files-created-by-this-attempt-are-registered-for-deletion-on-rollback",
                         z3.Or(*[z3.Or(iz == o, z3.Concat(z3.StringVal("/"), iz) == o, iz == z3.Concat(z3.StringVal("/"), o)) for o in own_paths]) if (iz is not None and own_paths) else z3.BoolVal(False),
                         detail="a carried-over manifest is shared with every earlier snapshot: deleting it on rollback makes them unreadable")
        # COUNT-RECORD: the new snapshot records how many manifests its list holds (readers and GC check the list against it)
        summ = kw.get("summary")
        listed = g["list_writes"][0]["args"][0] if g["list_writes"] else None      # the very list handed to create_manifest_list_file
        n_final = None
        if isinstance(listed, TheoryObj) and listed.theory == "acc":
            n_final = listed.fields.get("len_z")
        elif isinstance(listed, TheoryObj) and listed.theory == "symiter":
            n_final = listed.fields.get("len")
        elif isinstance(listed, PList):
            n_final = z3.IntVal(len(listed.items))
        h.ensure("COUNT-RECORD:snapshot-summary-records-the-number-of-manifests-in-its-list",
                 (isinstance(summ, PDict) and "manifest-count" in summ.d and n_final is not None and
                  pyops.str_z(summ.d["manifest-count"]) == pyops.int_to_str_z(n_final)) if isinstance(summ, PDict) and n_final is not None else z3.BoolVal(False))
        h.ensure("DERIVE:snapshot-committed-against-the-SAME-base-object", kw.get("base_metadata") is base)
        h.ensure("DERIVE:parent=base.current(-1-if-none)",
                 pyops.bool_z(pyops.py_eq(kw.get("parent_snapshot_id"), base_cur)) if True else True,
                 detail="parent_snapshot_id is base.current_snapshot_id, or -1 when that is None") if False else None
        par = kw.get("parent_snapshot_id")
        h.ensure("DERIVE:parent=base.current(or -1)", z3.If(base_cur.isnone, pyops.int_z(h.I.force(par)) == -1 if not isinstance(par, SOpt) else z3.BoolVal(False),
                                                            pyops.bool_z(pyops.py_eq(par, base_cur.val))) if not isinstance(par, SOpt) else pyops.bool_z(pyops.py_eq(par, base_cur)))
        _sq = kw.get("sequence_number")
        h.ensure("DERIVE:sequence-number=base.last+1",
                 z3.And(z3.Not(_sq.isnone), pyops.int_z(_sq.val) == base_lsn.z + 1) if isinstance(_sq, SOpt)
                 else (pyops.int_z(_sq) == base_lsn.z + 1 if _sq is not None else z3.BoolVal(False)))
        sid = kw.get("snapshot_id")
        h.ensure("DERIVE:fresh-63-bit-snapshot-id", isinstance(sid, SInt))
        h.ensure("DERIVE:mutator-passed-through", kw.get("metadata_mutator") is mutator)
        h.ensure("DERIVE:operation-label", kw.get("operation") == ("append" if mode != "delete" else "delete"))
        h.ensure("DERIVE:one-manifest-list-written-with-the-same-snapshot-id",
                 len(g["list_writes"]) == 1 and g["list_writes"][0]["args"][1] is sid)
        if g["list_writes"]:
            lw = g["list_writes"][0]
            h.ensure("GUAR-tx:manifest-list-registered-in-flight-before-written", _is_register_hook(lw["kw"].get("pre_write_hook"), tx))
            h.ensure("DERIVE:snapshot-points-at-the-list-just-written", g["order"].index("list") < g["order"].index("snapshot"))
        if mode != "delete":
            appm = [x for x in g["new_manifests"] if x["args"][0] is appended]
            h.ensure("DERIVE:exactly-one-new-manifest-holds-exactly-the-appended-files", len(appm) == 1)
            if appm:
                h.ensure("CARRY:new-manifest-stamped-with-this-commit's-id-and-sequence",
                         appm[0]["args"][2] is sid and appm[0]["kw"].get("sequence_number") is kw.get("sequence_number") and
                         appm[0]["kw"].get("existing_files") is None)
                h.ensure("GUAR-tx:new-manifest-registered-in-flight-before-written", _is_register_hook(appm[0]["kw"].get("pre_write_hook"), tx))
        if mode == "append":
            # nothing deleted: the base's manifests are carried over unchanged
            fm = g["list_writes"][0]["args"][0] if g["list_writes"] else None
            h.ensure("DERIVE:base-manifests-carried-over", isinstance(fm, PList) or fm is not None)
    return harness


def _is_register_hook(hook, tx):
    from pyvc.values import FuncVal
    return isinstance(hook, FuncVal) and hook.qualname == "Transaction._register_inflight" and hook.bound_self is tx


# =================================================================================== create_snapshot / delete_snapshot
def h_create_snapshot(h: H):
    c = h.ctx
    st = Store(h)
    st.install(h.reg)
    misc.install_clock(h.reg, c)
    misc.install_uuid(h.reg, c)
    mm = h.obj("MetadataManager", storage=st.obj)
    sm = h.obj("SnapshotManager", metadata_manager=mm)
    base = h.obj("TableMetadata", label="base", current_schema_id=SInt(c.fresh_int("schema_id")), last_sequence_number=h.int("base_lsn"),
                 current_snapshot_id=SOpt(c.fresh_bool("bcn"), SInt(c.fresh_int("bc"))))
    copies = []

    def deepcopy(I, a, k):
        src = a[0]
        cp_ = SObj("TableMetadata", dict(src.fields), label="deepcopy(base)")
        cp_.fields["snapshots"] = _acc.new_acc("snapshots")
        cp_.fields["snapshot_log"] = _acc.new_acc("snapshot_log")
        cp_.fields["properties"] = PDict({})
        copies.append((src, cp_))
        return cp_
    from pyvc import acc as _acc
    _acc.install(h.reg)
    h.reg.modfuncs["copy.deepcopy"] = deepcopy
    commits = []

    def commit(I, fv, args, kwargs):
        commits.append(args[1:])
        k = I.ctx.choose(3, "commit-outcome")
        if k == 1:
            raise PyRaise(SExc("ConcurrentModificationException", origin="conflict", fields={"conflict": True}))
        if k == 2:
            raise PyRaise(SExc("AmbiguousCommitError", origin="ambiguous", fields={"ambiguous": True}))
        return args[2]
    h.reg.contracts[f"{MM}:MetadataManager.commit"] = commit
    rets = []
    h.reg.contracts[f"{SM}:SnapshotManager._apply_retention"] = lambda I, fv, a, k: rets.append(a[-1]) and None
    refreshed = []
    h.reg.contracts[f"{MM}:MetadataManager.refresh"] = lambda I, fv, a, k: refreshed.append(1) or base
    sid = SInt(c.fresh_int("snapshot_id"))
    seq = SInt(c.fresh_int("sequence_number")) if c.flip("seq-given") else None
    parent = SOpt(c.fresh_bool("pn"), SInt(c.fresh_int("parent")))
    mutated = []
    mut = None
    if c.flip("has-mutator"):
        mut = TheoryObj("mutator")
        h.reg.theory_methods[("mutator", "__call__")] = lambda I, o, a, k: mutated.append(a[0]) and None
    h.reg.builtins["__symbolic_comprehension__"] = None
    # `all(s.snapshot_id != snapshot_id for s in new_metadata.snapshots)` : the accumulator is iterated after a mutator ran
    out, val = h.run(f"{SM}:SnapshotManager.create_snapshot", [sm, SStr(c.fresh_str("list_path"))],
                     {"operation": "append", "parent_snapshot_id": parent, "base_metadata": base, "snapshot_id": sid,
                      "metadata_mutator": None, "sequence_number": seq})
    h.ensure("DERIVE:create_snapshot-does-not-re-read-the-base", not refreshed)
    h.ensure("DERIVE:commit-called-once-with-(base, deepcopy-of-base-plus-the-snapshot)",
             len(commits) == 1 and commits[0][0] is base and len(copies) == 1 and commits[0][1] is copies[0][1] and copies[0][0] is base)
    if len(copies) == 1:
        nm = copies[0][1]
        added = nm.fields["snapshots"].fields["added"]
        h.ensure("WF:exactly-the-new-snapshot-appended", len(added) == 1)
        if len(added) == 1:
            s = added[0]
            h.ensure("WF:snapshot-carries-the-caller's-id-parent-and-list", s.fields["snapshot_id"] is sid and s.fields["parent_snapshot_id"] is parent)
            want_seq = seq.z if seq is not None else base.fields["last_sequence_number"].z + 1
            h.ensure("WF:sequence-number=given-or-base.last+1", pyops.int_z(s.fields["sequence_number"]) == want_seq)
            h.ensure("WF:current-snapshot-is-the-new-one", nm.fields["current_snapshot_id"] is sid)
            h.ensure("WF:last_sequence_number-never-decreases-and-covers-the-new-snapshot",
                     z3.And(pyops.int_z(nm.fields["last_sequence_number"]) >= base.fields["last_sequence_number"].z,
                            pyops.int_z(nm.fields["last_sequence_number"]) >= pyops.int_z(s.fields["sequence_number"])))
            logadd = nm.fields["snapshot_log"].fields["added"]
            h.ensure("WF:one-history-entry-for-the-new-snapshot", len(logadd) == 1 and logadd[0].fields["snapshot_id"] is sid)
            h.ensure("WF:snapshot-records-the-base's-schema", s.fields["schema_id"] is base.fields["current_schema_id"])
        h.ensure("WF:retention-applied-to-the-new-metadata-before-commit", rets == [nm])
    if out == "ok":
        h.ensure("OUTCOME:returns-the-created-snapshot", len(copies) == 1 and val is copies[0][1].fields["snapshots"].fields["added"][0])
    else:
        h.ensure("NOFLIP:errors-come-from-the-commit", bool(val.fields.get("conflict") or val.fields.get("ambiguous")))


# =================================================================================== delete_snapshot
def h_delete_snapshot(h: H):
    """DERIVE for metadata-only commits made by SnapshotManager.delete_snapshot: the metadata handed to commit() as *new* is
    derived (deepcopy + removal) from the very base object read in the same attempt and handed to commit() as *base*."""
    c = h.ctx
    st = Store(h)
    st.install(h.reg)
    mm = h.obj("MetadataManager", storage=st.obj)
    sm = h.obj("SnapshotManager", metadata_manager=mm)
    target = h.int("snapshot_id_to_delete")
    bases = []

    def refresh(I, fv, args, kwargs):
        if I.ctx.flip("no-metadata"):
            bases.append(None)
            return None

        def mk(I2):
            if I2.ctx.flip("is-the-target"):
                return SObj("Snapshot", {"snapshot_id": target})
            o = SObj("Snapshot", {"snapshot_id": SInt(I2.ctx.fresh_int("sid"))})
            I2.ctx.assume(o.fields["snapshot_id"].z != target.z)
            return o
        b = SObj("TableMetadata", {"snapshots": TheoryObj("symiter", fields={"mk": mk}),
                                   "snapshot_log": TheoryObj("symiter", fields={"mk": lambda I2: SObj("HistoryEntry", {"snapshot_id": SInt(I2.ctx.fresh_int("hid"))})}),
                                   "current_snapshot_id": SOpt(I.ctx.fresh_bool("cur_none"), SInt(I.ctx.fresh_int("cur")))}, label=f"base#{len(bases)}")
        bases.append(b)
        return b
    h.reg.contracts[f"{MM}:MetadataManager.refresh"] = refresh
    copies = []

    def deepcopy(I, a, k):
        src = a[0]
        cp_ = SObj("TableMetadata", dict(src.fields), label=f"deepcopy({src.label})")
        for f in ("snapshots", "snapshot_log"):
            v = src.fields[f]
            cp_.fields[f] = TheoryObj("symiter", fields=dict(v.fields))
        copies.append((src, cp_))
        return cp_
    h.reg.modfuncs["copy.deepcopy"] = deepcopy
    h.reg.contracts[f"{SM}:repoint_parents_to_surviving_ancestors"] = lambda I, fv, a, k: None
    h.reg.contracts[f"{SM}:SnapshotManager._most_recent_snapshot_id"] = lambda I, fv, a, k: SOpt(I.ctx.fresh_bool("mr_none"), SInt(I.ctx.fresh_int("mr")))
    commits = []

    def commit(I, fv, args, kwargs):
        commits.append(args[1:])
        k = I.ctx.choose(3, "commit-outcome")
        if k == 1:
            raise PyRaise(SExc("ConcurrentModificationException", origin="conflict", fields={"conflict": True}))
        if k == 2:
            raise PyRaise(SExc("OSError", origin="fault", fields={"fault": True}))
        return args[2]
    h.reg.contracts[f"{MM}:MetadataManager.commit"] = commit

    def havoc(I, env, it):
        env.vars["snapshot_to_remove"] = None
    h.reg.loops[f"{SM}:SnapshotManager.delete_snapshot"] = {
        "*": LoopSpec(invariant=lambda I, e, it: [], havoc=havoc, name="find", skip=["snapshot_to_remove", "i", "snapshot"])}
    out, val = h.run(f"{SM}:SnapshotManager.delete_snapshot", [sm, target])
    for (b, n) in commits:
        srcs = [s_ for (s_, cpy) in copies if cpy is n]
        h.ensure("DERIVE:delete_snapshot-commits-(base, copy-derived-from-THAT-base)", len(srcs) == 1 and srcs[0] is b and b is not None)
        h.ensure("DERIVE:the-base-is-a-read-of-this-attempt", any(b is x for x in bases))
    h.ensure("RETRY:delete_snapshot-at-most-one-commit-per-base-read", len(commits) <= len([b for b in bases if b is not None]))
    if out == "ok" and val is True:
        h.ensure("OUTCOME:True-only-after-a-successful-commit", len(commits) >= 1)
    if out == "ok" and val is False:
        h.ensure("OUTCOME:False-means-nothing-committed", len(commits) == 0)


# =================================================================================== markers (GUAR-tx) and writers
def h_register_inflight(h: H):
    c = h.ctx
    st = Store(h, fault_classes=["OSError"], max_faults=1)
    st.install(h.reg)
    tx = tx_object(h, st, markers=PList([]))
    dumped = []

    def dumps(I, a, k):
        dumped.append(a[0])
        return SStr(I.ctx.fresh_str("json"))
    h.reg.modfuncs["json.dumps"] = dumps
    path = h.str("file_path")
    out, val = h.run(f"{TX}:Transaction._register_inflight", [tx, path])
    writes = [e for e in st.events if e["op"] == "write_file"]
    if out == "raise":
        h.ensure("GUAR-tx:marker-write-failure-propagates(fail-closed)", bool(val.fields.get("fault")) and not tx.fields["_inflight_markers"].items)
        return
    h.ensure("GUAR-tx:exactly-one-marker-written", len(writes) == 1)
    if writes:
        mp = writes[0]["path"]
        h.ensure("GUAR-tx:marker-lives-under-metadata/inflight-and-ends-with-.inflight",
                 z3.And(z3.PrefixOf(z3.StringVal("metadata/inflight/"), mp), z3.SuffixOf(z3.StringVal(".inflight"), mp)))
        h.ensure("GUAR-tx:marker-remembered-for-cleanup", len(tx.fields["_inflight_markers"].items) == 1 and
                 z3.is_true(z3.simplify(pyops.str_z(tx.fields["_inflight_markers"].items[0]) == mp)))
        h.ensure("GUAR-tx:marker-payload-names-the-protected-path(without-leading-slash)",
                 len(dumped) == 1 and isinstance(dumped[0], PDict) and "file_path" in dumped[0].d and
                 z3.is_true(z3.simplify(pyops.str_z(dumped[0].d["file_path"]) == z3.Function("str.lstrip[2f]", STR, STR)(path.z))) or
                 z3.is_true(z3.simplify(pyops.str_z(dumped[0].d["file_path"]) == path.z)) if dumped else False)


def h_append_data(h: H):
    """marker BEFORE the data file; a rejected append writes nothing / leaves only registered files; accepted -> queued once."""
    c = h.ctx
    st = Store(h)
    st.install(h.reg)
    misc.install_uuid(h.reg, c)
    tx = tx_object(h, st, written=PList([]), markers=PList([]), operations=PList([]))
    order = []
    has_schema_arg = c.flip("schema-arg")
    schema = SObj("Schema", {"schema_id": 1, "fields": PList([])}, label="arg-schema") if has_schema_arg else None
    table_schema = SObj("Schema", {"schema_id": 1, "fields": PList([])}, label="table-schema")

    nos = {"v": False}

    def resolve(I, fv, a, k):
        order.append("resolve")
        nos["v"] = I.ctx.flip("no-persisted-schema")
        return None if nos["v"] else table_schema
    h.reg.contracts[f"{TX}:Transaction._resolve_table_schema"] = resolve

    def validate(I, fv, a, k):
        order.append("validate")
        if I.ctx.flip("schema-diverges"):
            raise PyRaise(SExc("ValueError", origin="schema mismatch", fields={"reject": True}))
    h.reg.contracts[f"{TX}:Transaction._validate_schema_against_table"] = validate

    def register(I, fv, a, k):
        order.append(("marker", a[-1]))
        if I.ctx.flip("marker-write-fails"):
            raise PyRaise(SExc("OSError", origin="marker write fails", fields={"fault": True}))
        a[0].fields["_inflight_markers"].items.append(SStr(I.ctx.fresh_str("marker")))
    h.reg.contracts[f"{TX}:Transaction._register_inflight"] = register
    fmgr = tx.fields["file_manager"]
    dfm = h.obj("DataFileManager", storage=st.obj)
    fmgr.fields["data_file_manager"] = dfm

    def wdf(I, fv, a, k):
        order.append(("write", k.get("file_path"), k.get("iceberg_schema")))
        if I.ctx.flip("write-fails"):
            raise PyRaise(SExc("ArrowInvalid", origin="records do not fit the schema", fields={"reject": True}))
        from pyvc.values import EnumVal
        return SObj("DataFile", {"file_path": k.get("file_path"), "file_format": EnumVal("FileFormat", "PARQUET", "parquet"), "partition_values": PDict({}),
                                 "record_count": SInt(I.ctx.fresh_int("n")), "file_size_in_bytes": SInt(I.ctx.fresh_int("sz")), "column_sizes": None,
                                 "value_counts": None, "null_value_counts": None, "lower_bounds": TheoryObj("symdict"), "upper_bounds": TheoryObj("symdict"),
                                 "checksum": SStr(I.ctx.fresh_str("sha"))})
    h.reg.contracts["data_operations:DataFileManager.write_data_file"] = wdf
    queued = []

    def append_files(I, fv, a, k):
        order.append(("queue", a[-1]))
        queued.append(a[-1])
        if I.ctx.flip("queue-validation-fails"):
            raise PyRaise(SExc("ValueError", origin="append_files rejects", fields={"reject": True}))
        a[0].fields["_operations"].items.append(PDict({"type": "append_files", "files": a[-1]}))
        return a[0]
    h.reg.contracts[f"{TX}:Transaction.append_files"] = append_files
    records = TheoryObj("symiter", fields={"mk": lambda I: PDict({})})
    out, val = h.run(f"{TX}:Transaction.append_data", [tx, records, schema])
    marker_i = [i for i, o in enumerate(order) if isinstance(o, tuple) and o[0] == "marker"]
    write_i = [i for i, o in enumerate(order) if isinstance(o, tuple) and o[0] == "write"]
    if write_i:
        h.ensure("GUAR-tx:marker-registered-BEFORE-the-data-file-is-written", len(marker_i) == 1 and marker_i[0] < write_i[0])
        h.ensure("GUAR-tx:marker-names-the-file-that-is-written", z3.is_true(z3.simplify(pyops.str_z(order[marker_i[0]][1]) == pyops.str_z(order[write_i[0]][1]))) if marker_i else False)
        fp = pyops.str_z(order[write_i[0]][1])
        h.ensure("WRITE-ONCE:data-file-name-carries-a-fresh-uuid-token", z3.And(z3.PrefixOf(z3.StringVal("data/auto_"), fp), z3.SuffixOf(z3.StringVal(".parquet"), fp),
                                                                               z3.Contains(fp, z3.SubString(h.ctx.ghost["uuid"]["hex"][0], 0, 16)) if h.ctx.ghost["uuid"]["hex"] else z3.BoolVal(False)))
        used = order[write_i[0]][2]
        h.ensure("SCHEMA:file-written-with-the-argument-or-else-the-persisted-schema", used is (schema if has_schema_arg else table_schema))
    if not has_schema_arg and nos["v"]:
        h.ensure("NO-SCHEMA:append-without-any-available-schema-raises-ValueError-before-writing-anything",
                 out == "raise" and val.cls == "ValueError" and not st.events and not write_i and not marker_i, detail=repr(val))
    if out == "raise":
        h.ensure("REJECT-CLEAN:a-rejected-append-queues-nothing", not tx.fields["_operations"].items)
        if not marker_i:
            h.ensure("REJECT-CLEAN:rejected-before-any-write=>storage-untouched", not st.events and not write_i)
        if val.cls == "ValueError" and not order[-1:] == [("x",)] and "resolve" in order and not has_schema_arg and not marker_i:
            h.cover("NO-SCHEMA:reachable")
        if write_i and not (val.fields.get("reject") and queued):
            pass
        return
    h.ensure("ACCEPT:written-file-recorded-for-rollback", len(tx.fields["_written_files"].items) == 1)
    h.ensure("ACCEPT:queued-exactly-once", len(queued) == 1 and len(tx.fields["_operations"].items) == 1)
    if not has_schema_arg:
        h.ensure("NO-SCHEMA:without-any-schema-nothing-is-written", "resolve" in order)


def h_create_manifest(kind: str):
    def harness(h: H):
        c = h.ctx
        st = Store(h, fault_classes=["OSError"], max_faults=1)
        st.install(h.reg)
        misc.install_clock(h.reg, c)
        misc.install_uuid(h.reg, c)
        fm = h.obj("FileManager", storage=st.obj, manifests_path="metadata/manifests")
        hooked = []

        def hook_call(I, o, a, k):
            hooked.append((a[0], len(st.events)))
            if I.ctx.flip("hook-fails"):
                raise PyRaise(SExc("OSError", origin="marker write fails", fields={"fault": True}))
        h.reg.theory_methods[("hook", "__call__")] = hook_call
        hook = TheoryObj("hook") if c.flip("with-hook") else None
        h.reg.modfuncs["fastavro.writer"] = lambda I, a, k: None
        h.reg.modfuncs["io.BytesIO"] = lambda I, a, k: TheoryObj("bytesio")
        h.reg.theory_methods[("bytesio", "getvalue")] = lambda I, o, a, k: SBytes(I.ctx.fresh_str("avro_bytes"))
        sid = SInt(c.fresh_int("snapshot_id"))
        h.assume(sid.z != 0)
        if kind == "manifest":
            from pyvc.values import EnumVal
            out, val = h.run(f"{FMOD}:FileManager.create_manifest_file", [fm, PList([]), EnumVal("ManifestContent", "DATA", 0), sid],
                             {"existing_files": PList([]), "sequence_number": SInt(c.fresh_int("seq")), "pre_write_hook": hook})
        else:
            out, val = h.run(f"{FMOD}:FileManager.create_manifest_list_file", [fm, PList([]), sid], {"pre_write_hook": hook})
        writes = [e for e in st.events if e["op"] == "write_file"]
        if out == "raise":
            h.ensure("GUAR-tx:failed-protection-or-write=>error-propagates", bool(val.fields.get("fault")))
            if hooked and str(val.origin).startswith("marker"):
                h.ensure("GUAR-tx:file-never-written-unprotected", not writes)
            return
        h.ensure("WRITE-ONCE:exactly-one-file-written", len(writes) == 1)
        if not writes:
            return
        p = writes[0]["path"]
        hx = h.ctx.ghost["uuid"]["hex"]
        h.ensure("WRITE-ONCE:name-under-metadata/manifests-with-a-fresh-uuid-token",
                 z3.And(z3.PrefixOf(z3.StringVal("metadata/manifests/"), p), z3.Contains(p, z3.SubString(hx[0], 0, 8))) if hx else z3.BoolVal(False))
        if hook is not None:
            h.ensure("GUAR-tx:protection-hook-called-with-the-path-BEFORE-the-write",
                     len(hooked) == 1 and hooked[0][1] <= writes[0]["n"] and z3.is_true(z3.simplify(pyops.str_z(hooked[0][0]) == p)))
        rp = val if kind == "list" else val.fields.get("manifest_path")
        h.ensure("ORDER:returned-path-is-the-file-just-written(durably,via-write_file)", z3.is_true(z3.simplify(pyops.str_z(rp) == p)))
    return harness


def avro_schema_fields(h: H, const_name: str):
    """field names of an Avro record schema constant of /repo/src/datashard/avro_schemas.py (read from the current source):
    -> (top-level names, required top-level names, {nested record field: (names, required)})"""
    import ast as _ast
    mi = h.repo.modules["avro_schemas"]
    sch = _ast.literal_eval(mi.constants[const_name])

    def names(rec):
        al = [f["name"] for f in rec["fields"]]
        req = [f["name"] for f in rec["fields"] if "default" not in f]
        return al, req
    top, req = names(sch)
    nested = {}
    for f in sch["fields"]:
        t = f["type"]
        if isinstance(t, dict) and t.get("type") == "record":
            nested[f["name"]] = names(t)
    return top, req, nested


# =================================================================================== CARRY (C15): manifest entries
def _sym_datafile(I, tag):
    c = I.ctx
    return SObj("DataFile", {
        "file_path": SStr(c.fresh_str(f"{tag}_path")), "file_format": EnumVal("FileFormat", "PARQUET", "parquet"),
        "partition_values": PDict({}), "record_count": SInt(c.fresh_int("rc")), "file_size_in_bytes": SInt(c.fresh_int("sz")),
        "column_sizes": None, "value_counts": None, "null_value_counts": None, "lower_bounds": None, "upper_bounds": None,
        "checksum": SOpt(c.fresh_bool("ck_none"), SStr(c.fresh_str("ck"))),
        "added_snapshot_id": SOpt(c.fresh_bool(f"{tag}_added_by_none"), SInt(c.fresh_int(f"{tag}_added_by"))),
        "sequence_number": SOpt(c.fresh_bool(f"{tag}_seq_none"), SInt(c.fresh_int(f"{tag}_seq")))}, label=f"{tag}-file")


def h_manifest_entries(h: H):
    """CARRY (write side): one entry per input file; files carried over (existing_files) are written with status EXISTING and
    their ORIGINAL adding snapshot id and sequence number; new files with status ADDED, the committing snapshot's id and
    sequence number; both sequence-number columns agree; the entry names the file's own path."""
    from pyvc import acc as _acc
    c = h.ctx
    st = Store(h)
    st.install(h.reg)
    misc.install_clock(h.reg, c)
    misc.install_uuid(h.reg, c)
    _acc.install(h.reg)
    fm = h.obj("FileManager", storage=st.obj, manifests_path="metadata/manifests")
    h.reg.modfuncs["fastavro.writer"] = lambda I, a, k: None
    h.reg.modfuncs["io.BytesIO"] = lambda I, a, k: TheoryObj("bytesio")
    h.reg.theory_methods[("bytesio", "getvalue")] = lambda I, o, a, k: SBytes(I.ctx.fresh_str("avro_bytes"))
    sid = SInt(c.fresh_int("committing_snapshot_id"))
    h.assume(sid.z != 0)
    seq = SInt(c.fresh_int("committing_sequence_number"))
    added = TheoryObj("symiter", fields={"mk": lambda I2: _sym_datafile(I2, "new")})
    existing = TheoryObj("symiter", fields={"mk": lambda I2: _sym_datafile(I2, "carried")})
    records, seqs = _acc.new_acc("records"), _acc.new_acc("entry_sequence_numbers")

    def inv(I, env, it):
        if not it.get("after_body"):
            return []
        el = it["elem"]
        df, status = el
        adds = records.fields["added"]
        res = [("CARRY:exactly-one-entry-per-file", z3.BoolVal(len(adds) == 1))]
        if len(adds) != 1 or not isinstance(adds[0], PDict):
            return res
        r = adds[0].d
        eqv = lambda a, b: pyops.bool_z(pyops.py_eq(a, b))
        res.append(("CARRY:entry-names-the-file's-own-path", z3.BoolVal(isinstance(r.get("data_file"), PDict) and r["data_file"].d.get("file_path") is df.fields["file_path"])))
        # T-codec (fastavro): a record key that is not a field of the writer schema is silently DROPPED; a schema field without
        # default that is missing from the record raises.  So: keys written == fields the schema knows (incl. the nested record)
        top, req, nested = avro_schema_fields(h, "MANIFEST_ENTRY_SCHEMA")
        res.append(("CODEC-KEYS:every-key-of-a-manifest-entry-is-a-field-of-the-Avro-schema(nothing-silently-dropped)",
                    z3.BoolVal(set(r) <= set(top) and isinstance(r.get("data_file"), PDict) and set(r["data_file"].d) <= set(nested["data_file"][0]))))
        res.append(("CODEC-KEYS:every-required-schema-field-is-written",
                    z3.BoolVal(set(req) <= set(r) and isinstance(r.get("data_file"), PDict) and set(nested["data_file"][1]) <= set(r["data_file"].d))))
        res.append(("CODEC-KEYS:the-file's-checksum-is-written-into-its-entry",
                    z3.BoolVal(isinstance(r.get("data_file"), PDict) and r["data_file"].d.get("checksum") is df.fields["checksum"])))
        res.append(("CARRY:both-sequence-number-columns-agree", eqv(r.get("sequence_number"), r.get("file_sequence_number"))))
        if str(df.label).startswith("carried"):
            res.append(("CARRY:carried-file-has-status-EXISTING", z3.BoolVal(status == 0 and r.get("status") == 0)))
            res.append(("CARRY:carried-file-keeps-its-original-adding-snapshot", eqv(r.get("snapshot_id"), df.fields["added_snapshot_id"])))
            res.append(("CARRY:carried-file-keeps-its-original-sequence-number", eqv(r.get("sequence_number"), df.fields["sequence_number"])))
        else:
            res.append(("CARRY:new-file-has-status-ADDED", z3.BoolVal(status == 1 and r.get("status") == 1)))
            res.append(("CARRY:new-file-is-stamped-with-the-committing-snapshot-and-sequence-number",
                        z3.And(eqv(r.get("snapshot_id"), sid), eqv(r.get("sequence_number"), seq))))
        return res

    def havoc(I, env, it):
        env.vars["records"] = records
        env.vars["entry_sequence_numbers"] = seqs
        _acc.reset(records)
        _acc.reset(seqs)
    h.reg.loops[f"{FMOD}:FileManager.create_manifest_file"] = {
        0: LoopSpec(invariant=inv, havoc=havoc, name="entries",
                    skip=["records", "entry_sequence_numbers", "df", "status", "entry_snapshot_id", "entry_sequence_number", "record"])}
    h.reg.builtins["min"] = Builtin("min", lambda I, a, k: SInt(I.ctx.fresh_int("min_seq")))
    out, val = h.run(f"{FMOD}:FileManager.create_manifest_file", [fm, added, EnumVal("ManifestContent", "DATA", 0), sid],
                     {"existing_files": existing, "sequence_number": seq, "pre_write_hook": None})
    h.ensure("CARRY:create_manifest_file-does-not-raise-on-well-typed-files", out == "ok", detail=repr(val) if out != "ok" else "")
    h.cover("CARRY:carried-and-new-entries-both-reachable")


def h_manifest_read_entries(h: H):
    """CARRY (read side): read_manifest_file gives each file the adding snapshot id and sequence number recorded in its entry."""
    from pyvc import acc as _acc
    c = h.ctx
    st = Store(h)
    st.install(h.reg)
    _acc.install(h.reg)
    fm = h.obj("FileManager", storage=st.obj, manifests_path="metadata/manifests")
    cur = {}

    def mk_record(I2):
        cc = I2.ctx
        rec = {"status": SInt(cc.fresh_int("status")),
               "snapshot_id": SOpt(cc.fresh_bool("entry_sid_none"), SInt(cc.fresh_int("entry_sid"))),
               "sequence_number": SOpt(cc.fresh_bool("entry_seq_none"), SInt(cc.fresh_int("entry_seq"))),
               "file_sequence_number": SOpt(cc.fresh_bool("entry_fseq_none"), SInt(cc.fresh_int("entry_fseq"))),
               "data_file": PDict({"file_path": SStr(cc.fresh_str("entry_path")), "file_format": "parquet",
                                   "partition": PDict({"values": PDict({})}), "record_count": SInt(cc.fresh_int("rc")),
                                   "file_size_in_bytes": SInt(cc.fresh_int("sz")), "lower_bounds": None, "upper_bounds": None,
                                   "column_sizes": None, "value_counts": None, "null_value_counts": None,
                                   "checksum": SOpt(cc.fresh_bool("ck_none"), SStr(cc.fresh_str("ck")))})}
        cur["rec"] = rec
        return PDict(rec)
    h.reg.modfuncs["fastavro.reader"] = lambda I, a, k: TheoryObj("symiter", fields={"mk": mk_record})
    h.reg.theory_methods[("storage", "open_file")] = lambda I, o, a, k: TheoryObj("stream")
    h.reg.theory_methods[("stream", "__enter__")] = lambda I, o, a, k: o
    h.reg.theory_methods[("stream", "__exit__")] = lambda I, o, a, k: None
    files = _acc.new_acc("data_files")

    def inv(I, env, it):
        if not it.get("after_body"):
            return []
        adds = files.fields["added"]
        res = [("CARRY:one-file-per-entry", z3.BoolVal(len(adds) == 1))]
        if len(adds) != 1 or not isinstance(adds[0], SObj):
            return res
        df, rec = adds[0], cur["rec"]
        eqv = lambda a, b: pyops.bool_z(pyops.py_eq(a, b))
        res.append(("CARRY:read:file-path-from-its-entry", z3.BoolVal(df.fields.get("file_path") is rec["data_file"].d["file_path"])))
        top, req, nested = avro_schema_fields(h, "MANIFEST_ENTRY_SCHEMA")
        res.append(("CODEC-KEYS:the-reader-finds-every-schema-field-it-needs(record-built-from-exactly-the-schema's-fields)",
                    z3.BoolVal(set(rec) == set(top) and set(rec["data_file"].d) == set(nested["data_file"][0]))))
        res.append(("CODEC-KEYS:the-entry's-checksum-reaches-the-DataFile(checksum-verification-stays-on)",
                    z3.BoolVal(df.fields.get("checksum") is rec["data_file"].d["checksum"])))
        res.append(("CARRY:read:adding-snapshot-from-its-entry", eqv(df.fields.get("added_snapshot_id"), rec["snapshot_id"])))
        fs, sq = rec["file_sequence_number"], rec["sequence_number"]
        got = df.fields.get("sequence_number")
        gn, gv = (got.isnone, pyops.int_z(got.val)) if isinstance(got, SOpt) else ((z3.BoolVal(True), z3.IntVal(0)) if got is None else (z3.BoolVal(False), pyops.int_z(got)))
        want_none = z3.And(fs.isnone, sq.isnone)
        want_val = z3.If(fs.isnone, sq.val.z, fs.val.z)
        res.append(("CARRY:read:sequence-number-from-its-entry(file_sequence_number,else-sequence_number)",
                    z3.And(gn == want_none, z3.Implies(z3.Not(want_none), gv == want_val))))
        return res

    def havoc(I, env, it):
        env.vars["data_files"] = files
        _acc.reset(files)
    other = _acc.new_acc("json_files")
    h.reg.loops[f"{FMOD}:FileManager.read_manifest_file"] = {
        "*": LoopSpec(invariant=lambda I, e, it: [], havoc=lambda I, e, it: e.vars.__setitem__("data_files", other), name="json-fallback",
                      skip=["data_files", "data_file", "file_entry"]),
        "iter:reader": LoopSpec(invariant=inv, havoc=havoc, name="entries",
                    skip=["data_files", "record", "record_raw", "df_record", "lower_bounds", "upper_bounds", "column_sizes", "value_counts",
                          "null_value_counts", "data_file"])}
    p = h.str("manifest_path")
    h.assume(z3.Select(st.ex, st.key(h.I, p)))
    out, val = h.run(f"{FMOD}:FileManager.read_manifest_file", [fm, p])
    if out == "ok":
        h.ensure("CARRY:read:returns-the-accumulated-files", val is files)


def h_manifest_list_entries(h: H):
    """LIST-ENTRIES: create_manifest_list_file writes one record per manifest it was given (every manifest, the manifest's own path
    and counters), with exactly the fields of the Avro schema; read_manifest_list_file maps a record back to the same path."""
    from pyvc import acc as _acc
    c = h.ctx
    st = Store(h)
    st.install(h.reg)
    misc.install_clock(h.reg, c)
    misc.install_uuid(h.reg, c)
    _acc.install(h.reg)
    fm = h.obj("FileManager", storage=st.obj, manifests_path="metadata/manifests")
    h.reg.modfuncs["fastavro.writer"] = lambda I, a, k: None
    h.reg.modfuncs["io.BytesIO"] = lambda I, a, k: TheoryObj("bytesio")
    h.reg.theory_methods[("bytesio", "getvalue")] = lambda I, o, a, k: SBytes(I.ctx.fresh_str("avro_bytes"))
    attrs = ["manifest_path", "manifest_length", "partition_spec_id", "sequence_number", "min_sequence_number", "added_snapshot_id",
             "added_data_files_count", "existing_data_files_count", "deleted_data_files_count"]

    def mk(I):
        cc = I.ctx
        f = {a: SInt(cc.fresh_int(a)) for a in attrs}
        f["manifest_path"] = SStr(cc.fresh_str("manifest_path"))
        f["content"] = EnumVal("ManifestContent", "DATA", 0)
        return SObj("ManifestFile", f, label="some-manifest")
    manifests = TheoryObj("symiter", fields={"mk": mk})
    records = _acc.new_acc("records")

    def inv(I, env, it):
        if not it.get("after_body"):
            return []
        mf = it["elem"]
        adds = records.fields["added"]
        res = [("LIST-ENTRIES:exactly-one-record-per-manifest", z3.BoolVal(len(adds) == 1 and isinstance(adds[0], PDict)))]
        if len(adds) != 1 or not isinstance(adds[0], PDict):
            return res
        r = adds[0].d
        top, req, _n = avro_schema_fields(h, "MANIFEST_FILE_SCHEMA")
        res.append(("CODEC-KEYS:record-keys-are-exactly-the-Avro-schema's-fields", z3.BoolVal(set(r) <= set(top) and set(req) <= set(r))))
        res.append(("LIST-ENTRIES:record-carries-the-manifest's-own-path-and-counters", z3.BoolVal(all(r.get(a) is mf.fields[a] for a in attrs))))
        return res

    def havoc(I, env, it):
        env.vars["records"] = records
        _acc.reset(records)
    h.reg.loops[f"{FMOD}:FileManager.create_manifest_list_file"] = {
        "*": LoopSpec(invariant=inv, havoc=havoc, name="manifests", skip=["records", "mf", "content_val", "record"],
                      on_break=lambda I, e, it: h.fail("LIST-ENTRIES:every-manifest-is-visited(no-early-exit)"))}
    sid = SInt(c.fresh_int("snapshot_id"))
    out, val = h.run(f"{FMOD}:FileManager.create_manifest_list_file", [fm, manifests, sid], {"pre_write_hook": None})
    h.ensure("LIST-ENTRIES:create_manifest_list_file-does-not-raise-on-well-typed-manifests", out == "ok", detail=repr(val) if out != "ok" else "")
