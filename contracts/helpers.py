"""Contracts on small repository helpers that other units apply at an assumed contract (evidence: callee_contracts_applied).
Verifying them here removes them from the trusted side: the units are registered under every property that uses the helper."""
from __future__ import annotations

import z3

from pyvc import pyops
from pyvc.engine import LoopSpec, PyRaise
from pyvc.runner import H, Unit, register
from pyvc.theories import misc, pybuiltins as pb
from pyvc.theories.store import Store
from pyvc.values import PDict, PList, SBool, SBytes, SExc, SInt, SObj, SOpaque, SOpt, SStr, TheoryObj, usort

MM = "metadata_manager"
TX = "transaction"
FM = "file_manager"
STR = z3.StringSort()


# ----------------------------------------------------------------------------------------------- names <-> versions
def h_name_roundtrip(shape: str):
    """NAME-RT: for every version v >= 0 the three spellings a pointer may carry - the name produced by _new_metadata_filename(v)
    ('v<v>-<8 hex>.metadata.json'), the legacy name 'v<v>.metadata.json', and the bare number '<v>' - are parsed by
    _parse_hint_content back to exactly (v, <metadata file name>).  (Unbounded in v; replaces the enumerated stand-in for the
    canonical spellings.)"""
    def harness(h: H):
        c = h.ctx
        misc.install_uuid(h.reg, c)
        misc.install_regex(h.reg)
        v = h.int("version")
        h.assume(v.z >= 0)
        if shape == "generated":
            out, name = h.run(f"{MM}:MetadataManager._new_metadata_filename", [v])
            h.ensure("NAME-RT:_new_metadata_filename-never-raises", out == "ok")
            if out != "ok":
                return
            nz = pyops.str_z(name)
            hx = c.ghost["uuid"]["hex"]
            h.ensure("NAME-RT:generated-name-is-v<version>-<fresh-8-hex>.metadata.json",
                     nz == z3.Concat(z3.StringVal("v"), z3.IntToStr(v.z), z3.StringVal("-"), z3.SubString(hx[0], 0, 8), z3.StringVal(".metadata.json")) if hx else z3.BoolVal(False))
            h.ensure("NAME:the-token-is-drawn-fresh-for-this-call(one-uuid4)", len(hx) == 1)
            if shape == "generated" and h.ctx.ghost.get("name_only"):
                return
            text, want = nz, nz
        elif shape == "legacy-name":
            text = z3.Concat(z3.StringVal("v"), z3.IntToStr(v.z), z3.StringVal(".metadata.json"))
            want = text
        else:
            text = z3.IntToStr(v.z)
            want = z3.Concat(z3.StringVal("v"), z3.IntToStr(v.z), z3.StringVal(".metadata.json"))
        enc = z3.Function("utf8.encode", STR, STR)
        out, res = h.run(f"{MM}:MetadataManager._parse_hint_content", [SBytes(enc(text))])
        h.ensure("NAME-RT:parse-never-raises", out == "ok", detail=repr(res) if out != "ok" else "")
        if out != "ok":
            return
        if res is None:
            h.fail("NAME-RT:a-canonical-pointer-spelling-is-accepted")
            return
        ver, nm = res
        h.ensure("NAME-RT:parsed-version-is-the-version-the-name-was-made-for", pyops.int_z(ver) == v.z)
        h.ensure("NAME-RT:parsed-name-is-the-metadata-file-name", pyops.str_z(nm) == want)
    return harness


# ----------------------------------------------------------------------------------------------- checksum
def h_verify_checksum(h: H):
    SHA = z3.Function("sha256_hex", STR, STR)
    h.reg.contracts["integrity:IntegrityChecker.compute_checksum"] = lambda I, fv, a, k: SStr(SHA(pyops.str_z(a[0])))
    data, exp = h.bytes("data"), h.str("expected_checksum")
    out, val = h.run("integrity:IntegrityChecker.verify_checksum", [data, exp])
    h.ensure("CHECKSUM:verify_checksum-never-raises", out == "ok")
    if out == "ok":
        h.ensure("CHECKSUM:verify_checksum-is-True-iff-the-digest-of-THESE-bytes-equals-the-expected-one",
                 pyops.bool_z(pyops.truth(val)) == (SHA(data.z) == exp.z))


def h_new_metadata_filename(h: H):
    """NAME: _new_metadata_filename(v) = 'v' + str(v) + '-' + first 8 hex digits of a uuid4 drawn in this call + '.metadata.json'
    (the callee contract the commit-path units apply: a name of version v carrying a fresh token).  The parse round trip
    (NAME-RT) stays a bounded stand-in."""
    h.ctx.ghost["name_only"] = True
    return h_name_roundtrip("generated")(h)


def h_compute_checksum(h: H):
    """CHECKSUM: compute_checksum feeds exactly the given bytes, once, to the requested hash and returns its hex digest (T-hash:
    hashlib.new(alg) / update / hexdigest = digest of the concatenation of the updates); unsupported algorithm => ValueError."""
    c = h.ctx
    H_ = z3.Function("hashlib.hexdigest", STR, STR, STR)
    supported = c.flip("algorithm-supported")

    def new(I, a, k):
        if not supported:
            raise PyRaise(SExc("ValueError", origin="hashlib.new: unsupported hash type", fields={"unsupported": True}))
        return TheoryObj("hasher", fields={"alg": pyops.str_z(I.force(a[0])), "acc": z3.StringVal("")})

    def update(I, o, a, k):
        o.fields["acc"] = z3.Concat(o.fields["acc"], pyops.str_z(I.force(a[0])))
        o.fields["updates"] = o.fields.get("updates", 0) + 1
        return None
    h.reg.modfuncs["hashlib.new"] = new
    h.reg.theory_methods[("hasher", "update")] = update
    h.reg.theory_methods[("hasher", "hexdigest")] = lambda I, o, a, k: SStr(H_(o.fields["alg"], o.fields["acc"]))
    data = h.bytes("data")
    default_alg = c.flip("default-algorithm")
    alg = h.str("algorithm")
    out, val = h.run("integrity:IntegrityChecker.compute_checksum", [data] if default_alg else [data, alg])
    if not supported:
        h.ensure("CHECKSUM:unsupported-algorithm=>ValueError", out == "raise" and val.cls == "ValueError", detail=repr(val))
        return
    h.ensure("CHECKSUM:compute_checksum-never-raises-for-a-supported-algorithm", out == "ok", detail=repr(val) if out != "ok" else "")
    if out == "ok":
        want_alg = z3.StringVal("sha256") if default_alg else alg.z
        h.ensure("CHECKSUM:digest-of-exactly-the-given-bytes-under-the-requested-algorithm(sha256-by-default)",
                 pyops.str_z(val) == H_(want_alg, data.z))


def h_compute_file_checksum(h: H):
    """CHECKSUM (file): compute_file_checksum feeds the file's bytes in order, each exactly once, to the hash (loop invariant:
    what has been fed so far is the prefix of the content up to the read position; read(n) returns between 1 and n bytes, or
    none exactly at end of file) and returns the digest of the whole content."""
    c = h.ctx
    H_ = z3.Function("hashlib.hexdigest", STR, STR, STR)
    content = z3.String("file_content")
    st = {"hasher": None, "file": None}

    def new(I, a, k):
        st["hasher"] = TheoryObj("hasher", fields={"alg": pyops.str_z(I.force(a[0])), "acc": z3.StringVal("")})
        return st["hasher"]

    def update(I, o, a, k):
        o.fields["acc"] = z3.Concat(o.fields["acc"], pyops.str_z(I.force(a[0])))
        return None
    h.reg.modfuncs["hashlib.new"] = new
    h.reg.theory_methods[("hasher", "update")] = update
    h.reg.theory_methods[("hasher", "hexdigest")] = lambda I, o, a, k: SStr(H_(o.fields["alg"], o.fields["acc"]))
    from pyvc.values import Builtin

    def py_open(I, a, k):
        st["file"] = TheoryObj("cfile", fields={"pos": z3.IntVal(0), "mode": a[1] if len(a) > 1 else k.get("mode", "r")})
        return st["file"]
    h.reg.builtins["open"] = Builtin("open", py_open)
    T = h.reg.theory_methods
    T[("cfile", "__enter__")] = lambda I, o, a, k: o
    T[("cfile", "__exit__")] = lambda I, o, a, k: None

    def f_read(I, o, a, k):
        n = pyops.int_z(I.force(a[0]))
        got = I.ctx.fresh_int("bytes_read")
        pos = o.fields["pos"]
        rest = z3.Length(content) - pos
        I.ctx.assume(z3.And(got >= 0, got <= n, got <= rest, z3.Implies(z3.And(rest > 0, n > 0), got > 0)), "T-os: read(n)")
        o.fields["pos"] = pos + got
        return SBytes(z3.SubString(content, pos, got))
    T[("cfile", "read")] = f_read

    def inv(I, env, it):
        f, hs = st["file"], st["hasher"]
        return [("CHECKSUM:inv:fed-so-far-is-the-prefix-up-to-the-read-position",
                 z3.And(f.fields["pos"] >= 0, f.fields["pos"] <= z3.Length(content), hs.fields["acc"] == z3.SubString(content, 0, f.fields["pos"])))]

    def havoc(I, env, it):
        st["file"].fields["pos"] = I.ctx.fresh_int("pos")
        st["hasher"].fields["acc"] = I.ctx.fresh_str("fed")
    h.reg.loops["integrity:IntegrityChecker.compute_file_checksum"] = {"*": LoopSpec(invariant=inv, havoc=havoc, name="chunks", skip=["chunk", "hasher", "f"])}
    out, val = h.run("integrity:IntegrityChecker.compute_file_checksum", [h.str("file_path")])
    h.ensure("CHECKSUM:file:never-raises-on-a-readable-file", out == "ok", detail=repr(val) if out != "ok" else "")
    if out == "ok":
        h.ensure("CHECKSUM:file:opened-for-binary-reading", st["file"] is not None and st["file"].fields["mode"] == "rb")
        h.ensure("CHECKSUM:file:digest-of-the-whole-content(sha256)", pyops.str_z(val) == H_(z3.StringVal("sha256"), content))


# ----------------------------------------------------------------------------------------------- metadata file wrappers
def h_metadata_file_io(h: H):
    st = Store(h)
    st.install(h.reg)
    mm = h.obj("MetadataManager", storage=st.obj)
    p = h.str("path")
    calls = []
    m = SObj("TableMetadata", {}, label="metadata")
    d = PDict({}); d.label = "dict-of-metadata"
    h.reg.contracts[f"{MM}:MetadataManager._metadata_to_dict"] = lambda I, fv, a, k: calls.append(("to_dict", a[-1])) or d
    h.reg.theory_methods[("storage", "write_json")] = lambda I, o, a, k: calls.append(("write_json", a[0], a[1])) and None
    out, val = h.run(f"{MM}:MetadataManager._write_metadata_file", [mm, p, m])
    wj = [x for x in calls if x[0] == "write_json"]
    h.ensure("CODEC:_write_metadata_file-writes-_metadata_to_dict(metadata)-to-the-given-path(and-nothing-else)",
             out == "ok" and len(wj) >= 1 and all(x[1] is p and x[2] is d for x in wj) and ("to_dict", m) in calls)
    calls.clear()
    rd = PDict({})
    m2 = SObj("TableMetadata", {}, label="read-metadata")
    h.reg.theory_methods[("storage", "read_json")] = lambda I, o, a, k: calls.append(("read_json", a[0])) or rd
    h.reg.contracts[f"{MM}:MetadataManager._dict_to_metadata"] = lambda I, fv, a, k: calls.append(("from_dict", a[-1])) or m2
    out, val = h.run(f"{MM}:MetadataManager._read_metadata_file", [mm, p])
    h.ensure("CODEC:_read_metadata_file=_dict_to_metadata(read_json(path))", out == "ok" and val is m2 and
             calls == [("read_json", p), ("from_dict", rd)])


def h_deep_copy(h: H):
    st = Store(h)
    st.install(h.reg)
    tx = h.obj("Transaction")
    m = SObj("TableMetadata", {}, label="metadata")
    cp_ = SObj("TableMetadata", {}, label="copy")
    seen = []
    h.reg.modfuncs["copy.deepcopy"] = lambda I, a, k: seen.append(a[0]) or cp_
    out, val = h.run(f"{TX}:Transaction._deep_copy_metadata", [tx, m])
    h.ensure("DERIVE:_deep_copy_metadata-returns-copy.deepcopy-of-its-argument(a-separate-object)", out == "ok" and seen == [m] and val is cp_ and val is not m)


# ----------------------------------------------------------------------------------------------- file existence validation
def h_validate_data_files(h: H):
    """validate_data_files / validate_file_exists: True only if EVERY listed file exists (both path spellings); the first
    missing one raises FileNotFoundError; storage is only queried."""
    st = Store(h)
    st.install(h.reg)
    fm = h.obj("FileManager", storage=st.obj)
    wpath = z3.String("witness_file_path")
    inlist = z3.Bool("witness_listed")
    h.report("witness_file_path", wpath)
    wit = SObj("DataFile", {"file_path": SStr(wpath)}, label="witness")
    seen = {"w": z3.BoolVal(False)}

    def mk(I):
        if I.ctx.flip("is-witness"):
            I.ctx.assume(inlist)
            return wit
        return SObj("DataFile", {"file_path": SStr(I.ctx.fresh_str("path"))}, label="some-file")
    files = TheoryObj("symiter", fields={"mk": mk, "witnesses": [(wit, inlist)]})
    ex0 = st.ex

    def key_of(pz):
        return z3.If(z3.PrefixOf(z3.StringVal("/"), pz), pb.lstrip_z(pz, "/") if hasattr(pb, "lstrip_z") else pz, pz)

    def inv(I, env, it):
        if it.get("after_body") and it.get("elem") is wit:
            seen["w"] = z3.BoolVal(True)
        return [("EXISTS:inv:a-visited-file-exists", z3.Implies(seen["w"], g_exists()))]

    def g_exists():
        # the key the real code queried for the witness is recorded by the store events
        ev = [e for e in st.events if e["op"] == "exists" and e.get("for_witness")]
        return ev[-1]["result"] if ev else z3.BoolVal(True)
    orig_exists = st.a_exists

    def exists(I, o, a, k):
        r = orig_exists(I, o, a, k)
        ok, df = (True, None)
        st.events[-1]["result"] = pyops.bool_z(pyops.truth(r))
        return r
    h.reg.theory_methods[("storage", "exists")] = exists

    def havoc(I, env, it):
        seen["w"] = I.ctx.fresh_bool("w_seen")
        it["events_before"] = len(st.events)

    def inv_files(I, env, it):
        if not it.get("after_body"):
            return []
        # an iteration that completes (does not raise) has checked its file and found it
        evs = [e for e in st.events[it.get("events_before", 0):] if e["op"] == "exists"]
        return [("EXISTS:an-iteration-completes-only-if-its-file-was-checked-and-exists",
                 evs[-1]["result"] if evs else z3.BoolVal(False))]
    h.reg.loops[f"{FM}:FileManager.validate_data_files"] = {"*": LoopSpec(invariant=inv_files, havoc=havoc, name="files", skip=["data_file"])}
    out, val = h.run(f"{FM}:FileManager.validate_data_files", [fm, files])
    writes = [e for e in st.events if e["op"] not in ("exists",)]
    h.ensure("EXISTS:validation-only-queries-storage", not writes)
    if out == "raise":
        h.ensure("EXISTS:raises-FileNotFoundError-only", val.cls == "FileNotFoundError", detail=repr(val))
        last = [e for e in st.events if e["op"] == "exists"][-1:]
        h.ensure("EXISTS:raised-because-the-file-just-checked-is-missing", z3.Not(last[0]["result"]) if last else z3.BoolVal(False))
    else:
        h.ensure("EXISTS:returns-True", val is True)
        # every completed iteration found its file: the per-iteration fact (arbitrary element) is that exists() returned True
        for e in [e for e in st.events if e["op"] == "exists"]:
            h.ensure("EXISTS:normal-return=>every-checked-file-exists", e["result"])


def h_validate_file_exists(h: H):
    st = Store(h)
    st.install(h.reg)
    fm = h.obj("FileManager", storage=st.obj)
    p = h.str("file_path")
    out, val = h.run(f"{FM}:FileManager.validate_file_exists", [fm, p])
    ev = [e for e in st.events if e["op"] == "exists"]
    h.ensure("EXISTS:one-storage-query", out == "ok" and len(ev) == 1 and len(st.events) == 1)
    if out == "ok" and len(ev) == 1:
        h.ensure("EXISTS:result-is-the-existence-of-the-table-relative-path", pyops.bool_z(pyops.truth(val)) == z3.Select(st.ex, ev[0]["path"]))
        h.ensure("EXISTS:queried-path-is-the-argument-without-leading-slashes", z3.And(z3.Not(z3.PrefixOf(z3.StringVal("/"), ev[0]["path"])), z3.SuffixOf(ev[0]["path"], p.z)))


# ----------------------------------------------------------------------------------------------- Table._get_current_schema
def h_get_current_schema(h: H):
    st = Store(h)
    st.install(h.reg)
    mm = h.obj("MetadataManager", storage=st.obj)
    t = h.obj("Table", metadata_manager=mm)
    cur = h.int("current_schema_id")
    first = SObj("Schema", {"schema_id": SInt(h.ctx.fresh_int("first_schema_id")), "fields": PList([])}, label="first-schema")
    reads = []

    def mk(I):
        return SObj("Schema", {"schema_id": SInt(I.ctx.fresh_int("sid")), "fields": PList([])}, label="some-schema")
    schemas = TheoryObj("symiter", fields={"mk": mk})
    h.reg.theory_methods[("symiter", "__getitem__")] = lambda I, o, a, k: first
    nomd = h.ctx.flip("no-metadata")
    h.reg.contracts[f"{MM}:MetadataManager.refresh"] = lambda I, fv, a, k: reads.append(1) or (None if nomd else SObj("TableMetadata", {"schemas": schemas, "current_schema_id": cur}, label="md"))
    h.reg.loops[f"{TX}:Table._get_current_schema"] = {"*": LoopSpec(invariant=lambda I, e, it: [], name="schemas", skip=["schema"])}
    out, val = h.run(f"{TX}:Table._get_current_schema", [t])
    h.ensure("SCHEMA:_get_current_schema-never-raises-and-reads-metadata-once", out == "ok" and len(reads) == 1)
    if out == "ok" and val is not None:
        h.ensure("SCHEMA:returns-a-listed-schema:the-one-with-the-current-id,else-the-first",
                 z3.Or(pyops.int_z(val.fields["schema_id"]) == cur.z, z3.BoolVal(val is first)) if isinstance(val, SObj) else z3.BoolVal(False))
    if out == "ok" and val is None:
        h.cover("SCHEMA:None-reachable")


def h_recorded_manifest_count(h: H):
    """recorded_manifest_count(snapshot): the integer stored under summary['manifest-count'], None when the snapshot has no summary,
    no such key, or a value that is not an integer (older snapshots) - never raises."""
    c = h.ctx
    shape = c.choose(4, "summary-shape")
    raw = SStr(c.fresh_str("recorded_text"))
    if shape == 0:
        snap = SObj("Snapshot", {"summary": None})
    elif shape == 1:
        snap = SObj("Snapshot", {"summary": PDict({})})
    elif shape == 2:
        snap = SObj("Snapshot", {"summary": PDict({"manifest-count": raw})})
    else:
        snap = SObj("Snapshot", {"summary": PDict({"manifest-count": SInt(c.fresh_int("recorded_int"))})})
    out, val = h.run("file_manager:recorded_manifest_count", [snap])
    h.ensure("COUNT:recorded_manifest_count-never-raises", out == "ok", detail=repr(val) if out != "ok" else "")
    if out != "ok":
        return
    if shape in (0, 1):
        h.ensure("COUNT:no-summary-or-no-key=>None", val is None)
    elif shape == 2:
        if val is not None:
            h.ensure("COUNT:text-value=>its-integer-reading", pyops.int_z(val) == pb.PYINT(raw.z))
    else:
        h.ensure("COUNT:integer-value-returned-as-is", val is not None and z3.is_true(z3.simplify(pyops.int_z(val) == snap.fields["summary"].d["manifest-count"].z)))


def h_expected_entry_count(h: H):
    c = h.ctx
    a = SInt(c.fresh_int("added")) if c.flip("added-is-int") else None
    e = SInt(c.fresh_int("existing")) if c.flip("existing-is-int") else None
    m = SObj("ManifestFile", {"added_data_files_count": a, "existing_data_files_count": e})
    out, val = h.run(f"{FM}:FileManager.expected_entry_count", [m])
    h.ensure("COUNT:expected_entry_count-never-raises", out == "ok")
    if out == "ok":
        if a is not None and e is not None:
            h.ensure("COUNT:entries-expected=added+existing", val is not None and z3.is_true(z3.simplify(pyops.int_z(val) == a.z + e.z)))
        else:
            h.ensure("COUNT:unknown-counts=>no-expectation", val is None)


def h_check_count(h: H):
    c = h.ctx
    got = SInt(c.fresh_int("got"))
    exp = SOpt(c.fresh_bool("expected_none"), SInt(c.fresh_int("expected")))
    out, val = h.run(f"{FM}:FileManager._check_count", ["Manifest", SStr(c.fresh_str("path")), got, exp])
    h.ensure("COUNT:_check_count-raises-ValueError-iff-a-recorded-count-differs-from-what-was-read",
             z3.BoolVal(out == "raise") == z3.And(z3.Not(exp.isnone), got.z != exp.val.z))
    if out == "raise":
        h.ensure("COUNT:the-error-is-a-ValueError(not-swallowed-by-the-JSON-fallback's-handler)", val.cls == "ValueError")


def h_check_disk_space(h: H):
    """DISK: check_disk_space returns None or raises OSError (IOError) - before write_file has created anything - and changes
    nothing in the file system; too little free space always raises."""
    from pyvc.theories.osfs import OsTheory
    from pyvc.values import SXReal
    c = h.ctx
    os_t = OsTheory(h)
    os_t.install(h.reg)
    total, used, free = (SInt(c.fresh_int(n)) for n in ("disk_total", "disk_used", "disk_free"))
    h.assume(z3.And(total.z >= 0, used.z >= 0, free.z >= 0, used.z <= total.z))
    h.reg.modfuncs["shutil.disk_usage"] = lambda I, a, k: SObj("usage", {"total": total, "used": used, "free": free})
    need = SInt(c.fresh_int("required_bytes"))
    out, val = h.run("disk_utils:check_disk_space", [h.str("dir_path"), need])
    mut = [e for e in os_t.events if e["op"] in ("remove", "replace", "os.write", "mkstemp", "makedirs", "open", "os.open", "rmdir", "utime")]
    h.ensure("DISK:check_disk_space-changes-nothing", not mut, detail=repr([e["op"] for e in mut]))
    if out == "raise":
        h.ensure("DISK:raises-only-OSError", val.cls in ("OSError", "IOError"), detail=repr(val))
    else:
        h.ensure("DISK:returns-None-only-when-the-required-bytes-are-free", z3.And(free.z >= need.z), detail="free < required must raise")


def h_estimate_write_size(h: H):
    """DISK: estimate_write_size is a total function of the content length (never raises, non-negative)."""
    c = h.ctx
    data = h.bytes("data")
    out, val = h.run("disk_utils:estimate_write_size", [data])
    h.ensure("DISK:estimate_write_size-never-raises", out == "ok", detail=repr(val) if out != "ok" else "")
    if out == "ok":
        h.ensure("DISK:estimate-is-a-non-negative-int", pyops.int_z(val) >= 0)


UNITS = {
    "DISK/check_disk_space": (h_check_disk_space, ["disk_utils:check_disk_space", "disk_utils:get_disk_space"]),
    "DISK/estimate_write_size": (h_estimate_write_size, ["disk_utils:estimate_write_size"]),
    "COUNT/recorded_manifest_count": (h_recorded_manifest_count, ["file_manager:recorded_manifest_count"]),
    "COUNT/expected_entry_count": (h_expected_entry_count, [f"{FM}:FileManager.expected_entry_count"]),
    "COUNT/_check_count": (h_check_count, [f"{FM}:FileManager._check_count"]),
    "NAME/_new_metadata_filename": (h_new_metadata_filename, [f"{MM}:MetadataManager._new_metadata_filename"]),
    "NAME-RT/generated-name": (h_name_roundtrip("generated"), [f"{MM}:MetadataManager._new_metadata_filename", f"{MM}:MetadataManager._parse_hint_content"]),
    "NAME-RT/legacy-name": (h_name_roundtrip("legacy-name"), [f"{MM}:MetadataManager._parse_hint_content"]),
    "NAME-RT/bare-number": (h_name_roundtrip("bare-number"), [f"{MM}:MetadataManager._parse_hint_content"]),
    "HELPER/verify_checksum": (h_verify_checksum, ["integrity:IntegrityChecker.verify_checksum"]),
    "HELPER/compute_checksum": (h_compute_checksum, ["integrity:IntegrityChecker.compute_checksum"]),
    "HELPER/compute_file_checksum": (h_compute_file_checksum, ["integrity:IntegrityChecker.compute_file_checksum"]),
    "HELPER/metadata-file-io": (h_metadata_file_io, [f"{MM}:MetadataManager._write_metadata_file", f"{MM}:MetadataManager._read_metadata_file"]),
    "HELPER/_deep_copy_metadata": (h_deep_copy, [f"{TX}:Transaction._deep_copy_metadata"]),
    "HELPER/validate_data_files": (h_validate_data_files, [f"{FM}:FileManager.validate_data_files"]),
    "HELPER/validate_file_exists": (h_validate_file_exists, [f"{FM}:FileManager.validate_file_exists"]),
    "HELPER/_get_current_schema": (h_get_current_schema, [f"{TX}:Table._get_current_schema"]),
}


def register_under(prop, names, replay=None):
    for n in names:
        hfn, fns = UNITS[n]
        register(Unit(prop, n, hfn, functions=fns, replay=replay, z3_timeout_ms=30000))
