"""C15 - table metadata stays well-formed through every history: per-mutator preservation of WF (contracts/snapshots.py)."""
from contracts import snapshots as S
from pyvc.runner import Unit, register

P = "C15"
META = dict(S.META)
for name, (harness, fns, replay) in S.UNITS.items():
    register(Unit(P, name, harness, functions=fns, replay=replay))
