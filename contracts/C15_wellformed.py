"""C15 - table metadata stays well-formed through every history: per-mutator preservation of WF (contracts/snapshots.py)."""
from contracts import snapshots as S
from pyvc.runner import Unit, register

P = "C15"
META = dict(S.META)
for name, (harness, fns, replay) in S.UNITS.items():
    register(Unit(P, name, harness, functions=fns, replay=replay))

from contracts import commitpath as cp
register(Unit(P, "CARRY/create_manifest_file-entries", cp.h_manifest_entries, functions=[f"{cp.FMOD}:FileManager.create_manifest_file"], replay=S._replay_carry))
register(Unit(P, "CARRY/read_manifest_file-entries", cp.h_manifest_read_entries, functions=[f"{cp.FMOD}:FileManager.read_manifest_file"], replay=S._replay_carry))
register(Unit(P, "DELETE-EXACT/_commit_file_ops", cp.h_commit_file_ops("both"), functions=[f"{cp.TX}:Transaction._commit_file_ops"], replay=S._replay_carry))

from contracts import helpers as _HLP  # noqa: E402
_HLP.register_under("C15", ["HELPER/validate_data_files", "HELPER/validate_file_exists"])

from contracts import commitpath as _cpl  # noqa: E402
register(Unit("C15", "LIST-ENTRIES/create_manifest_list_file", _cpl.h_manifest_list_entries, functions=["file_manager:FileManager.create_manifest_list_file"], replay=None))
