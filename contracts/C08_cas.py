"""C08 - a stale lock holder or delayed pointer write cannot lose an update on S3.
LIN-CAS (MetadataManager.commit under RG-any: the lock excludes nobody, any agent may flip the pointer at any action boundary):
acknowledged => the pointer replaced at landing time is the one whose content was validated.  FENCE, CAS-MAP, ETAG-SRC."""
from contracts import commitpath as cp
from pyvc.runner import Unit, register

P = "C08"
META = dict(cp.META)
MMC = [f"{cp.MM}:MetadataManager.commit"]
register(Unit(P, "LIN-CAS/MetadataManager.commit", cp.h_mm_commit("cas"), functions=MMC, replay=cp._replay_mm_commit))
register(Unit(P, "FENCE/MetadataManager.commit", cp.h_mm_commit_fence, functions=MMC, replay=cp._replay_mm_commit))
register(Unit(P, "CAS-MAP/_write_hint_at_commit_point", cp.h_write_hint(True, False),
              functions=[f"{cp.MM}:MetadataManager._write_hint_at_commit_point"], replay=cp._replay_mm_commit))
