"""C08 - a stale lock holder or delayed pointer write cannot lose an update on S3.
LIN-CAS (MetadataManager.commit under RG-any: the lock excludes nobody, any agent may flip the pointer at any action boundary):
acknowledged => the pointer replaced at landing time is the one whose content was validated.  FENCE, CAS-MAP, ETAG-SRC."""
from contracts import commitpath as cp
from pyvc.runner import Unit, register

P = "C08"
META = dict(cp.META)
MMC = [f"{cp.MM}:MetadataManager.commit"]
register(Unit(P, "LIN-CAS/MetadataManager.commit", cp.h_mm_commit("cas"), functions=MMC, replay=cp._replay_mm_commit))
register(Unit(P, "FENCE/MetadataManager.commit", cp.h_mm_commit_fence, functions=MMC, replay=cp._replay_mm_commit))
register(Unit(P, "CAS-MAP/_write_hint_at_commit_point", cp.h_write_hint(True, False),
              functions=[f"{cp.MM}:MetadataManager._write_hint_at_commit_point"], replay=cp._replay_mm_commit))
from contracts import C19_locks as _c19
register(Unit(P, "FENCE/S3LockProviderBase.is_held", _c19.h_is_held_s3, functions=["lock_provider:S3LockProviderBase.is_held"], replay=_c19._replay_s3lock, reg_factory=_c19.registry))

from contracts import helpers as _HLP  # noqa: E402
_HLP.register_under("C08", ["HELPER/metadata-file-io", "NAME/_new_metadata_filename"])

# FENCE rests on ownership checks that compare lock identities: identities must be unique per provider instance
from contracts import C19_locks as _c19  # noqa: E402
register(Unit(P, "FENCE/lock-identity", _c19.h_lock_identity, functions=[f"{_c19.LP}:S3LockProviderBase.__init__"], replay=_c19._replay_s3lock))

# a stale holder must NOTICE that it was superseded: the renewal (heartbeat) is what clears is_locked before the fence reads it
register(Unit(P, "FENCE/S3LockProvider._renew_once", _c19.h_renew, functions=[f"{_c19.LP}:S3LockProvider._renew_once"], replay=_c19._replay_takeover_renewal, reg_factory=_c19.registry))


from contracts import C20_storage as _c20  # noqa: E402
_c20.register_cas_map_under(P)
