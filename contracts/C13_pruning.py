"""C13 - file pruning never changes a query's answer.

  SOUND      filters._file_may_match: a file is skipped only if no row consistent with its stored bounds can
             satisfy the conjunct that caused the skip (every operator, NULL and NaN rows, missing bounds,
             unknown column, TypeError path), for column/literal kinds int, float (IEEE incl. NaN/inf), str, bool
             and the two mixed numeric pairs.  Unbounded in the number of conjuncts and in the length of IN lists.
  PRUNE      filters.prune_files_by_bounds: result = the files whose may-match is True, in order; bounds are
             looked up under the id the *table* schema gives the column name (ID-MAP).
  ROUNDTRIP  FileManager._decode_bound(_encode_bound(v)) == v with the same Python type.
  BOUNDS     DataFileManager._compute_column_bounds stores min/max of the column named by the field, under
             that field's id (T-arrow min/max).
"""
from __future__ import annotations

import z3

from pyvc import acc as _acc
from pyvc import pyops
from pyvc.engine import LoopSpec, PyRaise
from pyvc.pyops import PyExc
from pyvc.runner import H, Unit, base_registry, register, set_registry_factory
from pyvc.values import (SXReal, EnumVal, F64, PDict, PList, SBool, SExc, SFloat, SInt, SObj, SOpaque, SOpt, SStr, TheoryObj,
                         to_z3, usort)

P = "C13"
FL = "filters"
FM = "file_manager"
DO = "data_operations"

META = {
    "explanation": "Soundness of the per-operator pruning decision proved for arbitrary bounds/literals/rows; "
                   "lifting to whole-query equality (lemma PRUNE) uses T-arrow: a scan is the concatenation over files of "
                   "filter(rows(file)), and a conjunction that is false on every row of a file contributes no row.",
    "trusted": [
        "T-arrow: comparison kernels follow SQL/Kleene semantics on NULL and IEEE-754 on floats (NaN != x is true, NaN compares false otherwise); "
        "is_in treats NaN in the value set as matching NaN rows (observed on pyarrow 24; validated by tools/validate_arrow.py)",
        "T-arrow: pc.min / pc.max ignore NULL and NaN unless every non-null value is NaN (then NaN); as_py() is exact",
        "T-arrow: string comparison is by UTF-8 bytes = code point order = Python str order",
        "T-arrow: int column vs float literal (and float column vs int literal) compare as doubles; proved under the stated "
        "representability precondition |int| <= 2^53 (outside it pyarrow raises ArrowInvalid on the unpruned path)",
        "T-py: json.loads(json.dumps(x)) == x for dict/str/int/bool/float incl. NaN and +-Infinity; X.fromisoformat(x.isoformat()) == x",
        "lemma PRUNE (lifting per-conjunct soundness to result equality) is a meta-argument over T-arrow distributivity, not a solver obligation",
    ],
    "assumptions": ["date/time/timestamp bounds compare like integers of their ordinal (same VCs as int/int)"],
    "bounded": ["PRUNE/ID-MAP: schema with 3 fields (names concrete, ids/None symbolic) - bounded in the number of fields"],
}

OPS = {"EQ": "==", "NE": "!=", "LT": "<", "LE": "<=", "GT": ">", "GE": ">=", "IN": "in", "NOT_IN": "not_in",
       "IS_NULL": "is_null", "IS_NOT_NULL": "is_not_null"}


def registry():
    reg = base_registry()
    _acc.install(reg)
    return reg


set_registry_factory(P, registry)


def op_val(name):
    return EnumVal("FilterOp", name, OPS[name])


def xreal(h: H, name, report=True):
    nan, inf, r = z3.Bool(name + "__nan"), z3.Int(name + "__inf"), z3.Real(name + "__real")
    h.ctx.assume(z3.And(inf >= -1, inf <= 1))
    if report:
        h.report(name + "__nan", nan)
        h.report(name + "__inf", inf)
        h.report(name + "__real", r)
    return SXReal(nan, inf, r)


def sym(h: H, kind, name):
    if kind == "float":
        return xreal(h, name)
    return {"int": h.int, "str": h.str, "bool": h.bool}[kind](name)


def fresh(h: H, kind, name):
    c = h.ctx
    if kind == "int":
        return SInt(c.fresh_int(name))
    if kind == "float":
        n = c.fresh_name(name)
        x = xreal(h, n, report=False)
        return x
    if kind == "str":
        return SStr(c.fresh_str(name))
    if kind == "bool":
        return SBool(c.fresh_bool(name))
    raise ValueError(kind)


BIG = 2 ** 53


def representable(vals):
    cs = []
    for v in vals:
        if isinstance(v, SInt):
            cs.append(z3.And(v.z >= -BIG, v.z <= BIG))
    return z3.And(*cs) if cs else z3.BoolVal(True)


def order(op, a, b):
    return pyops.bool_z(pyops.py_order(op, a, b))


def eq(a, b):
    return pyops.bool_z(pyops.py_eq(a, b))


def isnan(v):
    return v.nan if isinstance(v, SXReal) else z3.BoolVal(False)


def bounds_inv(colkind, lo, hi, v, v_null):
    """BOUNDS-INV (post of _compute_column_bounds from T-arrow min/max): the witness row value v is NULL, or NaN, or
    lies in [lo, hi]; lo/hi are NaN only when every non-null value of the column is NaN."""
    if colkind == "float":
        regular = z3.And(z3.Not(isnan(lo)), z3.Not(isnan(hi)), z3.Or(isnan(v), z3.And(order("<=", lo, v), order("<=", v, hi))))
        allnan = z3.And(isnan(lo), isnan(hi), isnan(v))
        return z3.Or(v_null, regular, allnan)
    return z3.Or(v_null, z3.And(order("<=", lo, v), order("<=", v, hi)))


def arrow_keeps(opname, v, v_null, lit, inlist):
    """T-arrow: does the row with column value v (NULL if v_null) satisfy `col <op> lit` (i.e. evaluate to TRUE)?"""
    nn = z3.Not(v_null)
    if opname == "EQ":
        return z3.And(nn, eq(v, lit))
    if opname == "NE":
        return z3.And(nn, z3.Not(eq(v, lit)))
    if opname in ("LT", "LE", "GT", "GE"):
        return z3.And(nn, order({"LT": "<", "LE": "<=", "GT": ">", "GE": ">="}[opname], v, lit))
    if opname == "IN":
        return z3.And(nn, inlist)
    if opname == "NOT_IN":
        return z3.And(nn, z3.Not(inlist))
    if opname == "IS_NULL":
        return v_null
    if opname == "IS_NOT_NULL":
        return nn
    raise ValueError(opname)


def h_sound(colkind, litkind, bounds_shape="present", float32=False):
    """float32=True: the column is a 32-bit float column.  T-arrow: is_in casts the VALUE SET to the column's type, so the row with
    value v is kept by `col IN (..., e, ...)` iff v == round32(e); comparisons (==, <, ...) widen the column instead.  The bounds
    stored for the file are the widened column values.  The witness list element is then a double e with round32(e) == v."""
    def harness(h: H):
        c = h.ctx
        lo, hi, v = sym(h, colkind, "file_min"), sym(h, colkind, "file_max"), sym(h, colkind, "row_value")
        w_elem = v
        R32 = z3.Function("arrow.round_to_float32", z3.RealSort(), z3.RealSort())

        # T-py struct: unpack("f", pack("f", x))[0] = x rounded to a 32-bit float (the same rounding is_in applies); pack raises
        # OverflowError for finite values beyond the float32 range, struct.error for non-numbers
        def s_pack(I, a, k):
            x = I.force(a[1])
            if isinstance(x, SXReal):
                if I.ctx.flip("beyond-float32-range"):
                    raise PyRaise(SExc("OverflowError", origin="struct.pack('f'): float too large", fields={}))
                return TheoryObj("packed32", fields={"x": x})
            if isinstance(x, (SInt, int)) and not isinstance(x, bool):
                if I.ctx.flip("beyond-float32-range"):
                    raise PyRaise(SExc("OverflowError", origin="struct.pack('f'): int too large", fields={}))
                r = z3.ToReal(pyops.int_z(x))
                return TheoryObj("packed32", fields={"x": SXReal(z3.BoolVal(False), z3.IntVal(0), r)})
            raise PyRaise(SExc("struct.error", origin="struct.pack('f'): required argument is not a float", fields={}))

        def s_unpack(I, a, k):
            x = I.force(a[1]).fields["x"]
            return (SXReal(x.nan, x.inf, R32(x.r)),)
        h.reg.modfuncs["struct.pack"] = s_pack
        h.reg.modfuncs["struct.unpack"] = s_unpack
        if float32:
            w_elem = sym(h, "float", "in_list_element_before_rounding")
            # round32: identity on representable values (column values and bounds are), and the list element rounds to the row value
            h.assume(z3.And(z3.Not(w_elem.nan), w_elem.inf == 0, z3.Not(v.nan), v.inf == 0, R32(w_elem.r) == v.r, R32(v.r) == v.r,
                            R32(lo.r) == lo.r, R32(hi.r) == hi.r), "T-arrow: is_in rounds the value set to the column type (float32)")
            g_f32 = z3.Or(w_elem.r != v.r)
        v_null = z3.Bool("row_is_null")
        h.report("row_is_null", v_null)
        inlist = z3.Bool("row_value_in_IN_list")
        h.report("row_value_in_IN_list", inlist)
        h.assume(bounds_inv(colkind, lo, hi, v, v_null), "BOUNDS-INV")
        cur = {}

        def mk_lit(I, nm="literal"):
            return fresh(h, litkind, nm)

        def mk_expr(I):
            opname = list(OPS)[c.choose(len(OPS), "op")]
            column = ["c", "unknown_column"][c.choose(2, "column")]
            if opname in ("IN", "NOT_IN"):
                def mk_elem(I2):
                    if I2.ctx.flip("in-elem-none"):
                        return None
                    return mk_lit(I2, "in_elem")
                value = TheoryObj("symiter", fields={"mk": mk_elem, "witnesses": [(w_elem, inlist)]})
            elif opname in ("IS_NULL", "IS_NOT_NULL"):
                value = None
            else:
                value = mk_lit(I)
                if c.flip("literal-none"):
                    value = None
            cur.update(op=opname, column=column, value=value)
            if value is not None and not isinstance(value, TheoryObj):
                if isinstance(value, SXReal):
                    c.inputs["literal__nan"], c.inputs["literal__inf"], c.inputs["literal__real"] = value.nan, value.inf, value.r
                else:
                    c.inputs["literal"] = to_z3(value)
            return SObj("FilterExpression", {"column": column, "op": op_val(opname), "value": value})

        exprs = TheoryObj("symiter", fields={"mk": mk_expr})
        if bounds_shape == "present":
            lb, ub = PDict({7: lo}), PDict({7: hi})
        elif bounds_shape == "none":
            lb, ub = None, None
        elif bounds_shape == "missing-lower":
            lb, ub = PDict({8: lo}), PDict({7: hi})
        elif bounds_shape == "other-columns-only":
            # statistics for OTHER columns, none for the filtered one (binary/fixed columns never get bounds; append_files takes
            # pre-built files with partial statistics): nothing is known about the column
            lb, ub = PDict({8: lo, 9: lo}), PDict({8: hi, 9: hi})
        else:
            lb, ub = PDict({7: lo}), PDict({})
        df = SObj("DataFile", {"file_path": "/data/f.parquet", "lower_bounds": lb, "upper_bounds": ub})
        ids = PDict({"c": 7})
        h.reg.loops[f"{FL}:_file_may_match"] = {0: LoopSpec(invariant=lambda I, env, it: [], name="conjuncts")}
        out, val = h.run(f"{FL}:_file_may_match", [df, exprs, ids])
        h.ensure("may_match:no-raise", out == "ok")
        if out != "ok":
            return
        h.ensure("may_match:returns-bool", isinstance(val, bool))
        if val is False:
            opname, lit = cur.get("op"), cur.get("value")
            h.ensure("SOUND:skip-only-after-a-conjunct", opname is not None)
            if opname is None:
                return
            h.ensure("SOUND:never-skips-on-unknown-column-or-missing-bounds",
                     cur["column"] == "c" and bounds_shape == "present")
            if cur["column"] != "c" or bounds_shape != "present":
                return
            if lit is None and opname in ("EQ", "NE", "LT", "LE", "GT", "GE"):
                return  # comparison with a NULL literal is NULL on every row: nothing matches, any skip is sound
            pre = representable([lo, hi, v] + ([lit] if not isinstance(lit, TheoryObj) else [])) \
                if colkind != litkind else z3.BoolVal(True)
            keeps = arrow_keeps(opname, v, v_null, lit if not isinstance(lit, TheoryObj) else None, inlist)
            classes = []
            if colkind == "float":
                classes = [("nan-row-invisible-to-bounds", z3.And(z3.Not(v_null), isnan(v)))]
            if float32:
                if opname not in ("IN", "NOT_IN"):
                    return          # comparisons widen the column: covered by the float/float unit
                classes = [("float32-column:IN-list-literal-rounded-to-the-column-type-by-is_in", g_f32)]
            h.ensure(f"SOUND({opname}):skipped-file-has-no-matching-row", z3.Implies(pre, z3.Not(keeps)), classes=classes,
                     detail=f"column kind {colkind}, literal kind {litkind}")
            h.cover(f"SOUND({opname}):skip-reachable")
    return harness


def _fp_literal(s):
    return s


def _replay_sound(colkind, litkind):
    def gen(ob):
        m = ob.get("model") or {}
        name = ob.get("name", "")
        opname = name.split("SOUND(")[1].split(")")[0] if "SOUND(" in name else "NE"
        return f'''
import sys, math, tempfile, shutil, os
model = {m!r}
opname = {opname!r}; colkind = {colkind!r}; litkind = {litkind!r}
def conv(x, kind):
    if x is None: return None
    if kind == "float":
        if isinstance(x, str):
            t = x.strip()
            if "NaN" in t: return float("nan")
            if "oo" in t: return float("-inf") if t.startswith("-") else float("inf")
            return float(t)
        return float(x)
    if kind == "int": return int(x)
    if kind == "bool": return bool(x)
    return str(x)
def xr(name, kind):
    if kind == "float" and (name + "__nan") in model:
        if model[name + "__nan"]: return float("nan")
        if model[name + "__inf"]: return float("inf") * model[name + "__inf"]
        return float(model[name + "__real"])
    return conv(model.get(name), kind)
lo, hi, v = xr("file_min", colkind), xr("file_max", colkind), xr("row_value", colkind)
lit = xr("literal", litkind)
if lit is None: lit = v
rows = [x for x in (lo, hi) if x is not None and not (isinstance(x, float) and math.isnan(x))]
rows.append(None if model.get("row_is_null") else v)
if not rows: rows = [v]
from datashard import create_table
from datashard.data_structures import Schema
import datashard.transaction as tx, datashard.filters as filters
typ = {{"int": "long", "float": "double", "str": "string", "bool": "boolean"}}[colkind]
root = tempfile.mkdtemp(prefix="pyvc_replay_")
bad = []
try:
    t = create_table(os.path.join(root, "t"), schema=Schema(schema_id=1, fields=[{{"id": 1, "name": "k", "type": "long", "required": False}}, {{"id": 2, "name": "c", "type": typ, "required": False}}]))
    t.append_records([{{"k": i, "c": r}} for i, r in enumerate(rows)])
    sym = {{"EQ": "==", "NE": "!=", "LT": "<", "LE": "<=", "GT": ">", "GE": ">=", "IN": "in"}}[opname]
    litv = [lit] if opname == "IN" else lit
    flt = {{"c": (sym, litv)}}
    with_pruning = sorted(r["k"] for r in t.scan(filter=flt))
    orig = filters.prune_files_by_bounds
    filters.prune_files_by_bounds = lambda files, exprs, schema: files
    try:
        without = sorted(r["k"] for r in t.scan(filter=flt))
    finally:
        filters.prune_files_by_bounds = orig
    if with_pruning != without:
        bad.append(("rows", rows, "filter", flt, "pruned scan", with_pruning, "unpruned scan", without))
finally:
    shutil.rmtree(root, ignore_errors=True)
print("replay SOUND", opname, "->", bad or "pruned == unpruned")
sys.exit(1 if bad else 0)
'''
    return gen


KIND_PAIRS = [("int", "int"), ("float", "float"), ("str", "str"), ("bool", "bool"), ("float", "int"), ("int", "float")]
for _ck, _lk in KIND_PAIRS:
    register(Unit(P, f"SOUND/{_ck}-col/{_lk}-lit", h_sound(_ck, _lk), functions=[f"{FL}:_file_may_match"],
                  replay=_replay_sound(_ck, _lk), z3_timeout_ms=20000))
def _replay_partial_bounds(ob):
    return '''
import sys, os, tempfile, shutil
from datashard import create_table, load_table
from datashard.data_structures import Schema
root = tempfile.mkdtemp(prefix="pyvc_replay_")
bad = []
try:
    # a binary column never gets bounds, the long column does: the file carries statistics for OTHER columns only
    p = os.path.join(root, "t")
    t = create_table(p, schema=Schema(schema_id=1, fields=[{"id": 1, "name": "a", "type": "long", "required": False},
                                                           {"id": 2, "name": "b", "type": "binary", "required": False}]))
    t.append_records([{"a": 1, "b": b"xy"}, {"a": 2, "b": b"zz"}])
    for flt, want in (({"b": b"xy"}, [1]), ({"b": ("is_not_null", None)}, [1, 2]), ({"b": ("in", [b"zz", b"q"])}, [2])):
        try:
            got = sorted(r["a"] for r in load_table(p).scan(filter=flt))
        except Exception as e:
            got = "raised " + type(e).__name__
        if got != want: bad.append(("filter on a column without bounds", flt, got, want))
finally:
    shutil.rmtree(root, ignore_errors=True)
print("replay partial bounds ->", bad or "ok")
sys.exit(1 if bad else 0)
'''


def _replay_float32(ob):
    return '''
import sys, os, tempfile, shutil
from datashard import create_table, load_table
from datashard.data_structures import Schema
import datashard.filters as F, datashard.transaction as T
root = tempfile.mkdtemp(prefix="pyvc_replay_")
bad = []
try:
    p = os.path.join(root, "t")
    t = create_table(p, schema=Schema(schema_id=1, fields=[{"id": 1, "name": "f", "type": "float", "required": False}, {"id": 2, "name": "k", "type": "long", "required": False}]))
    t.append_records([{"f": 0.1, "k": 1}, {"f": 0.1, "k": 2}]); t.append_records([{"f": 5.0, "k": 3}])
    real = F.prune_files_by_bounds
    for flt in ({"f": ("in", [0.1])}, {"f": ("not_in", [0.1])}, {"f": ("in", [5.0, 0.1])}):
        res = []
        for fn in (real, lambda files, *a, **k: list(files)):
            F.prune_files_by_bounds = fn
            try: res.append(sorted(r["k"] for r in load_table(p).scan(filter=flt)))
            finally: F.prune_files_by_bounds = real
        if res[0] != res[1]: bad.append(("float32 column: pruning changes the answer", flt, "pruned", res[0], "unpruned", res[1]))
finally:
    shutil.rmtree(root, ignore_errors=True)
print("replay float32 IN ->", bad or "ok")
sys.exit(1 if bad else 0)
'''


register(Unit(P, "SOUND/float32-col/IN-list", h_sound("float", "float", float32=True), functions=[f"{FL}:_file_may_match"], replay=_replay_float32, z3_timeout_ms=20000))
for _shape in ("none", "missing-lower", "missing-upper", "other-columns-only"):
    register(Unit(P, f"SOUND/bounds-{_shape}", h_sound("int", "int", _shape), functions=[f"{FL}:_file_may_match"], replay=_replay_partial_bounds))


# =================================================================================== ROUNDTRIP
def json_theory(h: H):
    """T-py JSON-RT: json.loads(json.dumps(x)) == x for the JSON shapes the code writes (dict with str keys, str, int,
    bool, float incl. NaN/inf).  dumps returns an otherwise unconstrained string remembered in ghost state."""
    store = h.ctx.ghost.setdefault("json", {})

    def norm(x):
        if isinstance(x, PDict):
            out = {}
            for k, v in x.d.items():
                if not isinstance(k, str):
                    k = str(k) if isinstance(k, (int, bool)) else k
                out[k] = norm(v)
            return PDict(out)
        if isinstance(x, PList):
            return PList([norm(i) for i in x.items])
        if isinstance(x, tuple):
            return PList([norm(i) for i in x])
        if isinstance(x, (SOpaque, TheoryObj, SObj)):
            raise PyExc("TypeError", "not JSON serializable")
        return x

    def dumps(I, a, k):
        s = I.ctx.fresh_str("json")
        store[s.sexpr()] = norm(a[0])
        I.ctx.use("T-py:JSON-RT loads(dumps(x)) == x")
        return SStr(s)

    def loads(I, a, k):
        x = a[0]
        if isinstance(x, SStr) and x.z.sexpr() in store:
            return norm(store[x.z.sexpr()])
        raise PyRaise(SExc("JSONDecodeError", origin="json.loads of a string not produced by json.dumps in this run"))
    h.reg.modfuncs["json.dumps"] = dumps
    h.reg.modfuncs["json.loads"] = loads


def iso_theory(h: H):
    store = h.ctx.ghost.setdefault("iso", {})

    def isoformat(I, obj, a, k):
        s = I.ctx.fresh_str("iso")
        ts = k.get("timespec", a[1] if len(a) > 1 else "auto")
        if ts not in ("auto", "microseconds") or (a and a[0] not in ("T", " ")):
            # a coarser timespec drops sub-second digits: the string no longer determines the value (no ISO-RT)
            return SStr(s)
        store[s.sexpr()] = obj
        I.ctx.use("T-py:ISO-RT X.fromisoformat(x.isoformat()) == x for datetime/date/time")
        return SStr(s)

    def mk_from(sort):
        def fromiso(I, a, k):
            x = a[0]
            if isinstance(x, SStr) and x.z.sexpr() in store and store[x.z.sexpr()].sort == sort:
                return store[x.z.sexpr()]
            raise PyRaise(SExc("ValueError", origin=f"{sort}.fromisoformat of a foreign string"))
        return fromiso
    for sort in ("datetime.datetime", "datetime.date", "datetime.time"):
        h.reg.theory_methods[(sort, "isoformat")] = isoformat
        h.reg.modfuncs[f"{sort}.fromisoformat"] = mk_from(sort)


RT_KINDS = ["bool", "int", "float", "str", "datetime.datetime", "datetime.date", "datetime.time"]


def h_roundtrip(kind):
    def harness(h: H):
        json_theory(h)
        iso_theory(h)
        if kind == "float":
            v = h.float("v")
        elif kind in ("bool", "int", "str"):
            v = {"bool": h.bool, "int": h.int, "str": h.str}[kind]("v")
        else:
            v = SOpaque(kind, z3.Const("v", usort(kind)))
        from pyvc.values import ClassVal
        fmcls = ClassVal("FileManager", h.repo.find_class("FileManager"))
        out, enc = h.run(f"{FM}:FileManager._encode_bound", [v])
        h.ensure("roundtrip:encode-no-raise", out == "ok")
        h.ensure("roundtrip:encoded-is-str", isinstance(enc, (str, SStr)))
        out2, dec = h.run(f"{FM}:FileManager._decode_bound", [fmcls, enc])
        h.ensure("roundtrip:decode-no-raise", out2 == "ok")
        if out2 != "ok":
            return
        from pyvc.values import kind_of
        h.ensure("roundtrip:same-python-type", kind_of(dec) == kind_of(v))
        if kind_of(dec) == kind_of(v):
            h.ensure("roundtrip:same-value", to_z3(dec) == to_z3(v))
    return harness


def _replay_roundtrip(ob):
    return '''
import sys, math, datetime
from datashard.file_manager import FileManager
vals = [True, False, 0, -1, 2**53 + 1, -(2**63), 10**30, 0.1, -0.0, 1e308, float("inf"), float("-inf"), float("nan"),
        1.5, 0.10000000149011612, "", "123", "1e5", "true", "naïve ✓", "{\\"t\\": \\"int\\", \\"v\\": 1}",
        datetime.datetime(2024, 1, 2, 3, 4, 5, 678901), datetime.datetime(2024, 1, 2, tzinfo=datetime.timezone.utc),
        datetime.date(1970, 1, 1), datetime.time(23, 59, 59, 999999)]
bad = []
for v in vals:
    d = FileManager._decode_bound(FileManager._encode_bound(v))
    same = (type(d) is type(v)) and (d == v or (isinstance(v, float) and math.isnan(v) and math.isnan(d)))
    if isinstance(v, float) and same and not math.isnan(v): same = math.copysign(1, d) == math.copysign(1, v)
    if not same: bad.append((repr(v), repr(d)))
print("replay roundtrip ->", bad or "all values survive with their type")
sys.exit(1 if bad else 0)
'''


for _k in RT_KINDS:
    register(Unit(P, f"ROUNDTRIP/{_k}", h_roundtrip(_k), functions=[f"{FM}:FileManager._encode_bound", f"{FM}:FileManager._decode_bound"],
                  replay=_replay_roundtrip))


# =================================================================================== PRUNE / ID-MAP
def h_prune(h: H):
    c = h.ctx
    stores = _acc.new_acc("col_name_to_id")
    kept = _acc.new_acc("pruned")
    cur = {}

    def mk_field(I):
        fid = SOpt(I.ctx.fresh_bool("id_none"), SInt(I.ctx.fresh_int("fid")))
        nm = SOpt(I.ctx.fresh_bool("name_none"), SStr(I.ctx.fresh_str("fname")))
        d = {"id": fid, "name": nm, "type": "long"}
        if I.ctx.flip("field-has-no-id-key"):
            d.pop("id")
        cur["field"] = d
        return PDict(d)

    def mk_file(I):
        f = SObj("DataFile", {"file_path": SStr(I.ctx.fresh_str("fp"))}, label="file")
        cur["file"] = f
        return f

    mm_calls = []

    def may_match(I, fv, args, kwargs):  # callee contract: a bool (SOUND units prove what it means)
        mm_calls.append(args)
        r = I.ctx.flip("may-match")
        cur["mm"] = r
        return r
    h.reg.contracts[f"{FL}:_file_may_match"] = may_match

    def inv_fields(I, env, it):
        if not it.get("after_body"):
            return []
        d = cur["field"]
        adds = stores.fields["added"]
        fid, nm = d.get("id"), d["name"]
        want = z3.And(z3.Not(fid.isnone), z3.Not(nm.isnone), z3.Length(nm.val.z) > 0) if fid is not None else z3.BoolVal(False)
        if len(adds) == 0:
            return [("ID-MAP:field-without-id-or-name-is-not-mapped", z3.Not(want))]
        if len(adds) > 1:
            return [("ID-MAP:one-entry-per-field", z3.BoolVal(False))]
        k, v = adds[0]
        return [("ID-MAP:entry-only-for-field-with-id-and-name", want),
                ("ID-MAP:name->this-field's-id", z3.And(pyops.bool_z(pyops.py_eq(k, nm)), pyops.bool_z(pyops.py_eq(v, fid))))]

    def havoc_fields(I, env, it):
        env.vars["col_name_to_id"] = stores
        _acc.reset(stores)

    exprs = PList([SObj("FilterExpression", {"column": "c", "op": op_val("EQ"), "value": SInt(c.fresh_int("lit"))})])

    def inv_files(I, env, it):
        if not it.get("after_body"):
            return []
        adds = kept.fields["added"]
        res = [("PRUNE:may_match-consulted-once-per-file", z3.BoolVal(len(mm_calls) == 1))]
        if len(mm_calls) == 1:
            a = mm_calls[0]
            res.append(("PRUNE:may_match(file, the-expressions, the-table-schema-mapping)",
                        z3.BoolVal(a[0] is cur["file"] and a[1] is exprs and a[2] is stores)))
            res.append(("PRUNE:file-kept<=>may_match", z3.BoolVal((len(adds) == 1 and adds[0] is cur["file"]) if cur["mm"] else len(adds) == 0)))
        return res

    def havoc_files(I, env, it):
        env.vars["pruned"] = kept
        _acc.reset(kept)
        del mm_calls[:]

    h.reg.loops[f"{FL}:prune_files_by_bounds"] = {
        0: LoopSpec(invariant=inv_fields, havoc=havoc_fields, name="fields", skip=["col_name_to_id", "field_id", "field_name"]),
        1: LoopSpec(invariant=inv_files, havoc=havoc_files, name="files", skip=["pruned"])}
    files = TheoryObj("symiter", fields={"mk": mk_file})
    schema = SObj("Schema", {"schema_id": 1, "fields": TheoryObj("symiter", fields={"mk": mk_field})})
    out, val = h.run(f"{FL}:prune_files_by_bounds", [files, exprs, schema])
    h.ensure("PRUNE:no-raise", out == "ok")
    h.ensure("PRUNE:returns-kept-list-or-input", val is kept or val is files)


def h_prune_noop(h: H):
    """no expressions -> the input list itself (nothing pruned)."""
    files = PList([SObj("DataFile", {"file_path": "a"})])
    schema = SObj("Schema", {"schema_id": 1, "fields": PList([])})
    out, val = h.run(f"{FL}:prune_files_by_bounds", [files, PList([]), schema])
    h.ensure("PRUNE:no-expressions=>identity", out == "ok" and val is files)


register(Unit(P, "PRUNE/prune_files_by_bounds", h_prune, functions=[f"{FL}:prune_files_by_bounds"]))
register(Unit(P, "PRUNE/no-expressions", h_prune_noop, functions=[f"{FL}:prune_files_by_bounds"]))


# =================================================================================== BOUNDS
def h_bounds(h: H):
    c = h.ctx
    lows, ups = _acc.new_acc("lower_bounds"), _acc.new_acc("upper_bounds")
    cur = {}
    has_col = z3.Function("table.has_column", z3.StringSort(), z3.BoolSort())
    PV = usort("pyval")
    MIN = z3.Function("arrow.min", z3.StringSort(), PV)
    MAX = z3.Function("arrow.max", z3.StringSort(), PV)
    MIN_NONE = z3.Function("arrow.min_is_none", z3.StringSort(), z3.BoolSort())
    MAX_NONE = z3.Function("arrow.max_is_none", z3.StringSort(), z3.BoolSort())

    def mk_field(I):
        fid = SOpt(I.ctx.fresh_bool("id_none"), SInt(I.ctx.fresh_int("fid")))
        nm = SOpt(I.ctx.fresh_bool("name_none"), SStr(I.ctx.fresh_str("fname")))
        ty = SStr(I.ctx.fresh_str("ftype"))
        cur["field"] = (fid, nm, ty)
        cur["notimpl"] = False
        cur.pop("kind", None)
        return PDict({"id": fid, "name": nm, "type": ty})

    R = h.reg.theory_methods
    R[("arrowtable", "column")] = lambda I, o, a, k: TheoryObj("arrowcolumn", fields={"name": I.force(a[0]), "type": "t"})
    h.reg.theory_attrs[("arrowtable", "column_names")] = lambda I, o: TheoryObj("colnames")
    h.reg.theory_attrs[("arrowcolumn", "type")] = lambda I, o: "t"
    R[("colnames", "__contains__")] = lambda I, o, a, k: SBool(has_col(pyops.str_z(I.force(a[0]))))

    MIN_S = z3.Function("arrow.min_as_str", z3.StringSort(), z3.StringSort())
    MAX_S = z3.Function("arrow.max_as_str", z3.StringSort(), z3.StringSort())
    MIN_I = z3.Function("arrow.min_as_int", z3.StringSort(), z3.IntSort())
    MAX_I = z3.Function("arrow.max_as_int", z3.StringSort(), z3.IntSort())
    typed = {"min": (MIN_S, MIN_I), "max": (MAX_S, MAX_I)}

    def mk_agg(fn, none_fn, what):
        def agg(I, a, k):
            col = a[0]
            if I.ctx.flip(f"{what}-not-implemented"):
                cur["notimpl"] = True
                raise PyRaise(SExc("ArrowNotImplementedError", origin=f"pc.{what}"))
            nz = pyops.str_z(col.fields["name"])
            # as_py() of the aggregate: a Python value of the column's kind - a str, an int, or something else (opaque)
            kind = cur.setdefault("kind", I.ctx.choose(3, "column-value-kind"))
            if kind == 0:
                val = SOpaque("pyval", fn(nz))
            elif kind == 1:
                val = SStr(typed[what][0](nz))
            else:
                val = SInt(typed[what][1](nz))
            return TheoryObj("arrowscalar", fields={"v": SOpt(none_fn(nz), val)})
        return agg
    h.reg.modfuncs["pyarrow.compute.min"] = mk_agg(MIN, MIN_NONE, "min")
    h.reg.modfuncs["pyarrow.compute.max"] = mk_agg(MAX, MAX_NONE, "max")
    R[("arrowscalar", "as_py")] = lambda I, o, a, k: o.fields["v"]

    def inv(I, env, it):
        if not it.get("after_body"):
            return []
        fid, nm, ty = cur["field"]
        res = []
        nz = nm.val.z
        unprunable = z3.Or(*[ty.z == z3.StringVal(t) for t in ("binary", "fixed", "list", "map", "struct")])
        eligible = z3.And(z3.Not(fid.isnone), z3.Not(nm.isnone), has_col(nz), z3.Not(unprunable))
        for accu, fn, none_fn, tag in ((lows, MIN, MIN_NONE, "lower"), (ups, MAX, MAX_NONE, "upper")):
            adds = accu.fields["added"]
            if len(adds) > 1:
                res.append((f"BOUNDS:{tag}:one-entry-per-field", z3.BoolVal(False)))
                continue
            if len(adds) == 1:
                k, v = adds[0]
                if isinstance(v, SOpt):
                    v = v.val  # the store is guarded by `is not None` (path condition), the wrapper remains
                if isinstance(k, SOpt):
                    k = k.val
                res.append((f"BOUNDS:{tag}:keyed-by-this-field's-id", z3.And(eligible, pyops.bool_z(pyops.py_eq(k, fid.val)))))
                what = "min" if tag == "lower" else "max"
                # what pruning needs: stored lower bound <= column minimum, stored upper bound >= column maximum (in the order
                # the comparison kernels use); for values of unknown kind no order is known, so exactly the aggregate
                if isinstance(v, SOpaque):
                    same = to_z3(v) == fn(nz)
                elif isinstance(v, SStr):
                    m = typed[what][0](nz)
                    same = (v.z <= m) if what == "min" else (m <= v.z)
                elif isinstance(v, SInt):
                    m = typed[what][1](nz)
                    same = (v.z <= m) if what == "min" else (m <= v.z)
                else:
                    same = z3.BoolVal(False)
                res.append((f"BOUNDS:{tag}:stored-bound-is-{'at-most-the-min' if what == 'min' else 'at-least-the-max'}-of-the-column-named-by-this-field",
                            z3.And(z3.Not(none_fn(nz)), same)))
            elif not cur["notimpl"]:
                res.append((f"BOUNDS:{tag}:stored-whenever-defined", z3.Not(z3.And(eligible, z3.Not(none_fn(nz))))))
        return res

    def havoc(I, env, it):
        env.vars["lower_bounds"] = lows
        env.vars["upper_bounds"] = ups
        _acc.reset(lows)
        _acc.reset(ups)

    h.reg.loops[f"{DO}:DataFileManager._compute_column_bounds"] = {
        0: LoopSpec(invariant=inv, havoc=havoc, name="fields",
                    skip=["lower_bounds", "upper_bounds", "column", "min_scalar", "max_scalar", "min_val", "max_val",
                          "field_id", "field_name", "field_type"])}
    schema = SObj("Schema", {"schema_id": 1, "fields": TheoryObj("symiter", fields={"mk": mk_field})})
    dfm = SObj("DataFileManager", {})
    out, val = h.run(f"{DO}:DataFileManager._compute_column_bounds", [dfm, TheoryObj("arrowtable"), schema])
    h.ensure("BOUNDS:no-raise", out == "ok")
    if out == "ok":
        h.ensure("BOUNDS:returns-(lower,upper)", isinstance(val, tuple) and len(val) == 2 and
                 (val[0] is lows or val[0] is None) and (val[1] is ups or val[1] is None))


register(Unit(P, "BOUNDS/_compute_column_bounds", h_bounds, functions=[f"{DO}:DataFileManager._compute_column_bounds"]))

# ID-MAP looks bounds up under the TABLE schema's field ids while files are written with the ids of the schema given to the
# append: sound only if an accepted schema argument has the table's ids (C11 SIG / ACCEPT-EQUIV, re-run here)
from contracts import C11_appends as _c11  # noqa: E402
register(Unit("C13", "ID-CONSISTENT/_schema_signature", _c11.h_signature, functions=["transaction:Transaction._schema_signature"], replay=None))
register(Unit("C13", "ID-CONSISTENT/_validate_schema_against_table", _c11.h_validate, functions=["transaction:Transaction._validate_schema_against_table"], replay=None))


# the bounds the pruner trusts are computed on the write path: the statistics of a data file come from the very records written
def _h_write_whole(h):            # C11_appends imports this module: resolve it at run time
    from contracts import C11_appends as _c11w
    return _c11w.h_write_data_file(h)


def _replay_write_whole(ob):
    from contracts import C11_appends as _c11w
    return _c11w._replay_c11(ob)


register(Unit(P, "BOUNDS-WHOLE/write_data_file", _h_write_whole, functions=["data_operations:DataFileManager.write_data_file"], replay=_replay_write_whole))
