"""C02 - readers observe only whole committed snapshots.  ONE-READ: the file list every read API uses comes from ONE metadata
read (single pointer read -> immutable metadata -> immutable manifests); ROWS: each file of that listing contributes once;
the environment (other writers) may advance the pointer between any two metadata reads (rely R_immut).
Atomic visibility of multi-operation transactions is C01 RETRY (at most one pointer flip per commit)."""
from contracts import readpath as rp
from pyvc.runner import Unit, register

P = "C02"
META = dict(rp.META)
META["trusted"] = list(META["trusted"]) + [
    "R_immut: files reachable from a retained snapshot are never modified; names with a uuid token are never reused (guaranteed by C09 WRITE-ONCE)",
    "reads of immutable files need no environment step; only metadata (pointer) reads do",
]
for n, hf, fs in rp.GADF_UNITS_RG + [u for u in rp.READ_UNITS if "scan" in u[0] or "iter_records" in u[0]]:
    register(Unit(P, n, hf, functions=fs, replay=rp._replay_gadf))
for n, hf, fs in rp.REFRESH_UNITS:
    register(Unit(P, n, hf, functions=fs, replay=rp._replay_refresh))
from contracts import commitpath as _cp
for kind in ("file-ops", "metadata-only"):
    register(Unit(P, f"ATOMIC-VIS/Transaction.commit-{kind}", _cp.h_tx_commit(kind, False), functions=[f"{_cp.TX}:Transaction.commit"], replay=_cp._replay_tx))

# monotonicity of successive reads: versions only advance (WRITABLE, proved on MetadataManager.commit here) + lemma MONO
from contracts import commitpath as _cp  # noqa: E402
from contracts import lemmas as _L  # noqa: E402
register(Unit(P, "MONO/MetadataManager.commit-local", _cp.h_mm_commit("local"), functions=[f"{_cp.MM}:MetadataManager.commit"], replay=_cp._replay_mm_commit))
register(Unit(P, "LEMMA/MONO", _L.h_mono, functions=[], replay=None,
              uses=["WRITABLE:next-version=resolved-version+1(1-only-if-nothing-is-resolvable)", "LIN:the-replaced-pointer-is-the-validated-one(no-write-in-between)"]))

from contracts import helpers as _HLP  # noqa: E402
_HLP.register_under("C02", ["HELPER/_get_current_schema"])
