"""C17 - no operation escapes the table root.

  RESOLVE     LocalStorageBackend._resolve_path: for every base path, every path string and every symlink layout (symbolic
              realpath), returns f = realpath(join(base, rel)) with Inside(realpath(base), f), or raises ValueError.
  CONTAINED   every public method of LocalStorageBackend hands the OS only paths inside the canonical root (precondition
              Inside(realbase, p) on every T-os call), derived paths (dirname, temp names, walk results) included; an escaping
              input raises ValueError before any OS call (REJECT).
  LIST-REL    list_files returns names relative to the canonical root, none starting with '..', or raises.
  ARROW-PATH  DataFileManager._get_arrow_path returns an inside path or raises, for table-relative, Iceberg-style and true
              absolute inputs; open_parquet_source validates before opening.
"""
from __future__ import annotations

import z3

from pyvc import acc as _acc
from pyvc import pyops
from pyvc.ctx import PathEnd, Unsupported
from pyvc.engine import LoopSpec, PyRaise
from pyvc.pyops import PyExc
from pyvc.runner import H, Unit, base_registry, register, set_registry_factory
from pyvc.theories import misc, osfs, pybuiltins as pb
from pyvc.theories.osfs import AP, BN, DN, NORMABS, REAL, RP, SLASH, OsTheory, inside, join2
from pyvc.values import (ClassVal, PDict, PList, SBool, SBytes, SExc, SInt, SObj, SOpt, SStr, TheoryObj, to_z3)

P = "C17"
SB = "storage_backend"
DO = "data_operations"
STR = z3.StringSort()

META = {
    "explanation": "Containment as a precondition of every T-os call, proved at every call site of the local backend; symlink "
                   "layouts are covered by treating realpath as an arbitrary function into normalised symlink-free paths.",
    "trusted": [
        "T-os path algebra (join definitional; realpath/abspath/commonpath/dirname/basename/relpath axioms of pyvc/theories/osfs.py)",
        "T-os lemmas INSIDE-DIRNAME (parent of an inside non-root path is inside) and OUTSIDE-PARENT (parent of the root is outside)",
        "A-toctou: the symlink layout does not change during one call",
        "os.walk does not follow directory symlinks: its roots lie below the top directory",
    ],
    "assumptions": ["S3 has no traversal notion beyond the key prefix (C20 KEY-MAP)"],
}


def registry():
    reg = base_registry()
    _acc.install(reg)
    misc.install_rlock(reg)
    return reg


set_registry_factory(P, registry)


def backend(h: H):
    base = h.str("base_path")
    # one backend object serves a table for its whole life: per-instance caches hold whatever earlier calls left there
    h.reg.stale_state.add("LocalStorageBackend")
    be = h.obj("LocalStorageBackend", base_path=base)
    return be, base


def lemmas(h: H, rb, f):
    """T-os lemma instances for the canonical root rb and a path f"""
    h.assume(z3.Implies(z3.And(inside(rb, f), f != rb), inside(rb, DN(f))), "T-os: INSIDE-DIRNAME")
    h.assume(z3.Implies(rb != SLASH, z3.Not(inside(rb, DN(rb)))), "T-os: OUTSIDE-PARENT")


# =================================================================================== RESOLVE
def h_resolve(h: H):
    be, base = backend(h)
    path = h.str("path")
    os_t = OsTheory(h)
    os_t.install(h.reg)
    out, val = h.run(f"{SB}:LocalStorageBackend._resolve_path", [be, path])
    rb = RP(base.z)
    rps = [e for e in os_t.events]
    if out == "ok":
        vz = pyops.str_z(val)
        h.ensure("RESOLVE:result-inside-canonical-root", inside(rb, vz))
        h.ensure("RESOLVE:result-is-symlink-free-and-normalised", z3.And(REAL(vz), NORMABS(vz)))
        # the path that was canonicalised is rooted at the base: join(base, rel) with rel not absolute
        rel = z3.String("rel")
        h.ensure("RESOLVE:canonicalises-join(base,relative-part)",
                 z3.Or(vz == RP(join2(base.z, path.z)), z3.PrefixOf(SLASH, path.z)))
        h.cover("RESOLVE:accepts")
    else:
        h.ensure("RESOLVE:rejects-with-ValueError", val.cls == "ValueError", detail=repr(val))
        h.cover("RESOLVE:rejects")


def h_resolve_stateless(h: H):
    """STATELESS: a second call, made after the symlink layout changed (another realpath function), is decided on the
    layout of ITS OWN instant - nothing is remembered from the first call."""
    be, base = backend(h)
    path = h.str("path")
    os_t = OsTheory(h)
    os_t.install(h.reg)
    out1, val1 = h.run(f"{SB}:LocalStorageBackend._resolve_path", [be, path])
    # the layout changes: realpath is now a different function
    RP2 = z3.Function("os.realpath_after_layout_change", STR, STR)

    def p_realpath2(I, a, k):
        p = os_t.sz(I, a[0])
        r = RP2(p)
        I.ctx.assume(z3.And(NORMABS(r), REAL(r), z3.PrefixOf(SLASH, r)))
        I.ctx.assume(z3.Or(r == SLASH, z3.Not(z3.SuffixOf(SLASH, r))))
        return pyops.mk_str(r)
    h.reg.modfuncs["os.path.realpath"] = p_realpath2
    out2, val2 = h.run(f"{SB}:LocalStorageBackend._resolve_path", [be, path])
    rb2 = RP2(base.z)
    if out2 == "ok":
        h.ensure("STATELESS:second-call-contained-in-the-CURRENT-canonical-root", inside(rb2, pyops.str_z(val2)))
        h.ensure("STATELESS:second-call-canonicalised-under-the-CURRENT-layout",
                 z3.Or(pyops.str_z(val2) == RP2(join2(base.z, path.z)), z3.PrefixOf(SLASH, path.z)))
    else:
        h.ensure("STATELESS:second-call-rejects-with-ValueError", val2.cls == "ValueError")


def _replay_resolve(ob):
    return '''
import sys, os, tempfile, shutil
from datashard.storage_backend import LocalStorageBackend
root = tempfile.mkdtemp(prefix="pyvc_replay_")
bad = []
try:
    table = os.path.join(root, "tbl"); sib = os.path.join(root, "tbl2"); out = os.path.join(root, "outside")
    for d in (table, sib, out, os.path.join(table, "data")): os.makedirs(d)
    open(os.path.join(out, "secret"), "w").write("s"); open(os.path.join(sib, "x"), "w").write("s")
    os.symlink(out, os.path.join(table, "link_out")); os.symlink(os.path.join(table, "data"), os.path.join(table, "link_in"))
    os.symlink(table, os.path.join(root, "via_link"))
    for basep in (table, os.path.join(root, "via_link"), table + "/"):
        be = LocalStorageBackend(basep); real = os.path.realpath(basep)
        for p in ["", ".", "data/x", "/data/x", "../tbl2/x", "data/../../tbl2/x", "/../outside/secret", "link_out/secret", "link_in/y",
                  "//etc/passwd", "/etc/passwd", "data//x", "./data/./x", "..", "../tbl", "link_out", "data/../link_out/secret", sib + "/x"]:
            try:
                f = be._resolve_path(p)
                if not (f == real or f.startswith(real + os.sep)): bad.append((basep, p, f))
            except ValueError:
                pass
    # the same path string resolved twice while the layout changes in between
    be = LocalStorageBackend(table)
    os.makedirs(os.path.join(table, "data", "staging"))
    be.exists("data/staging/x")
    shutil.rmtree(os.path.join(table, "data", "staging")); os.symlink(out, os.path.join(table, "data", "staging"))
    real = os.path.realpath(table)
    try:
        f = be._resolve_path("data/staging/x")
        if not (f == real or f.startswith(real + os.sep)): bad.append(("stale resolution reused after the layout changed", f))
    except ValueError: pass
finally:
    shutil.rmtree(root, ignore_errors=True)
print("replay resolve ->", bad or "contained")
sys.exit(1 if bad else 0)
'''


register(Unit(P, "RESOLVE/_resolve_path", h_resolve, functions=[f"{SB}:LocalStorageBackend._resolve_path", f"{SB}:LocalStorageBackend._real_base_path"],
              replay=_replay_resolve))


# =================================================================================== CONTAINED (public methods)
def resolve_contract(h: H, base, calls):
    """callee contract of _resolve_path (RESOLVE): returns f with Inside(RP(base), f), REAL, NORMABS -- or raises ValueError."""
    rb = RP(base.z)

    def contract(I, fv, args, kwargs):
        p = args[-1]
        if I.ctx.flip("path-escapes"):
            calls.append(("reject", p))
            raise PyRaise(SExc("ValueError", origin="_resolve_path: outside the table root", fields={"reject": True}))
        f = I.ctx.fresh_str("resolved")
        I.ctx.assume(z3.And(inside(rb, f), REAL(f), NORMABS(f), z3.PrefixOf(SLASH, f), NORMABS(rb), z3.PrefixOf(SLASH, rb)))
        lemmas(h, rb, f)
        calls.append(("ok", p, f))
        return SStr(f)
    h.reg.contracts[f"{SB}:LocalStorageBackend._resolve_path"] = contract
    return rb


METHODS = {
    "read_file": lambda h: [h.str("path")],
    "open_file": lambda h: [h.str("path")],
    "open_seekable": lambda h: [h.str("path")],
    "write_file": lambda h: [h.str("path"), h.bytes("content")],
    "exists": lambda h: [h.str("path")],
    "delete_file": lambda h: [h.str("path")],
    "makedirs": lambda h: [h.str("path")],
    "get_size": lambda h: [h.str("path")],
    "get_modified_time": lambda h: [h.str("path")],
    "read_json": lambda h: [h.str("path")],
    "create_lock": lambda h: [h.str("path")],
}
CREATES = {"mkstemp", "replace", "remove", "os.open", "open"}


def h_method(name):
    def harness(h: H):
        be, base = backend(h)
        calls = []
        rb = resolve_contract(h, base, calls)
        touched = []

        def containment(op, p, kind):
            touched.append((op, p, kind))
            h.ensure(f"CONTAINED:{name}:{op}({kind})-path-inside-canonical-root", inside(rb, p),
                     detail="every path handed to the OS lies inside realpath(base)")
        os_t = OsTheory(h, containment=containment)
        os_t.install(h.reg)
        h.reg.contracts["disk_utils:check_disk_space"] = lambda I, fv, a, k: None
        h.reg.contracts["disk_utils:estimate_write_size"] = lambda I, fv, a, k: SInt(I.ctx.fresh_int("est"))
        h.reg.contracts["integrity:IntegrityChecker.compute_checksum"] = lambda I, fv, a, k: SStr(I.ctx.fresh_str("sha"))
        h.reg.modfuncs["json.loads"] = lambda I, a, k: PDict({})
        h.reg.class_ctor["LocalLockProvider"] = lambda I, cv, a, k: TheoryObj("lockprovider", fields={"path": a[0]})
        args = METHODS[name](h)
        out, val = h.run(f"{SB}:LocalStorageBackend.{name}", [be] + args)
        h.ensure(f"CONTAINED:{name}:resolves-its-argument-first", len(calls) >= 1 and calls[0][1] is args[0])
        if calls and calls[0][0] == "reject":
            h.ensure(f"REJECT:{name}:escaping-input=>ValueError-before-any-OS-call",
                     out == "raise" and val.cls == "ValueError" and len(os_t.events) == 0)
            h.cover(f"REJECT:{name}:reachable")
            return
        if name == "create_lock" and out == "ok":
            f = calls[0][2]
            h.ensure("CONTAINED:create_lock:lock-file-is-the-resolved-path",
                     isinstance(val, TheoryObj) and pyops.bool_z(pyops.py_eq(val.fields["path"], SStr(f))))
    return harness


def _replay_methods(ob):
    return '''
import sys, os, tempfile, shutil
from datashard.storage_backend import LocalStorageBackend
root = tempfile.mkdtemp(prefix="pyvc_replay_")
bad = []
try:
    table = os.path.join(root, "tbl"); os.makedirs(os.path.join(table, "data"))
    be = LocalStorageBackend(table)
    def snapshot():
        out = {}
        for d, _s, fs in os.walk(root):
            if d == table or d.startswith(table + os.sep): continue
            out[d] = sorted(fs)
        return out
    import tempfile as _tf
    created = []
    real_mkstemp = _tf.mkstemp
    def rec(*a, **k):
        r = real_mkstemp(*a, **k); created.append(r[1]); return r
    _tf.mkstemp = rec
    import datashard.storage_backend as sb
    sb.tempfile.mkstemp = rec
    before = snapshot()
    for p in ["", ".", "data/..", "data/../", "/", "./"]:
        try: be.write_file(p, b"x")
        except Exception: pass
    outside = [c for c in created if not (os.path.realpath(c) == os.path.realpath(table) or os.path.realpath(c).startswith(os.path.realpath(table) + os.sep))]
    if outside: bad.append(("temp file created outside the table root", outside))
    if snapshot() != before: bad.append("outside tree changed")
finally:
    shutil.rmtree(root, ignore_errors=True)
print("replay write_file(root spellings) ->", bad or "contained")
sys.exit(1 if bad else 0)
'''


register(Unit(P, "RESOLVE/stateless(two-calls,layout-changes)", h_resolve_stateless,
              functions=[f"{SB}:LocalStorageBackend._resolve_path"], replay=_replay_resolve))

for _m in METHODS:
    register(Unit(P, f"CONTAINED/{_m}", h_method(_m), functions=[f"{SB}:LocalStorageBackend.{_m}"], replay=_replay_methods))


# =================================================================================== LIST-REL
def h_list_files(h: H):
    be, base = backend(h)
    calls = []
    rb = resolve_contract(h, base, calls)
    touched = []

    def containment(op, p, kind):
        touched.append((op, p, kind))
        h.ensure(f"CONTAINED:list_files:{op}({kind})-path-inside-canonical-root", inside(rb, p))
    os_t = OsTheory(h, containment=containment)
    os_t.install(h.reg)
    # _real_base_path is interpreted inline: realpath(base)
    names = _acc.new_acc("result")
    cur = {}

    def on_add(I, x):
        xz = pyops.str_z(x)
        h.ensure("LIST-REL:returned-name-does-not-escape('..')", z3.Not(z3.Or(xz == z3.StringVal(".."), z3.PrefixOf(z3.StringVal("../"), xz))))
        h.ensure("LIST-REL:returned-name-is-relative-to-the-canonical-root",
                 z3.Implies(rb != SLASH, z3.Concat(rb, SLASH, xz) == cur.get("full", z3.StringVal("?"))))
    names.fields["on_add"] = on_add

    orig_join = h.reg.modfuncs["os.path.join"]

    def join_rec(I, a, k):
        r = orig_join(I, a, k)
        cur["full"] = pyops.str_z(r)
        # T-os: a file found by os.walk below an inside root is inside; joined path is normalised
        I.ctx.assume(z3.And(NORMABS(pyops.str_z(r)), inside(rb, pyops.str_z(r)), pyops.str_z(r) != rb),
                     "T-os: os.walk(root)/file is a normalised path strictly below root")
        return r
    h.reg.modfuncs["os.path.join"] = join_rec

    def havoc(I, env, it):
        env.vars["result"] = names
        _acc.reset(names)
    spec = LoopSpec(invariant=lambda I, env, it: [], havoc=havoc, name="walk", skip=["result", "rel_path", "full_path", "root", "_dirs", "files", "file"])
    h.reg.loops[f"{SB}:LocalStorageBackend.list_files"] = {"*": spec}
    prefix = h.str("prefix")
    out, val = h.run(f"{SB}:LocalStorageBackend.list_files", [be, prefix])
    if calls and calls[0][0] == "reject":
        h.ensure("REJECT:list_files:escaping-prefix=>ValueError-before-any-OS-call", out == "raise" and val.cls == "ValueError" and not os_t.events)
        return
    if out == "raise":
        h.ensure("LIST-REL:raises-only-ValueError(untrustworthy-listing)", val.cls == "ValueError")
    else:
        h.ensure("LIST-REL:returns-the-collected-names", val is names or (isinstance(val, PList) and not val.items))
        walks = [e for e in os_t.events if e["op"] == "walk"]
        if walks:
            h.ensure("LIST-REL:walks-the-resolved-prefix", walks[0]["path"] == calls[0][2])


def _replay_listing(ob):
    return '''
import sys, os, tempfile, shutil, time
from datashard import create_table
from datashard.data_structures import Schema
root = tempfile.mkdtemp(prefix="pyvc_replay_")
bad = []
try:
    p = os.path.join(root, "tbl")
    t = create_table(p, schema=Schema(schema_id=1, fields=[{"id": 1, "name": "a", "type": "long", "required": False}]))
    t.append_records([{"a": 1}])
    out = os.path.join(root, "elsewhere"); os.makedirs(os.path.join(out, "deep"))
    for n in ("foreign.parquet", os.path.join("deep", "foreign2.parquet")):
        open(os.path.join(out, n), "wb").write(b"not ours")
    old = time.time() - 7200
    for d, _s, fs in os.walk(out):
        for f in fs: os.utime(os.path.join(d, f), (old, old))
    os.symlink(out, os.path.join(p, "data", "archive"))                      # a directory symlink inside the table, pointing outside
    os.symlink(os.path.join(out, "foreign.parquet"), os.path.join(p, "data", "alias.parquet"))
    listed = t.storage.list_files("data")
    inside_real = os.path.realpath(p)
    for name in listed:
        full = os.path.join(p, name)
        rd = os.path.realpath(os.path.dirname(full))
        if not (rd == inside_real or rd.startswith(inside_real + os.sep)):
            bad.append(("listing descended into a directory outside the table root", name))
    try:
        t.garbage_collect(grace_period_ms=1000)
    except Exception:
        pass
    for n in ("foreign.parquet", os.path.join("deep", "foreign2.parquet")):
        if not os.path.exists(os.path.join(out, n)): bad.append(("a file outside the table root was deleted by the collector", n))
finally:
    shutil.rmtree(root, ignore_errors=True)
print("replay listing ->", bad or "contained")
sys.exit(1 if bad else 0)
'''


register(Unit(P, "LIST-REL/list_files", h_list_files, functions=[f"{SB}:LocalStorageBackend.list_files"], replay=_replay_listing))


# =================================================================================== ARROW-PATH
SEG1 = z3.Function("py.split_slash_component1", STR, STR)


def split_theory(h: H):
    """path.split('/'): only len() and [1] are used by the code.  T-py SPLIT: len > 1 <=> '/' in s;
    for s starting with '/': s == '/' ++ SEG1(s) ++ rest, SEG1 has no '/', rest empty or starting with '/'."""
    def split_sym(I, a, k):
        recv, sep = a
        if sep != "/":
            raise Unsupported("split on other separators")
        s = pyops.str_z(recv)
        n = I.ctx.fresh_int("ncomponents")
        I.ctx.assume(z3.And(n >= 1, (n > 1) == z3.Contains(s, SLASH)))
        return TheoryObj("splitlist", fields={"s": s, "n": n})

    def sl_len(I, o, a, k):
        return SInt(o.fields["n"])

    def sl_get(I, o, a, k):
        if a[0] != 1:
            raise Unsupported("split()[k] for k != 1")
        s = o.fields["s"]
        if not I.ctx.decide(o.fields["n"] > 1, "split-has-2"):
            raise PyExc("IndexError")
        seg = SEG1(s)
        rest = I.ctx.fresh_str("split_rest")
        I.ctx.assume(z3.Implies(z3.PrefixOf(SLASH, s), z3.And(s == z3.Concat(SLASH, seg, rest), pb.not_contains(seg, "/"),
                                                              z3.Or(rest == z3.StringVal(""), z3.PrefixOf(SLASH, rest)))))
        return SStr(seg)
    from pyvc.values import Builtin
    h.reg.builtins["__split_symbolic__"] = Builtin("__split_symbolic__", split_sym)
    h.reg.theory_methods[("splitlist", "__len__")] = sl_len
    h.reg.theory_methods[("splitlist", "__getitem__")] = sl_get


def h_arrow_path(h: H):
    be, base = backend(h)
    calls = []
    rb = resolve_contract(h, base, calls)
    os_t = OsTheory(h)
    os_t.install(h.reg)
    split_theory(h)
    dfm = h.obj("DataFileManager", storage=be, file_manager=h.obj("FileManager", table_path=base))
    path = h.str("path")
    out, val = h.run(f"{DO}:DataFileManager._get_arrow_path", [dfm, path])
    if out == "ok":
        vz = pyops.str_z(val)
        h.ensure("ARROW-PATH:result-inside-canonical-root", inside(rb, vz))
        h.ensure("ARROW-PATH:result-is-canonical(symlink-free)", REAL(vz))
        h.ensure("ARROW-PATH:result-names-a-file-strictly-inside-the-root(never-the-root-itself)", vz != rb,
                 detail="writers stage their temp file in dirname(result): for the root itself that is the table's PARENT directory")
        h.cover("ARROW-PATH:accepts-true-absolute-inside", z3.And(z3.PrefixOf(SLASH, path.z), len(calls) == 0))
    else:
        h.ensure("ARROW-PATH:rejects-with-ValueError", val.cls == "ValueError", detail=repr(val))


def h_open_parquet_source(h: H):
    be, base = backend(h)
    os_t = OsTheory(h)
    os_t.install(h.reg)
    rb = RP(base.z)
    seen = []

    def gap(I, fv, args, kwargs):
        seen.append(args[-1])
        if I.ctx.flip("gap-rejects"):
            raise PyRaise(SExc("ValueError", origin="_get_arrow_path rejects", fields={"reject": True}))
        f = I.ctx.fresh_str("validated")
        I.ctx.assume(inside(rb, f))
        return SStr(f)
    h.reg.contracts[f"{DO}:DataFileManager._get_arrow_path"] = gap
    dfm = h.obj("DataFileManager", storage=be)
    path = h.str("path")
    out, val = h.run(f"{DO}:DataFileManager.open_parquet_source", [dfm, path])
    h.ensure("ARROW-PATH:open_parquet_source-validates-first", len(seen) == 1 and seen[0] is path)
    opens = [e for e in os_t.events if e["op"] == "open"]
    if out == "raise" and val.fields.get("reject"):
        h.ensure("ARROW-PATH:rejected-path-is-never-opened", len(os_t.events) == 0)
    elif out == "ok":
        h.ensure("ARROW-PATH:opens-exactly-the-validated-path", len(opens) == 1 and inside(rb, opens[0]["path"]))


def _replay_arrow(ob):
    return '''
import sys, os, tempfile, shutil
from datashard import create_table
from datashard.data_structures import Schema
root = tempfile.mkdtemp(prefix="pyvc_replay_")
bad = []
try:
    p = os.path.join(root, "tbl")
    t = create_table(p, schema=Schema(schema_id=1, fields=[{"id": 1, "name": "a", "type": "long", "required": False}]))
    t.append_records([{"a": 1}])
    out = os.path.join(root, "outside"); os.makedirs(out); secret = os.path.join(out, "secret.parquet")
    shutil.copy(os.path.join(p, t.storage.list_files("data")[0]), secret)
    os.symlink(out, os.path.join(p, "data", "lnk"))
    dfm = t.file_manager.data_file_manager
    real = os.path.realpath(p)
    for q in [secret, "/etc/passwd", "../outside/secret.parquet", "/data/../../outside/secret.parquet", "data/lnk/secret.parquet",
              "/data/lnk/secret.parquet", os.path.join(p, "data", "lnk", "secret.parquet")]:
        try:
            r = dfm._get_arrow_path(q)
            if not (r == real or r.startswith(real + os.sep)): bad.append(("escaped", q, r))
        except ValueError:
            pass
    # spellings of the table root itself: a writer would stage its temp file in dirname(root) = the table's parent directory
    import pyarrow.parquet as pq
    targets = []
    orig = pq.ParquetWriter
    class W(orig):
        def __init__(self, where, *a, **k):
            targets.append(str(where)); super().__init__(where, *a, **k)
    pq.ParquetWriter = W
    try:
        for q in ["", ".", "data/..", "./", "metadata/../"]:
            try:
                dfm.write_data_file(file_path=q, records=[{"a": 1}], iceberg_schema=t._get_current_schema())
            except Exception:
                pass
    finally:
        pq.ParquetWriter = orig
    out_w = [w for w in targets if not os.path.realpath(w).startswith(real + os.sep)]
    if out_w: bad.append(("a parquet file was staged outside the table root for a path that resolves to the root itself", out_w[:2]))
finally:
    shutil.rmtree(root, ignore_errors=True)
print("replay arrow path ->", bad or "contained")
sys.exit(1 if bad else 0)
'''


register(Unit(P, "ARROW-PATH/_get_arrow_path", h_arrow_path, functions=[f"{DO}:DataFileManager._get_arrow_path"], replay=_replay_arrow))
register(Unit(P, "ARROW-PATH/open_parquet_source", h_open_parquet_source, functions=[f"{DO}:DataFileManager.open_parquet_source"], replay=_replay_arrow))
