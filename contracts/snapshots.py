"""Shared contracts over the snapshot forest of TableMetadata (C15 well-formedness, C09 lookup / repointing).

Model (T-forest, pyvc/theories/forest.py): metadata.snapshots and metadata.snapshot_log are lists of unknown length of heap
objects; a Snapshot's address is its snapshot_id (precondition IDS-UNIQUE, itself a clause of WF established by A-uuid at append);
universally quantified clauses of WF are assumed at / proved for arbitrary witness elements.

  WF(m) :=  IDS-UNIQUE (representation)                      CUR      current is None or in ids(snapshots)
            PARENT   parent(s) is None / -1 / in ids         SEQ      pos(a) < pos(b) => seq(a) < seq(b);  seq(s) <= m.last_sequence_number
            TS-MONO  pos(a) < pos(b) => ts(a) <= ts(b)       LOG      every log entry names a retained snapshot; log order = commit order
"""
from __future__ import annotations

import z3

from pyvc import pyops
from pyvc.engine import LoopSpec, PyRaise
from pyvc.runner import H, Unit, register
from pyvc.theories import forest as F, misc
from pyvc.theories.store import Store
from pyvc.values import PDict, PList, SBool, SExc, SInt, SMapZ, SObj, SOpt, SRef, SSetZ, SStr, TheoryObj

SM = "snapshot_manager"
MM = "metadata_manager"
TX = "transaction"
INT = z3.IntSort()

META = {
    "trusted": [
        "T-forest: lists of Snapshot / HistoryEntry objects are modelled as (membership set, order key) over an array heap; "
        "sorted() is a stable permutation, comprehensions keep order, l[-k:] / del l[i] / append have list semantics, "
        "deepcopy gives a disjoint isomorphic graph (pyvc/theories/forest.py)",
        "IDS-UNIQUE: snapshot ids are unique within one metadata (A-uuid: a generated or caller-chosen id is fresh); a Snapshot is "
        "addressed by its id",
        "quantified WF clauses are assumed for the base and proved for the result at arbitrary witness snapshots / log entries",
        "termination of the ancestor walk is not proved (the `seen` guard is there for corrupt cyclic input)",
    ],
    "bounded": [],
}


def declare_heap(h: H):
    F.declare(h, "Snapshot", {"snapshot_id": "self", "parent_snapshot_id": ("opt", "int"), "timestamp_ms": "int",
                              "sequence_number": "int"})
    F.declare(h, "HistoryEntry", {"snapshot_id": "int", "timestamp_ms": "int"})


def install(h: H):
    declare_heap(h)
    F.install(h.reg)


def snap_field(h_or_ctx, rl, attr, a):
    ctx = getattr(h_or_ctx, "ctx", h_or_ctx)
    return F.field(ctx, rl.fields["cls"], attr, a)


class Anc:
    """ghost: the least relation closed under the PRE-state parent links of `all_snapshots` (true ancestry).
    Only closure instances are ever assumed, so everything derived holds for the least such relation."""

    def __init__(self, h: H, rl_all):
        self.f = z3.Function(h.ctx.fresh_name("Anc"), INT, INT, z3.BoolSort())
        self.rl = rl_all
        self.cls = rl_all.fields["cls"]
        arrs = h.ctx.ghost["heap"]
        self.pnone0 = arrs[(self.cls, "parent_snapshot_id", "none")]
        self.pval0 = arrs[(self.cls, "parent_snapshot_id")]
        self.mem0 = rl_all.fields["mem"]

    def holds(self, s, p):
        return self.f(s, p)

    def base(self, s):
        """s in all, parent0(s) = p not None  =>  Anc(s, p)"""
        return z3.Implies(z3.And(z3.Select(self.mem0, s), z3.Not(z3.Select(self.pnone0, s))), self.f(s, z3.Select(self.pval0, s)))

    def step(self, s, b):
        """Anc(s, b), b in all, parent0(b) = c not None  =>  Anc(s, c)"""
        return z3.Implies(z3.And(self.f(s, b), z3.Select(self.mem0, b), z3.Not(z3.Select(self.pnone0, b))),
                          self.f(s, z3.Select(self.pval0, b)))


# =================================================================================== repoint_parents_to_surviving_ancestors
def h_repoint(h: H):
    """REPOINT: afterwards every kept snapshot's parent is None, -1, or a KEPT id that is a true ancestor (pre-state links);
    a parent that was already kept (or None / -1) is left alone; nothing but parent links changes."""
    c = h.ctx
    install(h)
    allr = F.fresh_reflist(c, "Snapshot", "all_snapshots")
    cls = allr.fields["cls"]
    a = c.fresh_int("bv")
    keep = c.fresh("kept_sel", z3.ArraySort(INT, z3.BoolSort()))
    kept = F.mk_reflist(c, cls, z3.Lambda([a], z3.And(z3.Select(allr.fields["mem"], a), z3.Select(keep, a))), allr.fields["dom"], None, label="kept")
    anc = Anc(h, allr)
    arrs = c.ghost["heap"]
    pn0, pv0 = arrs[(cls, "parent_snapshot_id", "none")], arrs[(cls, "parent_snapshot_id")]
    ts0, sq0 = arrs[(cls, "timestamp_ms")], arrs[(cls, "sequence_number")]
    w = z3.Int("witness_kept_snapshot")
    h.report("witness_kept_snapshot", w)
    F.know(c, cls, w)
    kmem = kept.fields["mem"]

    def post(wz):
        pn, pv = arrs[(cls, "parent_snapshot_id", "none")], arrs[(cls, "parent_snapshot_id")]
        n, v = z3.Select(pn, wz), z3.Select(pv, wz)
        return z3.Or(n, v == -1, z3.And(z3.Select(kmem, v), anc.holds(wz, v)))

    def unchanged(wz):
        pn, pv = arrs[(cls, "parent_snapshot_id", "none")], arrs[(cls, "parent_snapshot_id")]
        return z3.And(z3.Select(pn, wz) == z3.Select(pn0, wz), z3.Implies(z3.Not(z3.Select(pn0, wz)), z3.Select(pv, wz) == z3.Select(pv0, wz)))

    def inv_outer(I, env, it):
        res = []
        # the invariant is universally quantified over snapshots: stated for the arbitrary witness w, and (as an instance of
        # the same clauses) for the element being visited
        for tag, v in [("", w)] + ([("@elem", it["elem"])] if "elem" in it else []):
            done = z3.Select(it["done"], v)
            res += [("REPOINT:inv:processed-kept-snapshot-has-a-kept-true-ancestor-or-no-parent" + tag, z3.Implies(z3.And(z3.Select(kmem, v), done), post(v))),
                    ("REPOINT:inv:unprocessed-snapshot-still-has-its-original-parent" + tag, z3.Implies(z3.And(z3.Select(kmem, v), z3.Not(done)), unchanged(v)))]
        res.append(("REPOINT:inv:only-parent-links-change", z3.And(arrs[(cls, "timestamp_ms")] == ts0, arrs[(cls, "sequence_number")] == sq0)))
        return res

    def havoc_outer(I, env, it):
        arrs[(cls, "parent_snapshot_id", "none")] = I.ctx.fresh("parent_none", pn0.sort())
        arrs[(cls, "parent_snapshot_id")] = I.ctx.fresh("parent_val", pv0.sort())

    def cur_snapshot(env):
        ok, s = env.lookup("snapshot")
        return s.z

    def inv_inner(I, env, it):
        ok, p = env.lookup("parent")
        s = cur_snapshot(env)
        pz_none = p.isnone if isinstance(p, SOpt) else z3.BoolVal(p is None)
        pz = pyops.int_z(p.val if isinstance(p, SOpt) else p) if p is not None else z3.IntVal(0)
        # closure instances of the ghost ancestry (lemma ANC): the walk starts at parent0(s) and follows parent0
        I.ctx.assume(anc.base(s), "lemma ANC-base")
        I.ctx.assume(anc.step(s, pz), "lemma ANC-step")
        orig = unchanged(s)
        return [("REPOINT:walk:candidate-is-None/-1-or-a-true-ancestor", z3.Or(pz_none, pz == -1, anc.holds(s, pz))),
                ("REPOINT:walk:the-snapshot's-own-link-is-untouched-during-the-walk", orig)]

    def havoc_inner(I, env, it):
        env.vars["seen"] = SSetZ("int", I.ctx.fresh("seen", z3.SetSort(INT)))
    h.reg.loops[f"{SM}:repoint_parents_to_surviving_ancestors"] = {
        "iter:kept": LoopSpec(invariant=inv_outer, havoc=havoc_outer, name="kept", skip=["parent", "seen", "snapshot"]),
        "*": LoopSpec(invariant=inv_inner, havoc=havoc_inner, name="ancestor-walk", skip=["seen"]),
    }
    # the outer body must establish post(elem) for the element it processed and leave every other snapshot alone; the outer
    # invariant is about the arbitrary witness w, so assume the unprocessed-unchanged clause for the visited element as well
    out, val = h.run(f"{SM}:repoint_parents_to_surviving_ancestors", [allr, kept])
    h.ensure("REPOINT:never-raises", out == "ok", detail=repr(val) if out != "ok" else "")
    if out != "ok":
        return
    h.ensure("REPOINT:every-kept-snapshot's-parent-is-None/-1-or-a-kept-true-ancestor", z3.Implies(z3.Select(kmem, w), post(w)))
    h.ensure("REPOINT:only-parent-links-change", z3.And(arrs[(cls, "timestamp_ms")] == ts0, arrs[(cls, "sequence_number")] == sq0))


def _replay_repoint(ob):
    return '''
import sys, itertools, random
from datashard.snapshot_manager import repoint_parents_to_surviving_ancestors
from datashard.data_structures import Snapshot
bad = []
def mk(i, p): return Snapshot(snapshot_id=i, timestamp_ms=i, manifest_list="", parent_snapshot_id=p)
def anc(parent_of, s):
    out, seen, p = [], set(), parent_of.get(s)
    while p is not None and p not in seen and p in parent_of:
        out.append(p); seen.add(p); p = parent_of.get(p)
    return out
n = 4
ids = list(range(1, n + 1))
cases = 0
for parents in itertools.product([None, -1] + ids + [99], repeat=n):
    for keepmask in range(1 << n):
        snaps = [mk(i, p) for i, p in zip(ids, parents)]
        kept = [s for k, s in enumerate(snaps) if keepmask >> k & 1]
        parent_of = {s.snapshot_id: s.parent_snapshot_id for s in snaps}
        repoint_parents_to_surviving_ancestors(snaps, kept)
        kept_ids = {s.snapshot_id for s in kept}
        cases += 1
        for s in kept:
            p = s.parent_snapshot_id
            if p is None or p == -1: continue
            if p not in kept_ids or p not in anc(parent_of, s.snapshot_id):
                bad.append((parents, keepmask, s.snapshot_id, p)); break
        if len(bad) > 3: break
    if len(bad) > 3: break
print("replay repoint (exhaustive forests of", n, "snapshots, bounded):", cases, "cases ->", bad[:3] or "ok")
sys.exit(1 if bad else 0)
'''


UNITS = {
    "REPOINT/repoint_parents_to_surviving_ancestors": (h_repoint, [f"{SM}:repoint_parents_to_surviving_ancestors"], _replay_repoint),
}
