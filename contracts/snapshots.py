"""Shared contracts over the snapshot forest of TableMetadata (C15 well-formedness, C09 lookup / repointing).

Model (T-forest, pyvc/theories/forest.py): metadata.snapshots and metadata.snapshot_log are lists of unknown length of heap
objects; a Snapshot's address is its snapshot_id (precondition IDS-UNIQUE, itself a clause of WF established by A-uuid at append);
universally quantified clauses of WF are assumed at / proved for arbitrary witness elements.

  WF(m) :=  IDS-UNIQUE (representation)                      CUR      current is None or in ids(snapshots)
            PARENT   parent(s) is None / -1 / in ids         SEQ      pos(a) < pos(b) => seq(a) < seq(b);  seq(s) <= m.last_sequence_number
            TS-MONO  pos(a) < pos(b) => ts(a) <= ts(b)       LOG      every log entry names a retained snapshot; log order = commit order
"""
from __future__ import annotations

import z3

from pyvc import pyops
from pyvc.engine import LoopSpec, PyRaise
from pyvc.runner import H, Unit, register
from pyvc.theories import forest as F, misc
from pyvc.theories.store import Store
from pyvc.values import PDict, PList, SBool, SExc, SInt, SMapZ, SObj, SOpt, SRef, SSetZ, SStr, TheoryObj

SM = "snapshot_manager"
MM = "metadata_manager"
TX = "transaction"
INT = z3.IntSort()

META = {
    "trusted": [
        "T-forest: lists of Snapshot / HistoryEntry objects are modelled as (membership set, order key) over an array heap; "
        "sorted() is a stable permutation, comprehensions keep order, l[-k:] / del l[i] / append have list semantics, "
        "deepcopy gives a disjoint isomorphic graph (pyvc/theories/forest.py)",
        "IDS-UNIQUE: snapshot ids are unique within one metadata (A-uuid: a generated or caller-chosen id is fresh); a Snapshot is "
        "addressed by its id",
        "quantified WF clauses are assumed for the base and proved for the result at arbitrary witness snapshots / log entries",
        "termination of the ancestor walk is not proved (the `seen` guard is there for corrupt cyclic input)",
    ],
    "bounded": [],
}


def declare_heap(h: H):
    F.declare(h, "Snapshot", {"snapshot_id": "self", "parent_snapshot_id": ("opt", "int"), "timestamp_ms": "int",
                              "sequence_number": "int"})
    F.declare(h, "HistoryEntry", {"snapshot_id": "int", "timestamp_ms": "int"})


def install(h: H):
    declare_heap(h)
    F.install(h.reg)


def snap_field(h_or_ctx, rl, attr, a):
    ctx = getattr(h_or_ctx, "ctx", h_or_ctx)
    return F.field(ctx, rl.fields["cls"], attr, a)


class Anc:
    """ghost: the least relation closed under the PRE-state parent links of `all_snapshots` (true ancestry).
    Only closure instances are ever assumed, so everything derived holds for the least such relation."""

    def __init__(self, h: H, rl_all):
        self.f = z3.Function(h.ctx.fresh_name("Anc"), INT, INT, z3.BoolSort())
        self.rl = rl_all
        self.cls = rl_all.fields["cls"]
        arrs = h.ctx.ghost["heap"]
        self.pnone0 = arrs[(self.cls, "parent_snapshot_id", "none")]
        self.pval0 = arrs[(self.cls, "parent_snapshot_id")]
        self.mem0 = rl_all.fields["mem"]

    def holds(self, s, p):
        return self.f(s, p)

    def base(self, s):
        """s in all, parent0(s) = p not None  =>  Anc(s, p)"""
        return z3.Implies(z3.And(z3.Select(self.mem0, s), z3.Not(z3.Select(self.pnone0, s))), self.f(s, z3.Select(self.pval0, s)))

    def step(self, s, b):
        """Anc(s, b), b in all, parent0(b) = c not None  =>  Anc(s, c)"""
        return z3.Implies(z3.And(self.f(s, b), z3.Select(self.mem0, b), z3.Not(z3.Select(self.pnone0, b))),
                          self.f(s, z3.Select(self.pval0, b)))


# =================================================================================== repoint_parents_to_surviving_ancestors
def h_repoint(h: H):
    """REPOINT: afterwards every kept snapshot's parent is None, -1, or a KEPT id that is a true ancestor (pre-state links);
    a parent that was already kept (or None / -1) is left alone; nothing but parent links changes."""
    c = h.ctx
    install(h)
    allr = F.fresh_reflist(c, "Snapshot", "all_snapshots")
    cls = allr.fields["cls"]
    a = c.fresh_int("bv")
    keep = c.fresh("kept_sel", z3.ArraySort(INT, z3.BoolSort()))
    kept = F.mk_reflist(c, cls, z3.Lambda([a], z3.And(z3.Select(allr.fields["mem"], a), z3.Select(keep, a))), allr.fields["dom"], None, label="kept")
    anc = Anc(h, allr)
    arrs = c.ghost["heap"]
    pn0, pv0 = arrs[(cls, "parent_snapshot_id", "none")], arrs[(cls, "parent_snapshot_id")]
    ts0, sq0 = arrs[(cls, "timestamp_ms")], arrs[(cls, "sequence_number")]
    w = z3.Int("witness_kept_snapshot")
    h.report("witness_kept_snapshot", w)
    F.know(c, cls, w)
    kmem = kept.fields["mem"]

    def post(wz):
        pn, pv = arrs[(cls, "parent_snapshot_id", "none")], arrs[(cls, "parent_snapshot_id")]
        n, v = z3.Select(pn, wz), z3.Select(pv, wz)
        return z3.Or(n, v == -1, z3.And(z3.Select(kmem, v), anc.holds(wz, v)))

    def unchanged(wz):
        pn, pv = arrs[(cls, "parent_snapshot_id", "none")], arrs[(cls, "parent_snapshot_id")]
        return z3.And(z3.Select(pn, wz) == z3.Select(pn0, wz), z3.Implies(z3.Not(z3.Select(pn0, wz)), z3.Select(pv, wz) == z3.Select(pv0, wz)))

    def inv_outer(I, env, it):
        res = []
        # the invariant is universally quantified over snapshots: stated for the arbitrary witness w, and (as an instance of
        # the same clauses) for the element being visited
        for tag, v in [("", w)] + ([("@elem", it["elem"])] if "elem" in it else []):
            done = z3.Select(it["done"], v)
            res += [("REPOINT:inv:processed-kept-snapshot-has-a-kept-true-ancestor-or-no-parent" + tag, z3.Implies(z3.And(z3.Select(kmem, v), done), post(v))),
                    ("REPOINT:inv:unprocessed-snapshot-still-has-its-original-parent" + tag, z3.Implies(z3.And(z3.Select(kmem, v), z3.Not(done)), unchanged(v)))]
        res.append(("REPOINT:inv:only-parent-links-change", z3.And(arrs[(cls, "timestamp_ms")] == ts0, arrs[(cls, "sequence_number")] == sq0)))
        return res

    def havoc_outer(I, env, it):
        arrs[(cls, "parent_snapshot_id", "none")] = I.ctx.fresh("parent_none", pn0.sort())
        arrs[(cls, "parent_snapshot_id")] = I.ctx.fresh("parent_val", pv0.sort())

    def cur_snapshot(env):
        ok, s = env.lookup("snapshot")
        return s.z

    def inv_inner(I, env, it):
        ok, p = env.lookup("parent")
        s = cur_snapshot(env)
        pz_none = p.isnone if isinstance(p, SOpt) else z3.BoolVal(p is None)
        pz = pyops.int_z(p.val if isinstance(p, SOpt) else p) if p is not None else z3.IntVal(0)
        # closure instances of the ghost ancestry (lemma ANC): the walk starts at parent0(s) and follows parent0
        I.ctx.assume(anc.base(s), "lemma ANC-base")
        I.ctx.assume(anc.step(s, pz), "lemma ANC-step")
        orig = unchanged(s)
        return [("REPOINT:walk:candidate-is-None/-1-or-a-true-ancestor", z3.Or(pz_none, pz == -1, anc.holds(s, pz))),
                ("REPOINT:walk:the-snapshot's-own-link-is-untouched-during-the-walk", orig)]

    def havoc_inner(I, env, it):
        env.vars["seen"] = SSetZ("int", I.ctx.fresh("seen", z3.SetSort(INT)))
    h.reg.loops[f"{SM}:repoint_parents_to_surviving_ancestors"] = {
        "iter:kept": LoopSpec(invariant=inv_outer, havoc=havoc_outer, name="kept", skip=["parent", "seen", "snapshot"]),
        "*": LoopSpec(invariant=inv_inner, havoc=havoc_inner, name="ancestor-walk", skip=["seen"]),
    }
    # the outer body must establish post(elem) for the element it processed and leave every other snapshot alone; the outer
    # invariant is about the arbitrary witness w, so assume the unprocessed-unchanged clause for the visited element as well
    out, val = h.run(f"{SM}:repoint_parents_to_surviving_ancestors", [allr, kept])
    h.ensure("REPOINT:never-raises", out == "ok", detail=repr(val) if out != "ok" else "")
    if out != "ok":
        return
    h.ensure("REPOINT:every-kept-snapshot's-parent-is-None/-1-or-a-kept-true-ancestor", z3.Implies(z3.Select(kmem, w), post(w)))
    h.ensure("REPOINT:only-parent-links-change", z3.And(arrs[(cls, "timestamp_ms")] == ts0, arrs[(cls, "sequence_number")] == sq0))


def _replay_repoint(ob):
    return '''
import sys, itertools, random
from datashard.snapshot_manager import repoint_parents_to_surviving_ancestors
from datashard.data_structures import Snapshot
bad = []
def mk(i, p): return Snapshot(snapshot_id=i, timestamp_ms=i, manifest_list="", parent_snapshot_id=p)
def anc(parent_of, s):
    out, seen, p = [], set(), parent_of.get(s)
    while p is not None and p not in seen and p in parent_of:
        out.append(p); seen.add(p); p = parent_of.get(p)
    return out
n = 4
ids = list(range(1, n + 1))
cases = 0
for parents in itertools.product([None, -1] + ids + [99], repeat=n):
    for keepmask in range(1 << n):
        snaps = [mk(i, p) for i, p in zip(ids, parents)]
        kept = [s for k, s in enumerate(snaps) if keepmask >> k & 1]
        parent_of = {s.snapshot_id: s.parent_snapshot_id for s in snaps}
        repoint_parents_to_surviving_ancestors(snaps, kept)
        kept_ids = {s.snapshot_id for s in kept}
        cases += 1
        for s in kept:
            p = s.parent_snapshot_id
            if p is None or p == -1: continue
            if p not in kept_ids or p not in anc(parent_of, s.snapshot_id):
                bad.append((parents, keepmask, s.snapshot_id, p)); break
        if len(bad) > 3: break
    if len(bad) > 3: break
print("replay repoint (exhaustive forests of", n, "snapshots, bounded):", cases, "cases ->", bad[:3] or "ok")
sys.exit(1 if bad else 0)
'''



# =================================================================================== metadata states and WF
RETKEY = "datashard.snapshot.retention-count"


def opt_z(v):
    """Optional[int] value -> (isnone: z3 Bool, value: z3 Int)"""
    if v is None:
        return z3.BoolVal(True), z3.IntVal(0)
    if isinstance(v, SOpt):
        return v.isnone, pyops.int_z(v.val)
    return z3.BoolVal(False), pyops.int_z(v)


class MD:
    """an arbitrary TableMetadata (the parts the snapshot mutators touch)"""

    def __init__(self, h: H, label="base"):
        c = h.ctx
        self.snaps = F.fresh_reflist(c, "Snapshot", f"{label}_snapshots")
        self.log = F.fresh_reflist(c, "HistoryEntry", f"{label}_log")
        self.cur = SOpt(c.fresh_bool(f"{label}_current_none"), SInt(c.fresh_int(f"{label}_current")))
        self.lsn = SInt(c.fresh_int(f"{label}_last_sequence_number"))
        self.ret = SOpt(c.fresh_bool("retention_unset"), SStr(c.fresh_str("retention_raw")))
        self.schema_id = SInt(c.fresh_int("schema_id"))
        self.obj = SObj("TableMetadata", {"snapshots": self.snaps, "snapshot_log": self.log, "current_snapshot_id": self.cur,
                                          "last_sequence_number": self.lsn, "properties": PDict({RETKEY: self.ret}),
                                          "current_schema_id": self.schema_id}, label=label)
        for nm, t in ((f"{label}_current_none", self.cur.isnone), (f"{label}_current", self.cur.val.z), (f"{label}_last_sequence_number", self.lsn.z)):
            h.report(nm, t)


def state_of(ctx, mobj: SObj):
    sn, lg = mobj.fields["snapshots"], mobj.fields["snapshot_log"]
    if not (F.is_reflist(sn) and F.is_reflist(lg)):
        raise AssertionError("metadata lists are no longer T-forest lists")
    cs, cl = sn.fields["cls"], lg.fields["cls"]
    arrs = ctx.ghost["heap"]
    return {"snaps": sn, "log": lg, "cs": cs, "cl": cl,
            "smem": sn.fields["mem"], "spos": sn.fields["dom"]["pos"], "lmem": lg.fields["mem"], "lpos": lg.fields["dom"]["pos"],
            "pn": arrs[(cs, "parent_snapshot_id", "none")], "pv": arrs[(cs, "parent_snapshot_id")], "ts": arrs[(cs, "timestamp_ms")],
            "seq": arrs[(cs, "sequence_number")], "lsid": arrs[(cl, "snapshot_id")],
            "cur": opt_z(mobj.fields["current_snapshot_id"]), "lsn": pyops.int_z(mobj.fields["last_sequence_number"])}


def wf(st, G, entry_of, S, L):
    """WF clauses instantiated at snapshot terms S and log-entry terms L -> [(name, formula)]"""
    sel = z3.Select
    smem, spos, lmem, lpos = st["smem"], st["spos"], st["lmem"], st["lpos"]
    pn, pv, ts, seq, lsid = st["pn"], st["pv"], st["ts"], st["seq"], st["lsid"]
    cn, cv = st["cur"]
    out = [("WF:CUR:current-snapshot-is-None-or-retained", z3.Or(cn, sel(smem, cv)))]
    for i, s in enumerate(S):
        m = sel(smem, s)
        out.append(("WF:CUR:current-is-None-only-when-no-snapshot-is-retained", z3.Implies(m, z3.Not(cn))))
        out.append(("WF:PARENT:parent-is-None/-1-or-a-retained-true-ancestor",
                    z3.Implies(m, z3.Or(sel(pn, s), sel(pv, s) == -1, z3.And(sel(smem, sel(pv, s)), G(s, sel(pv, s)))))))
        out.append(("WF:SEQ:sequence-number-within-last_sequence_number", z3.Implies(m, sel(seq, s) <= st["lsn"])))
        e = entry_of(s)
        out.append(("WF:LOG:every-retained-snapshot-has-a-log-entry", z3.Implies(m, z3.And(sel(lmem, e), sel(lsid, e) == s))))
        for j, t in enumerate(S):
            if i == j:
                continue
            both = z3.And(m, sel(smem, t), sel(spos, s) < sel(spos, t))
            out.append(("WF:SEQ:sequence-numbers-strictly-increase-in-commit-order", z3.Implies(both, sel(seq, s) < sel(seq, t))))
            out.append(("WF:TS-MONO:timestamps-never-decrease-in-commit-order", z3.Implies(both, sel(ts, s) <= sel(ts, t))))
    for i, e in enumerate(L):
        out.append(("WF:LOG:log-lists-only-retained-snapshots", z3.Implies(sel(lmem, e), sel(smem, sel(lsid, e)))))
        for j, f in enumerate(L):
            if i != j:
                out.append(("WF:LOG:log-is-in-commit-order",
                            z3.Implies(z3.And(sel(lmem, e), sel(lmem, f), sel(lpos, e) < sel(lpos, f)),
                                       sel(spos, sel(lsid, e)) < sel(spos, sel(lsid, f)))))
    return out


class World:
    """ghost symbols + witnesses of one harness"""

    def __init__(self, h: H, n_snap=2, n_log=2):
        c = h.ctx
        self.h = h
        self.G = z3.Function(c.fresh_name("TrueAncestor"), INT, INT, z3.BoolSort())
        self.entry0 = z3.Function(c.fresh_name("entry_of"), INT, INT)
        self.S = [z3.Int(f"witness_snapshot_{i}") for i in range(n_snap)]
        self.L = [z3.Int(f"witness_log_entry_{i}") for i in range(n_log)]
        for t in self.S + self.L:
            h.report(str(t), t)

    def know(self, st):
        c = self.h.ctx
        for t in self.S:
            F.know(c, st["cs"], t)
            F.know(c, st["cl"], self.entry0(t))
        for e in self.L:
            F.know(c, st["cl"], e)
            F.know(c, st["cs"], z3.Select(st["lsid"], e))
        F.know(c, st["cs"], st["cur"][1])

    def assume_wf(self, st, extra_S=(), extra_L=(), entry_of=None):
        """WF(base) at every known term (call right before the postconditions: terms introduced during the run included)"""
        c = self.h.ctx
        S = list(self.S) + list(extra_S) + [t for t in F._terms(c, "Snapshot") if not any(t.eq(x) for x in list(self.S) + list(extra_S))]
        L = list(self.L) + list(extra_L) + [t for t in F._terms(c, "HistoryEntry") if not any(t.eq(x) for x in list(self.L) + list(extra_L))]
        S, L = S[:8], L[:8]
        for nm, f in wf(st, self.G, entry_of or self.entry0, S, L):
            c.assume(f)
        # G is transitive (true ancestry = transitive closure of the commit-time parent links): instances over the terms
        for a in S[:5]:
            for b in S[:5]:
                for d in S[:5]:
                    c.assume(z3.Implies(z3.And(self.G(a, b), self.G(b, d)), self.G(a, d)))

    def ensure_wf(self, st, entry_of, prefix=""):
        for nm, f in wf(st, self.G, entry_of, self.S, self.L):
            self.h.ensure(prefix + nm, f)


def repoint_contract(world: World, log):
    """callee contract of repoint_parents_to_surviving_ancestors, as proved by unit REPOINT with the transitive relation
    instantiated by the ghost TrueAncestor (its precondition 'every pre-state link of all_snapshots is a TrueAncestor link' is
    WF(base).PARENT)"""
    def contract(I, fv, args, kwargs):
        c = I.ctx
        allr, kept = args[0], args[1]
        if not (F.is_reflist(allr) and F.is_reflist(kept)) or allr.fields["cls"] != kept.fields["cls"]:
            raise AssertionError("repoint contract: arguments are not lists of one object generation")
        cls = kept.fields["cls"]
        arrs = c.ghost["heap"]
        amem, kmem = allr.fields["mem"], kept.fields["mem"]
        pn0, pv0 = arrs[(cls, "parent_snapshot_id", "none")], arrs[(cls, "parent_snapshot_id")]
        pn1, pv1 = c.fresh("parent_none_after", pn0.sort()), c.fresh("parent_after", pv0.sort())
        arrs[(cls, "parent_snapshot_id", "none")], arrs[(cls, "parent_snapshot_id")] = pn1, pv1
        log.append({"all": allr, "kept": kept, "amem": amem, "kmem": kmem, "pn0": pn0, "pv0": pv0})
        terms = list(F._terms(c, "Snapshot"))
        for t in terms:
            # precondition instances (checked by the caller's harness at its witnesses): kept is a sub-list of all
            n, v = z3.Select(pn1, t), z3.Select(pv1, t)
            c.assume(z3.Implies(z3.Select(kmem, t), z3.Or(n, v == -1, z3.And(z3.Select(kmem, v), world.G(t, v)))))
        return None
    return contract


# =================================================================================== _most_recent_snapshot_id
def h_most_recent(h: H):
    """REPOINT-CUR: None iff nothing is retained; otherwise the retained snapshot that was committed last (the last log entry
    naming a retained snapshot; by WF.LOG that is the retained snapshot with the greatest commit position)."""
    c = h.ctx
    install(h)
    W = World(h, n_snap=2, n_log=1)
    md = MD(h, "metadata")
    st0 = state_of(c, md.obj)
    W.know(st0)
    v = W.S[0]
    ev = W.entry0(v)

    def inv(I, env, it):
        done = it["done"]
        return [("REPOINT-CUR:inv:no-visited-(later)-log-entry-names-a-retained-snapshot",
                 z3.Implies(z3.Select(done, x), z3.Not(z3.Select(st0["smem"], z3.Select(st0["lsid"], x)))))
                for x in [ev] + ([it["elem"]] if "elem" in it else [])]
    h.reg.loops[f"{SM}:SnapshotManager._most_recent_snapshot_id"] = {"*": LoopSpec(invariant=inv, name="log-backwards", skip=["entry"])}
    W.assume_wf(st0)
    out, val = h.run(f"{SM}:SnapshotManager._most_recent_snapshot_id", [md.obj])
    W.assume_wf(st0)
    h.ensure("REPOINT-CUR:never-raises", out == "ok", detail=repr(val) if out != "ok" else "")
    if out != "ok":
        return
    rn, rv = opt_z(val)
    sel = z3.Select
    h.ensure("REPOINT-CUR:None-only-when-nothing-is-retained", z3.Implies(sel(st0["smem"], v), z3.Not(rn)))
    h.ensure("REPOINT-CUR:result-is-a-retained-snapshot", z3.Or(rn, sel(st0["smem"], rv)))
    h.ensure("REPOINT-CUR:result-is-the-most-recently-committed-retained-snapshot",
             z3.Implies(z3.And(z3.Not(rn), sel(st0["smem"], v)), sel(st0["spos"], v) <= sel(st0["spos"], rv)))


# =================================================================================== get_snapshot_by_timestamp
def h_by_timestamp(h: H):
    """BY-TS: the most recently committed retained snapshot whose timestamp is <= the requested time (None iff there is none)."""
    c = h.ctx
    install(h)
    W = World(h, n_snap=2, n_log=0)
    md = MD(h, "metadata")
    st0 = state_of(c, md.obj)
    W.know(st0)
    mm = h.obj("MetadataManager")
    sm = h.obj("SnapshotManager", metadata_manager=mm)
    empty = {"v": False}

    def get_all(I, fv, args, kwargs):
        return md.snaps
    h.reg.contracts[f"{SM}:SnapshotManager.get_all_snapshots"] = get_all
    t = h.int("timestamp_ms")
    v = W.S[0]
    sel = z3.Select
    cls = st0["cs"]
    ts, smem, cpos = st0["ts"], st0["smem"], st0["spos"]

    def tgt(env):
        ok, x = env.lookup("target_snapshot")
        if x is None:
            return z3.BoolVal(True), z3.IntVal(0)
        if isinstance(x, SOpt):
            return x.isnone, x.val.z
        return z3.BoolVal(False), x.z

    def inv(I, env, it):
        tn, tv = tgt(env)
        sp = it["rl"].fields["dom"]["pos"]
        res = [("BY-TS:inv:candidate-is-a-visited-retained-snapshot-not-newer-than-t",
                z3.Or(tn, z3.And(sel(smem, tv), sel(ts, tv) <= t.z, sel(it["done"], tv))))]
        for x in [v] + ([it["elem"]] if "elem" in it else []):
            res.append(("BY-TS:inv:every-visited-snapshot-is-not-newer-than-t-and-not-after-the-candidate",
                        z3.Implies(sel(it["done"], x), z3.And(sel(ts, x) <= t.z, z3.Not(tn), sel(sp, x) <= sel(sp, tv)))))
        return res

    def havoc(I, env, it):
        env.vars["target_snapshot"] = SOpt(I.ctx.fresh_bool("target_none"), SRef(cls, I.ctx.fresh_int("target")))
        F.know(I.ctx, cls, env.vars["target_snapshot"].val.z)
    h.reg.loops[f"{SM}:SnapshotManager.get_snapshot_by_timestamp"] = {
        "*": LoopSpec(invariant=inv, havoc=havoc, name="by-timestamp", skip=["target_snapshot", "snapshot"])}
    W.assume_wf(st0)
    out, val = h.run(f"{SM}:SnapshotManager.get_snapshot_by_timestamp", [sm, t])
    W.assume_wf(st0)
    h.ensure("BY-TS:never-raises", out == "ok", detail=repr(val) if out != "ok" else "")
    if out != "ok":
        return
    if val is None:
        rn, rv = z3.BoolVal(True), z3.IntVal(0)
    elif isinstance(val, SOpt):
        rn, rv = val.isnone, val.val.z
    else:
        rn, rv = z3.BoolVal(False), val.z
    ok_v = z3.And(sel(smem, v), sel(ts, v) <= t.z)
    h.ensure("BY-TS:None-only-when-no-retained-snapshot-is-old-enough", z3.Implies(ok_v, z3.Not(rn)))
    h.ensure("BY-TS:result-is-retained-and-not-newer-than-requested", z3.Or(rn, z3.And(sel(smem, rv), sel(ts, rv) <= t.z)))
    h.ensure("BY-TS:result-is-the-most-recently-committed-such-snapshot",
             z3.Implies(z3.And(z3.Not(rn), ok_v), sel(cpos, v) <= sel(cpos, rv)))


def _replay_lookup(ob):
    return '''
import sys, os, tempfile, shutil, time
from datashard import create_table
from datashard.data_structures import Schema
import datashard.snapshot_manager as smod
import datetime as _d
bad = []
root = tempfile.mkdtemp(prefix="pyvc_replay_")
real = _d.datetime
class FakeDT(real):
    now_s = 2000.0
    @classmethod
    def now(cls, tz=None): return real.fromtimestamp(cls.now_s)
try:
    t = create_table(os.path.join(root, "t"), schema=Schema(schema_id=1, fields=[{"id": 1, "name": "a", "type": "long", "required": False}]))
    smod.datetime = FakeDT
    for i, now in enumerate([2000.0, 1900.0, 1900.0, 2100.0]):      # the clock steps back once, then stands still
        FakeDT.now_s = now; t.append_records([{"a": i}])
    smod.datetime = real
    snaps = t.snapshot_manager.get_all_snapshots()
    order = [s.snapshot_id for s in snaps]
    for q in sorted({s.timestamp_ms for s in snaps} | {1_000_000, 1_950_000, 2_050_000, 3_000_000}):
        got = t.snapshot_manager.get_snapshot_by_timestamp(q)
        cands = [s for s in snaps if s.timestamp_ms <= q]
        want = cands[-1].snapshot_id if cands else None       # most recently COMMITTED one (list order = commit order)
        if (got.snapshot_id if got else None) != want: bad.append(("as-of", q, got and got.snapshot_id, want))
    # deleting the current snapshot repoints to the most recently committed survivor
    cur = t.metadata_manager.refresh().current_snapshot_id
    t.snapshot_manager.delete_snapshot(cur)
    m = t.metadata_manager.refresh()
    if m.current_snapshot_id != order[-2]: bad.append(("repoint-current", m.current_snapshot_id, order[-2]))
    for s in m.snapshots:
        if t.snapshot_manager.get_snapshot_by_id(s.snapshot_id).snapshot_id != s.snapshot_id: bad.append(("by-id", s.snapshot_id))
    # as-of lookups after an expiry whose cutoff is newer than the current snapshot (it survives as current), then one more commit
    t2 = create_table(os.path.join(root, "t2"), schema=Schema(schema_id=1, fields=[{"id": 1, "name": "a", "type": "long", "required": False}]))
    for i in range(3): t2.append_records([{"a": i}]); time.sleep(0.01)
    survivor = t2.metadata_manager.refresh().snapshots[-1]
    with t2.new_transaction() as tx:
        tx.expire_snapshots(survivor.timestamp_ms + 5); tx.commit()
    time.sleep(0.02); between = int(time.time() * 1000); time.sleep(0.02)
    t2.append_records([{"a": 9}])
    got = t2.snapshot_manager.get_snapshot_by_timestamp(between)
    if got is None or got.snapshot_id != survivor.snapshot_id:
        bad.append(("as-of after expiry: expected the surviving current snapshot", got and got.snapshot_id, survivor.snapshot_id))
    latest = t2.metadata_manager.refresh()
    if [e.snapshot_id for e in latest.snapshot_log] != [s.snapshot_id for s in latest.snapshots]:
        bad.append(("snapshot log differs from the retained snapshots after expiry", [e.snapshot_id for e in latest.snapshot_log]))
finally:
    smod.datetime = real
    shutil.rmtree(root, ignore_errors=True)
print("replay snapshot lookup ->", bad[:4] or "ok")
sys.exit(1 if bad else 0)
'''



# =================================================================================== shared post-conditions of shrinking mutators
def shrink_post(h: H, W: World, st0, st1, keeps, label, calls=None):
    """post-state st1 was obtained from st0 by dropping snapshots (keeps(v) = v must survive): WF(st1), exactly the snapshots
    selected by `keeps` survive, order unchanged, nothing but parent links is rewritten, the current snapshot survives"""
    sel = z3.Select
    v, u = W.S[0], W.S[1]
    h.ensure(f"{label}:exactly-the-selected-snapshots-survive", sel(st1["smem"], v) == z3.And(sel(st0["smem"], v), keeps(v)))
    h.ensure(f"{label}:survivors-stay-in-commit-order",
             z3.Implies(z3.And(sel(st1["smem"], v), sel(st1["smem"], u)), (sel(st1["spos"], v) < sel(st1["spos"], u)) == (sel(st0["spos"], v) < sel(st0["spos"], u))))
    h.ensure(f"{label}:timestamps-and-sequence-numbers-of-survivors-untouched",
             z3.Implies(sel(st1["smem"], v), z3.And(sel(st1["ts"], v) == sel(st0["ts"], v), sel(st1["seq"], v) == sel(st0["seq"], v))))
    e = W.L[0]
    h.ensure(f"{label}:log-keeps-exactly-the-entries-of-survivors-in-order",
             z3.And(sel(st1["lmem"], e) == z3.And(sel(st0["lmem"], e), sel(st1["smem"], sel(st0["lsid"], e))),
                    z3.Implies(sel(st1["lmem"], e), sel(st1["lsid"], e) == sel(st0["lsid"], e))))
    h.ensure(f"{label}:last_sequence_number-never-decreases", st1["lsn"] >= st0["lsn"])
    W.ensure_wf(st1, W.entry0, prefix=f"{label}/")


def props_with_retention(md: MD):
    return md


# =================================================================================== _apply_retention
def h_apply_retention(h: H):
    c = h.ctx
    install(h)
    W = World(h)
    md = MD(h, "metadata")
    st0 = state_of(c, md.obj)
    W.know(st0)
    calls = []
    h.reg.contracts[f"{SM}:repoint_parents_to_surviving_ancestors"] = repoint_contract(W, calls)
    mm = h.obj("MetadataManager")
    sm = h.obj("SnapshotManager", metadata_manager=mm)
    W.assume_wf(st0)
    F.know(c, st0["cs"], md.cur.val.z)
    out, val = h.run(f"{SM}:SnapshotManager._apply_retention", [sm, md.obj])
    W.assume_wf(st0)
    h.ensure("RETENTION:never-raises", out == "ok", detail=repr(val) if out != "ok" else "")
    if out != "ok":
        return
    st1 = state_of(c, md.obj)
    sel = z3.Select
    cn, cv = st0["cur"]
    h.ensure("RETENTION:the-current-snapshot-is-never-dropped", z3.Implies(z3.Not(cn), sel(st1["smem"], cv)))
    h.ensure("RETENTION:current-pointer-and-last_sequence_number-untouched",
             z3.And(st1["cur"][0] == cn, z3.Implies(z3.Not(cn), st1["cur"][1] == cv), st1["lsn"] == st0["lsn"]))
    v = W.S[0]
    h.ensure("RETENTION:only-drops(never-invents)-snapshots", z3.Implies(sel(st1["smem"], v), sel(st0["smem"], v)))
    if not calls:
        h.ensure("RETENTION:no-pruning=>metadata-unchanged", z3.And(sel(st1["smem"], v) == sel(st0["smem"], v), st1["pn"] == st0["pn"], st1["pv"] == st0["pv"]))
        return
    h.ensure("RETENTION:pruning-only-when-the-property-is-set", z3.Not(md.ret.isnone))
    kept_sel = calls[0]["kmem"]
    h.ensure("RETENTION:repoint-called-with-(all-snapshots,survivors)", z3.And(sel(calls[0]["amem"], v) == sel(st0["smem"], v), sel(kept_sel, v) == sel(st1["smem"], v)))
    shrink_post(h, W, st0, st1, lambda x: sel(st1["smem"], x), "RETENTION")


# =================================================================================== expire mutator
def h_expire_mutator(h: H):
    c = h.ctx
    install(h)
    W = World(h)
    md = MD(h, "metadata")
    st0 = state_of(c, md.obj)
    W.know(st0)
    calls = []
    h.reg.contracts[f"{SM}:repoint_parents_to_surviving_ancestors"] = repoint_contract(W, calls)
    cutoff = h.int("cutoff_ms")
    W.assume_wf(st0)
    out, mut = h.run(f"{TX}:Transaction._make_expire_mutator", [cutoff])
    if out != "ok":
        h.fail("EXPIRE:_make_expire_mutator-never-raises", detail=repr(mut))
        return
    out, val = h.call(mut, [md.obj])
    W.assume_wf(st0)
    h.ensure("EXPIRE:never-raises", out == "ok", detail=repr(val) if out != "ok" else "")
    if out != "ok":
        return
    st1 = state_of(c, md.obj)
    sel = z3.Select
    cn, cv = st0["cur"]
    h.ensure("EXPIRE:the-current-snapshot-is-never-expired", z3.Implies(z3.Not(cn), sel(st1["smem"], cv)))
    h.ensure("EXPIRE:current-pointer-and-last_sequence_number-untouched",
             z3.And(st1["cur"][0] == cn, z3.Implies(z3.Not(cn), st1["cur"][1] == cv), st1["lsn"] == st0["lsn"]))
    h.ensure("EXPIRE:repoint-called-once-with-(all,kept)", len(calls) == 1)
    if len(calls) != 1:
        return
    keeps = lambda x: z3.Or(sel(st0["ts"], x) >= cutoff.z, z3.And(z3.Not(cn), x == cv))
    shrink_post(h, W, st0, st1, keeps, "EXPIRE")


# =================================================================================== delete_snapshot
def h_delete_snapshot_wf(h: H):
    c = h.ctx
    install(h)
    W = World(h)
    md = MD(h, "base")
    st0 = state_of(c, md.obj)
    W.know(st0)
    calls, commits, mr = [], [], []
    h.reg.contracts[f"{SM}:repoint_parents_to_surviving_ancestors"] = repoint_contract(W, calls)
    mm = h.obj("MetadataManager")
    sm = h.obj("SnapshotManager", metadata_manager=mm)
    target = h.int("snapshot_id_to_delete")
    F.know(c, st0["cs"], target.z)
    F.know(c, st0["cl"], W.entry0(target.z))
    h.reg.contracts[f"{MM}:MetadataManager.refresh"] = lambda I, fv, a, k: md.obj

    def commit(I, fv, args, kwargs):
        commits.append((args[1], args[2]))
        return None
    h.reg.contracts[f"{MM}:MetadataManager.commit"] = commit

    def most_recent(I, fv, args, kwargs):
        """contract proved by unit REPOINT-CUR: None iff nothing retained, else the retained snapshot committed last"""
        m = args[-1]
        st = state_of(I.ctx, m)
        r = SOpt(I.ctx.fresh_bool("most_recent_none"), SInt(I.ctx.fresh_int("most_recent")))
        F.know(I.ctx, st["cs"], r.val.z)
        for t in list(F._terms(I.ctx, "Snapshot")):
            I.ctx.assume(z3.Implies(z3.Select(st["smem"], t), z3.And(z3.Not(r.isnone), z3.Select(st["spos"], t) <= z3.Select(st["spos"], r.val.z))))
        I.ctx.assume(z3.Or(r.isnone, z3.Select(st["smem"], r.val.z)))
        mr.append((st, r))
        return r
    h.reg.contracts[f"{SM}:SnapshotManager._most_recent_snapshot_id"] = most_recent

    def inv(I, env, it):
        ok, x = env.lookup("snapshot_to_remove")
        return [("DELETE:inv:target-not-among-the-visited", z3.Not(z3.Select(it["done"], target.z))),
                ("DELETE:inv:nothing-selected-yet", z3.BoolVal(True) if x is None else (x.isnone if isinstance(x, SOpt) else z3.BoolVal(False)))]

    def havoc(I, env, it):
        env.vars["snapshot_to_remove"] = None
    h.reg.loops[f"{SM}:SnapshotManager.delete_snapshot"] = {"*": LoopSpec(invariant=inv, havoc=havoc, name="find", skip=["snapshot_to_remove", "i", "snapshot"])}
    W.assume_wf(st0)
    out, val = h.run(f"{SM}:SnapshotManager.delete_snapshot", [sm, target])
    W.assume_wf(st0)
    h.ensure("DELETE:never-raises-by-itself", out == "ok", detail=repr(val) if out != "ok" else "")
    if out != "ok":
        return
    sel = z3.Select
    present = sel(st0["smem"], target.z)
    if not commits:
        h.ensure("DELETE:no-commit-only-for-an-unknown-id(returns-False)", z3.And(z3.Not(present), z3.BoolVal(val is False)))
        return
    h.ensure("DELETE:commit-only-for-a-retained-id(returns-True)", z3.And(present, z3.BoolVal(val is True and len(commits) == 1)))
    base, new = commits[0]
    h.ensure("DELETE:committed-against-the-base-it-read,with-a-separate-copy", base is md.obj and new is not md.obj)
    st_b = state_of(c, md.obj)
    h.ensure("DELETE:the-base-object-is-not-mutated",
             z3.And(st_b["pn"] == st0["pn"], st_b["pv"] == st0["pv"], sel(st_b["smem"], W.S[0]) == sel(st0["smem"], W.S[0]),
                    st_b["cur"][0] == st0["cur"][0], st_b["cur"][1] == st0["cur"][1]))
    st1 = state_of(c, new)
    cn, cv = st0["cur"]
    was_cur = z3.And(z3.Not(cn), cv == target.z)
    n1, v1 = st1["cur"]
    h.ensure("DELETE:current-untouched-unless-it-was-the-deleted-one", z3.Implies(z3.Not(was_cur), z3.And(n1 == cn, z3.Implies(z3.Not(cn), v1 == cv))))
    v = W.S[0]
    h.ensure("REPOINT-CUR:deleting-the-current-snapshot-repoints-to-the-most-recently-committed-survivor",
             z3.Implies(was_cur, z3.And(z3.Implies(sel(st1["smem"], v), z3.And(z3.Not(n1), sel(st1["spos"], v) <= sel(st1["spos"], v1))),
                                        z3.Or(n1, sel(st1["smem"], v1)))))
    shrink_post(h, W, st0, st1, lambda x: x != target.z, "DELETE")



# =================================================================================== create_snapshot
def shrink_contract(W: World, log, what):
    """callee contract of a WF-preserving shrinking mutator (proved for the expire mutator by unit WF-PRESERVE/expire-mutator and
    for _apply_retention by WF-PRESERVE/_apply_retention): drops some snapshots but never the current one, keeps the order,
    filters the log to the survivors, repoints parents to retained true ancestors, touches nothing else."""
    def contract(I, fv, args, kwargs):
        c = I.ctx
        m = args[-1]
        st = state_of(c, m)
        if not c.flip(f"{what}-drops-something"):
            log.append((what, None))
            return None
        keep = c.fresh(f"{what}_keeps", z3.ArraySort(INT, z3.BoolSort()))
        cn, cv = st["cur"]
        c.assume(z3.Implies(z3.Not(cn), z3.Select(keep, cv)))
        a = c.fresh_int("bv")
        sn, lg = st["snaps"], st["log"]
        mem1 = z3.Lambda([a], z3.And(z3.Select(st["smem"], a), z3.Select(keep, a)))
        lmem1 = z3.Lambda([a], z3.And(z3.Select(st["lmem"], a), z3.Select(keep, z3.Select(st["lsid"], a))))
        m.fields["snapshots"] = F.mk_reflist(c, st["cs"], mem1, sn.fields["dom"], None, label=f"{what}(snapshots)")
        m.fields["snapshot_log"] = F.mk_reflist(c, st["cl"], lmem1, lg.fields["dom"], None, label=f"{what}(log)")
        arrs = c.ghost["heap"]
        pn1, pv1 = c.fresh("parent_none_after", st["pn"].sort()), c.fresh("parent_after", st["pv"].sort())
        arrs[(st["cs"], "parent_snapshot_id", "none")], arrs[(st["cs"], "parent_snapshot_id")] = pn1, pv1
        for t in list(F._terms(c, "Snapshot")):
            n, v = z3.Select(pn1, t), z3.Select(pv1, t)
            c.assume(z3.Implies(z3.Select(mem1, t), z3.Or(n, v == -1, z3.And(z3.Select(mem1, v), W.G(t, v)))))
        log.append((what, keep))
        return None
    return contract


def h_create_snapshot_wf(h: H):
    c = h.ctx
    install(h)
    misc.install_clock(h.reg, c)
    misc.install_uuid(h.reg, c)
    W = World(h)
    md = MD(h, "base")
    st0 = state_of(c, md.obj)
    W.know(st0)
    mm = h.obj("MetadataManager")
    sm = h.obj("SnapshotManager", metadata_manager=mm)
    sel = z3.Select
    sid = h.int("new_snapshot_id")
    F.know(c, st0["cs"], sid.z)
    h.assume(z3.Not(sel(st0["smem"], sid.z)), "A-uuid: the new snapshot id is not the id of a retained snapshot")
    h.assume(sid.z != -1)
    cn, cv = st0["cur"]
    # call-site precondition (Transaction._commit_file_ops, proved there as DERIVE): parent = base.current or -1, sequence number = base.last+1
    parent = SInt(z3.If(cn, z3.IntVal(-1), cv))
    seq = SInt(st0["lsn"] + 1) if c.flip("sequence-number-given") else None
    shr, commits = [], []
    mut = None
    if c.flip("has-mutator"):
        mut = TheoryObj("mutator")
        h.reg.theory_methods[("mutator", "__call__")] = lambda I, o, a, k: shrink_contract(W, shr, "mutator")(I, None, a, k)
    h.reg.contracts[f"{SM}:SnapshotManager._apply_retention"] = shrink_contract(W, shr, "retention")
    refreshed = []
    h.reg.contracts[f"{MM}:MetadataManager.refresh"] = lambda I, fv, a, k: refreshed.append(1) or md.obj

    def commit(I, fv, args, kwargs):
        commits.append((args[1], args[2]))
        k = I.ctx.choose(3, "commit-outcome")
        if k == 1:
            raise PyRaise(SExc("ConcurrentModificationException", origin="conflict", fields={"conflict": True}))
        if k == 2:
            raise PyRaise(SExc("AmbiguousCommitError", origin="ambiguous", fields={"ambiguous": True}))
        return None
    h.reg.contracts[f"{MM}:MetadataManager.commit"] = commit
    W.assume_wf(st0)
    c.assume(z3.Implies(z3.Not(cn), W.G(sid.z, cv)), "ghost: TrueAncestor contains the commit-time parent link of the snapshot being created")
    for t in W.S:
        c.assume(z3.Implies(z3.And(z3.Not(cn), W.G(cv, t)), W.G(sid.z, t)), "ghost: TrueAncestor is transitive")
    out, val = h.run(f"{SM}:SnapshotManager.create_snapshot", [sm, SStr(c.fresh_str("manifest_list_path"))],
                     {"operation": "append", "parent_snapshot_id": parent, "base_metadata": md.obj, "snapshot_id": sid,
                      "metadata_mutator": mut, "sequence_number": seq})
    W.assume_wf(st0)
    h.ensure("DERIVE:create_snapshot-does-not-re-read-the-base", not refreshed)
    if out != "ok":
        h.ensure("CREATE:raises-only-what-the-commit-raised", bool(val.fields.get("conflict") or val.fields.get("ambiguous")), detail=repr(val))
    else:
        h.ensure("DERIVE:returned-snapshot-carries-the-caller's-id,list-path-and-the-base's-schema",
                 isinstance(val, SObj) and val.fields.get("snapshot_id") is sid and val.fields.get("schema_id") is md.schema_id)
    h.ensure("CREATE:exactly-one-commit-of-(base,separate-copy)", len(commits) == 1 and commits[0][0] is md.obj and commits[0][1] is not md.obj)
    if len(commits) != 1:
        return
    new = commits[0][1]
    st_b = state_of(c, md.obj)
    h.ensure("CREATE:the-base-object-is-not-mutated",
             z3.And(st_b["pn"] == st0["pn"], st_b["pv"] == st0["pv"], sel(st_b["smem"], W.S[0]) == sel(st0["smem"], W.S[0]),
                    sel(st_b["lmem"], W.L[0]) == sel(st0["lmem"], W.L[0]), st_b["lsn"] == st0["lsn"]))
    st1 = state_of(c, new)
    apps = [a for a in c.ghost.get("forest_appends", [])]
    log_apps = [a for a in apps if a["list"].fields["cls"].startswith("HistoryEntry")]
    h.ensure("CREATE:one-snapshot-and-one-log-entry-appended", len(apps) == 2 and len(log_apps) == 1)
    if len(log_apps) != 1:
        return
    new_entry = log_apps[0]["addr"]
    entry1 = lambda x: z3.If(x == sid.z, new_entry, W.entry0(x))
    n1, v1 = st1["cur"]
    h.ensure("CREATE:the-new-snapshot-becomes-current-and-is-retained", z3.And(z3.Not(n1), v1 == sid.z, sel(st1["smem"], sid.z)))
    h.ensure("DERIVE:sequence-number=given-or-base.last+1", sel(st1["seq"], sid.z) == st0["lsn"] + 1)
    h.ensure("CREATE:last_sequence_number-never-decreases-and-covers-the-new-snapshot",
             z3.And(st1["lsn"] >= st0["lsn"], st1["lsn"] >= sel(st1["seq"], sid.z)))
    v = W.S[0]
    h.ensure("CREATE:new-snapshot-is-last-in-commit-order", z3.Implies(z3.And(sel(st1["smem"], v), v != sid.z), sel(st1["spos"], v) < sel(st1["spos"], sid.z)))
    h.ensure("CREATE:sequence-number-above-every-retained-one", z3.Implies(z3.And(sel(st1["smem"], v), v != sid.z), sel(st1["seq"], v) < sel(st1["seq"], sid.z)))
    h.ensure("CREATE:timestamp-not-older-than-any-retained-one(TS-MONO)", z3.Implies(z3.And(sel(st0["smem"], v), v != sid.z), sel(st0["ts"], v) <= sel(st1["ts"], sid.z)))
    h.ensure("CREATE:only-adds-the-new-snapshot(never-invents-others)", z3.Implies(z3.And(sel(st1["smem"], v), v != sid.z), sel(st0["smem"], v)))
    h.ensure("CREATE:without-mutator/retention-every-old-snapshot-is-kept",
             z3.BoolVal(True) if any(k is not None for _w, k in shr) else z3.Implies(sel(st0["smem"], v), sel(st1["smem"], v)))
    h.ensure("CREATE:existing-snapshots-keep-timestamp-and-sequence-number",
             z3.Implies(z3.And(sel(st1["smem"], v), v != sid.z), z3.And(sel(st1["ts"], v) == sel(st0["ts"], v), sel(st1["seq"], v) == sel(st0["seq"], v))))
    W.ensure_wf(st1, entry1, prefix="CREATE/")



def _replay_wf(ob):
    """bounded stand-in / witness replay: operation histories on the real code (append, multi-op transaction, file delete,
    expire, delete-snapshot, retention property, stepping clock), independent WF checker on the metadata after every step"""
    return '''
import sys, os, tempfile, shutil, itertools, random, time
from datashard import create_table, load_table
from datashard.data_structures import Schema
import datashard.snapshot_manager as smod
import datetime as _d
real = _d.datetime
class FakeDT(real):
    now_s = 5000.0
    @classmethod
    def now(cls, tz=None): return real.fromtimestamp(cls.now_s)
bad = []
sch = Schema(schema_id=1, fields=[{"id": 1, "name": "a", "type": "long", "required": False}])
def check(m, truth, prev_lsn, tag):
    ids = [s.snapshot_id for s in m.snapshots]
    out = []
    if len(set(ids)) != len(ids): out.append("duplicate ids")
    if m.snapshots and m.current_snapshot_id not in ids: out.append("current not retained")
    if not m.snapshots and m.current_snapshot_id not in (None, -1): out.append("current set on empty table")
    for s in m.snapshots:
        p = s.parent_snapshot_id
        if p in (None, -1): continue
        if p not in ids: out.append(("dangling parent", s.snapshot_id % 1000, p % 1000))
        elif p not in truth.get(s.snapshot_id, set()): out.append(("parent is not a true ancestor", s.snapshot_id % 1000))
    order = {sid: k for k, sid in enumerate(COMMITS)}
    byc = sorted(m.snapshots, key=lambda s: order[s.snapshot_id])
    seqs = [s.sequence_number for s in byc]
    if any(a >= b for a, b in zip(seqs, seqs[1:])): out.append(("sequence numbers not increasing in commit order", seqs))
    if [s.snapshot_id for s in m.snapshots] != [s.snapshot_id for s in byc]: out.append("snapshot list not in commit order")
    if any(s.sequence_number > m.last_sequence_number for s in m.snapshots): out.append("seq > last_sequence_number")
    if m.last_sequence_number < prev_lsn: out.append("last_sequence_number decreased")
    tss = [s.timestamp_ms for s in byc]
    if any(a > b for a, b in zip(tss, tss[1:])): out.append(("timestamps decrease in commit order", tss))
    logids = [e.snapshot_id for e in m.snapshot_log]
    if any(i not in ids for i in logids): out.append("log names an expired snapshot")
    if [order[i] for i in logids] != sorted(order[i] for i in logids): out.append("log not in commit order")
    if set(ids) - set(logids): out.append("retained snapshot without log entry")
    for o in out: bad.append((tag, o))
OPS = ["append", "append2", "delete_file", "expire_old", "expire_all", "delete_current", "delete_oldest", "retention2"]
def run(history, clock):
    global COMMITS
    COMMITS = []
    root = tempfile.mkdtemp(prefix="pyvc_replay_")
    truth = {}
    try:
        t = create_table(os.path.join(root, "t"), schema=sch)
        smod.datetime = FakeDT
        FakeDT.now_s = 5000.0
        lsn = 0
        for k, (op, dt) in enumerate(zip(history, clock)):
            FakeDT.now_s += dt
            before = t.metadata_manager.refresh()
            ids_before = {s.snapshot_id for s in before.snapshots}
            try:
                if op == "append": t.append_records([{"a": k}])
                elif op == "append2":
                    with t.new_transaction() as tx:
                        tx.append_data([{"a": k}]); tx.append_data([{"a": k + 100}]); tx.commit()
                elif op == "delete_file":
                    fs = sorted(t.storage.list_files("data"))
                    live = [f.file_path for f in t._get_all_data_files()] if hasattr(t, "_get_all_data_files") else []
                    if live:
                        with t.new_transaction() as tx:
                            tx.delete_files([live[0]]); tx.commit()
                elif op == "expire_old":
                    with t.new_transaction() as tx:
                        tx.expire_snapshots(int((FakeDT.now_s - 50) * 1000)); tx.commit()
                elif op == "expire_all":
                    with t.new_transaction() as tx:
                        tx.expire_snapshots(int((FakeDT.now_s + 10_000) * 1000)); tx.commit()
                elif op == "delete_current":
                    if before.current_snapshot_id not in (None, -1): t.snapshot_manager.delete_snapshot(before.current_snapshot_id)
                elif op == "delete_oldest":
                    if before.snapshots: t.snapshot_manager.delete_snapshot(before.snapshots[0].snapshot_id)
                elif op == "retention2":
                    b = t.metadata_manager.refresh(); b.properties["datashard.snapshot.retention-count"] = "2"
                    t.metadata_manager.commit(t.metadata_manager.refresh(), b)
            except Exception as e:
                bad.append((history, k, op, "raised " + repr(e)[:100])); break
            m = t.metadata_manager.refresh()
            for s in m.snapshots:
                if s.snapshot_id not in ids_before and s.snapshot_id not in truth:
                    COMMITS.append(s.snapshot_id)
                    p = s.parent_snapshot_id
                    truth[s.snapshot_id] = ({p} | truth.get(p, set())) if p not in (None, -1) else set()
            check(m, truth, lsn, (tuple(history[:k + 1]), tuple(clock[:k + 1])))
            lsn = m.last_sequence_number
            if len(bad) > 5: return
    finally:
        smod.datetime = real
        shutil.rmtree(root, ignore_errors=True)
rng = random.Random(7)
n = 0
hists = [h for h in itertools.product(OPS, repeat=3)]
rng.shuffle(hists)
for hist in hists[:60] + [tuple(rng.choice(OPS) for _ in range(6)) for _ in range(25)]:
    full = ("append", "append") + hist
    clock = [rng.choice([10.0, 0.0, -100.0, 30.0]) for _ in full]
    run(full, clock); n += 1
    if len(bad) > 5: break
print("replay WF histories (bounded):", n, "histories ->", bad[:3] or "ok")
sys.exit(1 if bad else 0)
'''



# =================================================================================== _append_metadata_log
PVMAX = "write.metadata.previous-versions-max"


def h_metadata_log(h: H):
    """MLOG: the superseded version is appended once, at the end, with the timestamp that version carried; the order of the
    older entries is kept; only the oldest entries are dropped, and only down to the configured bound (default 100; an invalid
    or non-positive bound never empties the log)."""
    c = h.ctx
    F.declare(h, "MLogEntry", {"file": "str", "ts": "int"})
    F.install(h.reg)
    key_of = {"metadata-file": "file", "timestamp-ms": "ts"}

    def conv(I, x):
        if isinstance(x, PDict) and set(x.d) == set(key_of):
            return {key_of[k]: v for k, v in x.d.items()}
        return None
    c.ghost.setdefault("forest_convert", {})["MLogEntry"] = conv

    def entry_get(I, recv, args, kw):
        k = I.force(args[0])
        if not isinstance(k, str) or k not in key_of:
            return args[1] if len(args) > 1 else None
        return I.heap_get(recv, key_of[k])
    h.reg.methods[("MLogEntry", "get")] = entry_get
    log0 = F.fresh_reflist(c, "MLogEntry", "metadata_log")
    cls = log0.fields["cls"]
    raw = SOpt(c.fresh_bool("bound_unset"), SStr(c.fresh_str("bound_raw")))
    new = SObj("TableMetadata", {"metadata_log": log0, "properties": PDict({PVMAX: raw})}, label="new_metadata")
    base_ts = h.int("base_last_updated_ms")
    base = SObj("TableMetadata", {"last_updated_ms": base_ts}, label="base_metadata")
    mm = h.obj("MetadataManager", metadata_path="metadata")
    prev = h.str("previous_metadata_file")
    w, u = z3.Int("witness_log_entry_0"), z3.Int("witness_log_entry_1")
    for t in (w, u):
        h.report(str(t), t)
        F.know(c, cls, t)
    mem0, pos0, n0 = log0.fields["mem"], log0.fields["dom"]["pos"], log0.fields["n"]
    arrs = c.ghost["heap"]
    file0, ts0 = arrs[(cls, "file")], arrs[(cls, "ts")]
    out, val = h.run(f"{MM}:MetadataManager._append_metadata_log", [mm, new, base, prev])
    h.ensure("MLOG:never-raises", out == "ok", detail=repr(val) if out != "ok" else "")
    if out != "ok":
        return
    log1 = new.fields["metadata_log"]
    sel = z3.Select
    path = z3.Concat(z3.StringVal("metadata/"), prev.z)
    if log1 is log0:
        # unchanged: only when the last entry already names the superseded file
        last = c.fresh_int("last")
        F.know(c, cls, last)
        h.ensure("MLOG:left-unchanged-only-when-the-superseded-version-is-already-the-last-entry",
                 z3.And(n0 > 0, z3.Implies(z3.And(sel(mem0, last), sel(pos0, last) == n0 - 1), sel(file0, last) == path)))
        return
    if not F.is_reflist(log1):
        h.fail("MLOG:metadata_log-stays-a-list-of-entries")
        return
    mem1, pos1, n1 = log1.fields["mem"], log1.fields["dom"]["pos"], F.b_len(h.I, log1).z
    file1, ts1 = arrs[(log1.fields["cls"], "file")], arrs[(log1.fields["cls"], "ts")]
    apps = [a for a in c.ghost.get("forest_appends", []) if F.base_cls(a["list"].fields["cls"]) == "MLogEntry"]
    h.ensure("MLOG:exactly-one-entry-appended", len(apps) == 1)
    if len(apps) != 1:
        return
    e = apps[0]["addr"]
    h.ensure("MLOG:the-superseded-version-is-recorded,last,with-its-own-timestamp",
             z3.And(sel(mem1, e), sel(file1, e) == path, sel(ts1, e) == base_ts.z,
                    z3.Implies(z3.And(sel(mem1, w), w != e), sel(pos1, w) < sel(pos1, e))))
    h.ensure("MLOG:older-entries-are-kept-unmodified-and-in-order",
             z3.And(z3.Implies(z3.And(sel(mem1, w), w != e), z3.And(sel(mem0, w), sel(file1, w) == sel(file0, w), sel(ts1, w) == sel(ts0, w))),
                    z3.Implies(z3.And(sel(mem1, w), sel(mem1, u), w != e, u != e), (sel(pos1, w) < sel(pos1, u)) == (sel(pos0, w) < sel(pos0, u)))))
    h.ensure("MLOG:only-the-oldest-entries-are-dropped",
             z3.Implies(z3.And(sel(mem0, w), sel(mem0, u), sel(pos0, w) < sel(pos0, u), sel(mem1, w)), sel(mem1, u)))
    from pyvc.theories import pybuiltins as pb
    nd, ws = pb.re_decimal(), pb.re_ws()
    body = z3.Concat(nd, z3.Star(z3.Concat(z3.Option(z3.Re("_")), nd)))
    grammar = z3.Concat(z3.Star(ws), z3.Option(z3.Union(z3.Re("+"), z3.Re("-"))), body, z3.Star(ws))
    valid = z3.And(z3.Not(raw.isnone), z3.InRe(raw.val.z, grammar))
    bound = z3.If(valid, pb.PYINT(raw.val.z), z3.IntVal(100))          # unset / not an integer -> default 100
    h.ensure("MLOG:length-is-min(old+1,bound)-for-a-positive-bound,old+1-otherwise",
             n1 == z3.If(z3.And(bound >= 1, n0 + 1 > bound), bound, n0 + 1))
    h.ensure("MLOG:log-never-emptied", n1 >= 1)



def _replay_mlog(ob):
    return '''
import sys, os, tempfile, shutil, json, glob
from datashard import create_table
from datashard.data_structures import Schema
bad = []
root = tempfile.mkdtemp(prefix="pyvc_replay_")
sch = Schema(schema_id=1, fields=[{"id": 1, "name": "a", "type": "long", "required": False}])
try:
    for bound, want in (("2", 2), ("1", 1), ("0", None), ("-3", None), ("abc", None), (None, None)):
        p = os.path.join(root, "t_" + str(bound))
        t = create_table(p, schema=sch)
        if bound is not None:
            b = t.metadata_manager.refresh(); b.properties["write.metadata.previous-versions-max"] = bound
            t.metadata_manager.commit(t.metadata_manager.refresh(), b)
        stamps = {}
        for i in range(4):
            m0 = t.metadata_manager.refresh()
            t.append_records([{"a": i}])
        m = t.metadata_manager.refresh()
        log = m.metadata_log
        files = sorted(glob.glob(os.path.join(p, "metadata", "v*.metadata.json")), key=lambda f: int(os.path.basename(f)[1:].split(".")[0].split("-")[0]))
        superseded = files[:-1]
        names = ["metadata/" + os.path.basename(f) for f in superseded]
        exp = names[-want:] if want else names[-100:]
        got = [e["metadata-file"] for e in log]
        if got != exp: bad.append((bound, "log", got, "expected", exp))
        for e in log:
            f = os.path.join(p, e["metadata-file"])
            if not os.path.exists(f): bad.append((bound, "names a missing version", e["metadata-file"])); continue
            if json.load(open(f)).get("last_updated_ms") != e["timestamp-ms"]: bad.append((bound, "timestamp is not the superseded version's", e))
    # the bound is lowered on a table whose log is already longer than the new bound
    p = os.path.join(root, "t_lowered")
    t = create_table(p, schema=sch)
    for i in range(6):
        t.append_records([{"a": i}])
    b = t.metadata_manager.refresh(); b.properties["write.metadata.previous-versions-max"] = "2"
    t.metadata_manager.commit(t.metadata_manager.refresh(), b)
    for i in range(2):
        t.append_records([{"a": 10 + i}])
        log = t.metadata_manager.refresh().metadata_log
        files = sorted(glob.glob(os.path.join(p, "metadata", "v*.metadata.json")), key=lambda f: int(os.path.basename(f)[1:].split(".")[0].split("-")[0]))
        exp = ["metadata/" + os.path.basename(f) for f in files[:-1]][-2:]
        got = [e["metadata-file"] for e in log]
        if got != exp: bad.append(("lowered to 2", "log", got, "expected", exp))
finally:
    shutil.rmtree(root, ignore_errors=True)
print("replay metadata log ->", bad[:3] or "ok")
sys.exit(1 if bad else 0)
'''



def _replay_carry(ob):
    return '''
import sys, os, tempfile, shutil
from datashard import create_table, load_table
from datashard.data_structures import Schema
bad = []
root = tempfile.mkdtemp(prefix="pyvc_replay_")
sch = Schema(schema_id=1, fields=[{"id": 1, "name": "a", "type": "long", "required": False}])
def entries(t, snap):
    out = {}
    for m in t.file_manager.read_manifest_list_file(snap.manifest_list.lstrip("/")):
        for df in t.file_manager.read_manifest_file(m.manifest_path.lstrip("/")):
            out[df.file_path] = (df.added_snapshot_id, df.sequence_number)
    return out
try:
    t = create_table(os.path.join(root, "t"), schema=sch)
    with t.new_transaction() as tx:
        tx.append_data([{"a": 1}]); tx.append_data([{"a": 2}]); tx.append_data([{"a": 3}]); tx.commit()
    m1 = t.metadata_manager.refresh(); s1 = m1.snapshots[-1]
    e1 = entries(t, s1)
    if any(v != (s1.snapshot_id, s1.sequence_number) for v in e1.values()): bad.append(("new files not stamped with their snapshot", e1))
    victim = sorted(e1)[0]
    t.append_records([{"a": 4}])
    with t.new_transaction() as tx:
        tx.delete_files([victim]); tx.commit()
    m3 = t.metadata_manager.refresh(); s3 = m3.snapshots[-1]
    e3 = entries(t, s3)
    if victim in e3: bad.append("deleted file still listed")
    if set(e3) != (set(entries(t, m3.snapshots[-2])) - {victim}): bad.append(("delete removed/added other files", sorted(e3)))
    for p, v in e3.items():
        if p in e1 and v != e1[p]: bad.append(("carried file re-dated", p, e1[p], v))
    if len(list(load_table(os.path.join(root, "t")).scan())) != 3: bad.append("row count after delete")
    # a second delete out of the manifest the first one rewrote: the remaining file is carried a second time
    victim2 = sorted(e1)[1]
    with t.new_transaction() as tx:
        tx.delete_files([victim2]); tx.commit()
    t.append_records([{"a": 5}])
    m5 = t.metadata_manager.refresh()
    e5 = entries(t, m5.snapshots[-1])
    if victim2 in e5 or victim in e5: bad.append("deleted file listed after the second delete")
    for p, v in e5.items():
        if p in e1 and v != e1[p]: bad.append(("file carried through two rewrites re-dated", p, e1[p], v))
    if sorted(e1)[2] not in e5: bad.append("second delete dropped a file that was not named")
    # the same file registered in TWO manifests (an append_files re-submitted after an ambiguous commit): a delete removes every entry
    t3 = create_table(os.path.join(root, "t3"), schema=sch)
    t3.append_records([{"a": 1}]); t3.append_records([{"a": 2}])
    s_first = t3.metadata_manager.refresh().snapshots[0]
    dup = [df for m in t3.file_manager.read_manifest_list_file(s_first.manifest_list.lstrip("/"))
           for df in t3.file_manager.read_manifest_file(m.manifest_path.lstrip("/"))][0]
    try:
        with t3.new_transaction() as tx:
            tx.append_files([dup]); tx.commit()
        with t3.new_transaction() as tx:
            tx.delete_files([dup.file_path]); tx.commit()
        left = entries(t3, t3.metadata_manager.refresh().snapshots[-1])
        if dup.file_path in left or dup.file_path.lstrip("/") in left:
            bad.append(("a deleted file is still listed (it was registered in two manifests; only the first was rewritten)", dup.file_path))
    except Exception as e:
        print("note: duplicate-registration scenario not applicable:", type(e).__name__, str(e)[:80])
    # the survivor's recorded checksum travels through the rewrites: a survivor whose bytes are swapped for a sibling's must be refused
    def full(t, snap):
        out = {}
        for m in t.file_manager.read_manifest_list_file(snap.manifest_list.lstrip("/")):
            for df in t.file_manager.read_manifest_file(m.manifest_path.lstrip("/")):
                out[df.file_path] = df
        return out
    f5 = full(t, m5.snapshots[-1])
    surv = sorted(e1)[2]
    if f5[surv].checksum is None and any(v.checksum for v in f5.values()):
        bad.append(("a carried file lost its recorded checksum in a manifest rewrite", surv))
    other = [q for q in f5 if q != surv][0]
    shutil.copyfile(os.path.join(root, "t", other.lstrip("/")), os.path.join(root, "t", surv.lstrip("/")))
    try:
        got = sorted(r["a"] for r in load_table(os.path.join(root, "t")).scan())
        bad.append(("a survivor whose content was replaced is read without a corruption error", got))
    except Exception:
        pass
finally:
    shutil.rmtree(root, ignore_errors=True)
print("replay carry/delete-exact ->", bad[:3] or "ok")
sys.exit(1 if bad else 0)
'''



def h_by_id(h: H):
    """BY-ID: lookup by id returns exactly the retained snapshot with that id (the object of the metadata just read), None iff
    no retained snapshot has it; nothing is modified."""
    c = h.ctx
    install(h)
    md = MD(h, "metadata")
    st0 = state_of(c, md.obj)
    mm = h.obj("MetadataManager")
    reads = []
    def refresh(I, fv, a, k):
        nometa = I.ctx.flip("no-metadata")
        reads.append(nometa)
        return None if nometa else md.obj
    h.reg.contracts[f"{MM}:MetadataManager.refresh"] = refresh
    target = h.int("snapshot_id")
    F.know(c, st0["cs"], target.z)

    def inv(I, env, it):
        return [("BY-ID:inv:the-id-was-not-among-the-visited", z3.Not(z3.Select(it["done"], target.z)))]
    h.reg.loops[f"{MM}:MetadataManager.get_snapshot_by_id"] = {"*": LoopSpec(invariant=inv, name="scan", skip=["snapshot"])}
    out, val = h.run(f"{MM}:MetadataManager.get_snapshot_by_id", [mm, target])
    h.ensure("BY-ID:never-raises", out == "ok", detail=repr(val) if out != "ok" else "")
    if out != "ok":
        return
    h.ensure("BY-ID:one-metadata-read", len(reads) == 1)
    present = z3.Select(st0["smem"], target.z)
    if val is None:
        h.ensure("BY-ID:None-only-when-no-retained-snapshot-has-the-id(or-no-table)", z3.BoolVal(True) if reads == [True] else z3.Not(present))
    else:
        h.ensure("BY-ID:returns-the-retained-snapshot-with-that-id", z3.And(present, val.z == target.z) if isinstance(val, SRef) and val.cls == st0["cs"] else z3.BoolVal(False))
    st1 = state_of(c, md.obj)
    h.ensure("BY-ID:lookup-modifies-nothing", z3.And(st1["pn"] == st0["pn"], st1["pv"] == st0["pv"], st1["ts"] == st0["ts"], st1["seq"] == st0["seq"]))


UNITS = {
    "REPOINT/repoint_parents_to_surviving_ancestors": (h_repoint, [f"{SM}:repoint_parents_to_surviving_ancestors"], _replay_repoint),
    "WF-PRESERVE/_apply_retention": (h_apply_retention, [f"{SM}:SnapshotManager._apply_retention"], _replay_wf),
    "WF-PRESERVE/expire-mutator": (h_expire_mutator, [f"{TX}:Transaction._make_expire_mutator"], _replay_wf),
    "WF-PRESERVE/delete_snapshot": (h_delete_snapshot_wf, [f"{SM}:SnapshotManager.delete_snapshot"], _replay_wf),
    "WF-PRESERVE/create_snapshot": (h_create_snapshot_wf, [f"{SM}:SnapshotManager.create_snapshot"], _replay_wf),
    "MLOG/_append_metadata_log": (h_metadata_log, [f"{MM}:MetadataManager._append_metadata_log"], _replay_mlog),
}
def h_get_all(h: H):
    """ALL: both get_all_snapshots return exactly the snapshot list of the metadata read by ONE refresh ([] when there is none) -
    the contract get_snapshot_by_timestamp is checked against."""
    c = h.ctx
    mm = h.obj("MetadataManager")
    sm = h.obj("SnapshotManager", metadata_manager=mm)
    snaps = TheoryObj("symiter", label="SNAPSHOTS-OF-THE-METADATA-JUST-READ", fields={"mk": lambda I: SObj("Snapshot", {})})
    md = SObj("TableMetadata", {"snapshots": snaps}, label="metadata")
    reads = []

    def refresh(I, fv, a, k):
        nometa = I.ctx.flip("no-metadata")
        reads.append(nometa)
        return None if nometa else md
    h.reg.contracts[f"{MM}:MetadataManager.refresh"] = refresh
    out, val = h.call(h.I.getattr(sm, "get_all_snapshots"), [])
    h.ensure("ALL:never-raises", out == "ok", detail=repr(val) if out != "ok" else "")
    h.ensure("ALL:reads-the-metadata-exactly-once", len(reads) == 1)
    if out == "ok" and len(reads) == 1:
        if reads[0]:
            h.ensure("ALL:no-metadata=>empty-list", isinstance(val, PList) and len(val.items) == 0)
        else:
            h.ensure("ALL:returns-the-snapshot-list-of-the-metadata-just-read", val is snaps)


UNITS_C09 = {
    "ALL/get_all_snapshots": (h_get_all, [f"{SM}:SnapshotManager.get_all_snapshots", f"{MM}:MetadataManager.get_all_snapshots"], _replay_lookup),
    "BY-ID/get_snapshot_by_id": (h_by_id, [f"{MM}:MetadataManager.get_snapshot_by_id"], _replay_lookup),
    "REPOINT-CUR/_most_recent_snapshot_id": (h_most_recent, [f"{SM}:SnapshotManager._most_recent_snapshot_id"], _replay_lookup),
    "BY-TS/get_snapshot_by_timestamp": (h_by_timestamp, [f"{SM}:SnapshotManager.get_snapshot_by_timestamp"], _replay_lookup),
}


# =================================================================================== metadata (de)serialisation round trip
def h_metadata_roundtrip(h: H):
    """CODEC: _dict_to_metadata(_metadata_to_dict(m)) carries every field of m, of every snapshot, of every log entry and of every
    schema over unchanged (field by field, for lists of unbounded length through an arbitrary element).  JSON itself (dumps/loads of
    str-keyed dicts of JSON types) is T-json; what is checked here is that writer and reader agree on key names and drop nothing -
    the WF invariant (C15) and snapshot identity (C09) survive a reopen only if they do."""
    c = h.ctx
    mm = h.obj("MetadataManager")
    h.reg.modfuncs["json.dumps"] = lambda I, a, k: SStr(I.ctx.fresh_str("json"))
    snap_attrs = ["snapshot_id", "timestamp_ms", "manifest_list", "parent_snapshot_id", "operation", "summary", "schema_id", "sequence_number"]
    src = {}

    def mk_snapshot(I):
        cc = I.ctx
        s = SObj("Snapshot", {"snapshot_id": SInt(cc.fresh_int("sid")), "timestamp_ms": SInt(cc.fresh_int("ts")), "manifest_list": SStr(cc.fresh_str("ml")),
                              "parent_snapshot_id": SOpt(cc.fresh_bool("pn"), SInt(cc.fresh_int("p"))), "operation": SOpt(cc.fresh_bool("on"), SStr(cc.fresh_str("op"))),
                              "summary": PDict({}), "schema_id": SOpt(cc.fresh_bool("scn"), SInt(cc.fresh_int("sc"))),
                              "sequence_number": SOpt(cc.fresh_bool("sqn"), SInt(cc.fresh_int("sq")))}, label="some-snapshot")
        src["snapshot"] = s
        return s

    def mk_entry(I):
        e = SObj("HistoryEntry", {"timestamp_ms": SInt(I.ctx.fresh_int("ets")), "snapshot_id": SInt(I.ctx.fresh_int("esid"))}, label="some-entry")
        src["entry"] = e
        return e

    def mk_schema(I):
        s = SObj("Schema", {"schema_id": SInt(I.ctx.fresh_int("schema_id")), "fields": PList([]), "schema_string": SStr(I.ctx.fresh_str("schema_string"))}, label="some-schema")
        # every constructed Schema has a non-empty schema_string (Schema.__post_init__ fills it with json.dumps(fields))
        I.ctx.assume(z3.Length(s.fields["schema_string"].z) > 0)
        src["schema"] = s
        return s
    scal = {"location": SStr(c.fresh_str("location")), "table_uuid": SStr(c.fresh_str("uuid")), "format_version": SInt(c.fresh_int("fv")),
            "last_sequence_number": SInt(c.fresh_int("lsn")), "last_updated_ms": SInt(c.fresh_int("lum")), "last_column_id": SInt(c.fresh_int("lci")),
            "current_schema_id": SInt(c.fresh_int("csid")), "default_spec_id": SInt(c.fresh_int("dsi")), "default_sort_order_id": SInt(c.fresh_int("dso")),
            "properties": PDict({}), "current_snapshot_id": SOpt(c.fresh_bool("cur_none"), SInt(c.fresh_int("cur"))),
            "metadata_log": TheoryObj("symiter", label="metadata_log", fields={"mk": lambda I: PDict({})})}
    # TableMetadata.__post_init__ replaces a current_schema_id of 0 by the first schema's id: identity for well-formed metadata
    # (current id names a listed schema; the library keeps one schema per table); stated as a precondition
    h.assume(scal["current_schema_id"].z != 0, "WF-SCHEMA: current_schema_id is the id of the table's schema, 0 only if that schema's id is 0")
    m = SObj("TableMetadata", dict(scal, schemas=TheoryObj("symiter", fields={"mk": mk_schema}), partition_specs=PList([]), sort_orders=PList([]),
                                   snapshots=TheoryObj("symiter", fields={"mk": mk_snapshot}), snapshot_log=TheoryObj("symiter", fields={"mk": mk_entry})), label="m")
    out, d = h.run(f"{MM}:MetadataManager._metadata_to_dict", [mm, m])
    h.ensure("CODEC:_metadata_to_dict-never-raises", out == "ok", detail=repr(d) if out != "ok" else "")
    if out != "ok":
        return
    out2, m2 = h.run(f"{MM}:MetadataManager._dict_to_metadata", [mm, d])
    h.ensure("CODEC:_dict_to_metadata-reads-back-what-_metadata_to_dict-wrote(no-missing-key)", out2 == "ok", detail=repr(m2) if out2 != "ok" else "")
    if out2 != "ok":
        return
    for k, v in scal.items():
        h.ensure(f"CODEC:field-{k}-survives-the-round-trip", m2.fields.get(k) is v)

    def rep_of(lst):
        return lst.fields.get("rep") if isinstance(lst, TheoryObj) and lst.theory == "symiter" else None
    rs = rep_of(m2.fields.get("snapshots"))
    if "snapshot" in src:
        h.ensure("CODEC:every-snapshot-is-read-back-as-a-Snapshot", isinstance(rs, SObj) and rs.cls == "Snapshot")
        if isinstance(rs, SObj):
            for a in snap_attrs:
                h.ensure(f"CODEC:snapshot.{a}-survives-the-round-trip", rs.fields.get(a) is src["snapshot"].fields[a])
    re_ = rep_of(m2.fields.get("snapshot_log"))
    if "entry" in src and isinstance(re_, SObj):
        for a in ("timestamp_ms", "snapshot_id"):
            h.ensure(f"CODEC:snapshot_log.{a}-survives-the-round-trip", re_.fields.get(a) is src["entry"].fields[a])
    elif "entry" in src:
        h.fail("CODEC:every-log-entry-is-read-back-as-a-HistoryEntry")
    rsc = rep_of(m2.fields.get("schemas"))
    if "schema" in src and isinstance(rsc, SObj):
        for a in ("schema_id", "fields", "schema_string"):
            h.ensure(f"CODEC:schema.{a}-survives-the-round-trip", rsc.fields.get(a) is src["schema"].fields[a])
    elif "schema" in src:
        h.fail("CODEC:every-schema-is-read-back-as-a-Schema")
    h.cover("CODEC:non-empty-lists-reachable", z3.BoolVal("snapshot" in src and "entry" in src and "schema" in src))


UNITS["CODEC/metadata-roundtrip"] = (h_metadata_roundtrip, [f"{MM}:MetadataManager._metadata_to_dict", f"{MM}:MetadataManager._dict_to_metadata"], _replay_wf)
