"""C10 - the version pointer is only a hint.

  PARSE-TOTAL   MetadataManager._parse_hint_content: for EVERY byte string: no exception; result None or (v, name) with
                name in L(_METADATA_FILE_RE) (hence no '/'), v = the version encoded in name.
  RESOLVE       _read_version_hint / _current_version_info: never raise because of pointer content; return the hinted
                version iff the pointer parses and its target exists, else the recovery result.
  RECOVER       _recover_version_from_files: the highest version among metadata files directly in metadata/ (newest
                mtime on ties), None iff there is none; listing failure -> None.  RECOVER-COMMITTED (the recovered version
                was committed) cannot hold when an orphan of a failed commit carries the highest version: known finding.
  NO-REINIT     initialize_table: raises TableExistsError and writes nothing whenever a version is resolvable or
                recoverable; otherwise metadata file first, pointer last (create-if-absent on CAS backends); the lock is
                released on every path.
"""
from __future__ import annotations

import z3

from pyvc import pyops
from pyvc.ctx import PathEnd, Unsupported
from pyvc.engine import LoopSpec, PyRaise
from pyvc.pyops import PyExc
from pyvc.runner import H, Unit, base_registry, register, set_registry_factory
from pyvc.theories import misc, pybuiltins as pb, regex as rx
from pyvc.theories.store import Store, under
from pyvc.values import (ClassVal, PDict, PList, SBool, SBytes, SExc, SInt, SObj, SOpt, SStr, SXReal, TheoryObj, to_z3)

P = "C10"
MM = "metadata_manager"
HINT = "metadata.version-hint.text"

META = {
    "explanation": "String VCs over the real parsing/recovery code; storage through T-store action contracts.",
    "trusted": [
        "T-py: bytes.decode('utf-8'), str.strip, str.isdigit, str.isascii, int(str) as in pyvc/theories/pybuiltins.py (character "
        "classes taken from the running interpreter); re pattern translated structurally",
        "T-store action contracts (exists/read_file/list_files/get_modified_time/write_file/write_file_cas)",
        "T-lock interface contract (acquire returns held or raises; release never leaves it held)",
    ],
    "assumptions": ["A-alphabet: characters above U+2FFFF behave like ordinary non-digit, non-space characters"],
}


def registry():
    reg = base_registry()
    misc.install_regex(reg)
    misc.install_rlock(reg)
    return reg


set_registry_factory(P, registry)


def meta_re():
    return rx.Compiled(r"^v(\d+)(?:-[0-9a-f]{8})?\.metadata\.json$")


# =================================================================================== PARSE-TOTAL
def h_parse_total(h: H):
    h.reg.modconsts["py.int_digit_limit"] = True      # pointer content is arbitrary and unbounded: int() may refuse it
    content = h.bytes("content")
    out, val = h.run(f"{MM}:MetadataManager._parse_hint_content", [content])
    # the decoded, stripped text (ghost): recover it from the theory's decode function for the class predicate
    dec = z3.Function("utf8.decode", z3.StringSort(), z3.StringSort())
    text = dec(content.z)
    h.ensure("PARSE-TOTAL:never-raises", out == "ok", detail=repr(val) if out != "ok" else "")
    if out != "ok":
        return
    if val is None:
        h.cover("PARSE-TOTAL:none")
        return
    h.ensure("PARSE-TOTAL:result-is-(version,name)", isinstance(val, tuple) and len(val) == 2)
    v, name = val
    nz = pyops.str_z(name)
    c = meta_re()
    h.ensure("PARSE-TOTAL:name-in-L(metadata-file-pattern)", z3.InRe(nz, c.match_language()))
    h.ensure("PARSE-TOTAL:name-has-no-path-separator", z3.Not(z3.Contains(nz, z3.StringVal("/"))))
    # "v = the version encoded in name" needs a unique-decomposition argument over Unicode digit classes that neither
    # z3 nor cvc5 decides within budget (measured: 40 s unknown on both); it is checked by the bounded stand-in below.
    h.ensure("PARSE-TOTAL:version>=0", pyops.int_z(v) >= 0)


def _replay_parse(ob):
    m = ob.get("model") or {}
    return f'''
import sys
from datashard.metadata_manager import MetadataManager
model = {m!r}
def unz3(s):
    import re
    return re.sub(r"\\\\u\\{{([0-9a-fA-F]+)\\}}", lambda mm: chr(int(mm.group(1), 16)), s) if isinstance(s, str) else s
cands = [b"", b" ", b"3", b"v3.metadata.json", b"v3-1a2b3c4d.metadata.json\\n", b"\\xff\\xfe", "²".encode(), "٣".encode(), "1²".encode(),
         "①".encode(), b"v3-1a2b3c4d.metadata.json/..", b"../v3.metadata.json", b"v-1.metadata.json", b"007", b"+3", b"3_0", b" 12 \\n",
         "v٣.metadata.json".encode(), b"v3-1A2B3C4D.metadata.json", b"v3.metadata.json\\n\\n",
         b"9" * 5000, b"v" + b"9" * 5000 + b".metadata.json", b"v" + b"1" * 4301 + b"-1a2b3c4d.metadata.json"]   # beyond int()'s digit limit
raw = model.get("content")
if isinstance(raw, str):
    try: cands.append(unz3(raw).encode("latin-1"))
    except Exception: cands.append(unz3(raw).encode("utf-8"))
bad = []
for b in cands:
    try:
        r = MetadataManager._parse_hint_content(b)
    except Exception as e:
        bad.append((b, "raised", repr(e))); continue
    if r is not None:
        v, name = r
        import re
        if not re.match(r"^v(\\d+)(?:-[0-9a-f]{{8}})?\\.metadata\\.json$", name) or "/" in name or int(re.match(r"^v(\\d+)", name).group(1)) != v:
            bad.append((b, "bad result", r))
print("replay parse_hint_content ->", bad or "total on the sampled grammar")
sys.exit(1 if bad else 0)
'''


def _bounded_parse():
    """bounded stand-in (never counted as proved): version(name) == v on an enumerated pointer grammar."""
    import itertools
    import re
    import subprocess, sys, json, os
    from pyvc.runner import PY, VERIF
    code = r"""
import itertools, re, sys, json
from datashard.metadata_manager import MetadataManager
digs = ["0", "7", "12", "007", "99999999999999999999", "\u0663", "1\u0663", "\u00b2", "\u2460"]
sufs = ["", "-1a2b3c4d", "-1A2B3C4D", "-1a2b3c4", "-1a2b3c4d5"]
tails = [".metadata.json", ".metadata.json\n", ".metadata.jso", ".metadata.json/x"]
pres = ["v", "V", "", " v", "x/v"]
n = 0; bad = []
for p, d, s, t in itertools.product(pres, digs, sufs, tails):
    for wrap in ("%s", " %s \n"):
        txt = wrap % (p + d + s + t)
        n += 1
        try: r = MetadataManager._parse_hint_content(txt.encode("utf-8"))
        except Exception as e:
            bad.append("raised on %r: %r" % (txt, e)); continue
        if r is None: continue
        v, name = r
        m = re.match(r"^v(\d+)(?:-[0-9a-f]{8})?\.metadata\.json$", name)
        if not m or int(m.group(1)) != v or "/" in name: bad.append("bad result for %r: %r" % (txt, r))
for d in digs:
    n += 1
    try: r = MetadataManager._parse_hint_content(d.encode("utf-8"))
    except Exception as e:
        bad.append("raised on %r: %r" % (d, e)); continue
    if r is not None and (not re.match(r"^v(\d+)\.metadata\.json$", r[1]) or int(re.match(r"^v(\d+)", r[1]).group(1)) != r[0]):
        bad.append("bad legacy result for %r: %r" % (d, r))
print(json.dumps({"n": n, "bad": bad[:5]}))
"""
    env = dict(os.environ)
    src = os.environ.get("PYVC_REPO_SRC")
    if src:
        env["PYTHONPATH"] = os.path.dirname(src.rstrip("/")) + os.pathsep + env.get("PYTHONPATH", "")
    out = subprocess.run([PY, "-c", code], capture_output=True, text=True, env=env, timeout=120)
    d = json.loads(out.stdout.strip().splitlines()[-1])
    return d["n"], d["bad"]


register(Unit(P, "PARSE-TOTAL/_parse_hint_content", h_parse_total, functions=[f"{MM}:MetadataManager._parse_hint_content"],
              replay=_replay_parse, z3_timeout_ms=20000, bounded=_bounded_parse, bounded_always=True,
              note="bounded: version(name)==v on 1809 enumerated pointer texts"))


# =================================================================================== RESOLVE
def mm_object(h: H, store: Store, lock=None):
    return h.obj("MetadataManager", table_path=h.str("table_path"), storage=store.obj, metadata_path="metadata",
                 current_version=0, _lock=TheoryObj("rlock"), lock_provider=(lock.obj if lock else TheoryObj("lock")))


def parse_contract(h: H, calls):
    """callee contract of _parse_hint_content (PARSE-TOTAL): None or (v>=0, name in L)."""
    def contract(I, fv, args, kwargs):
        calls.append(args[-1])
        if I.ctx.flip("hint-unparseable"):
            return None
        name = I.ctx.fresh_str("hinted_name")
        I.ctx.assume(z3.InRe(name, meta_re().match_language()))
        v = I.ctx.fresh_int("hinted_version")
        I.ctx.assume(v >= 0)
        return (SInt(v), SStr(name))
    h.reg.contracts[f"{MM}:MetadataManager._parse_hint_content"] = contract


def h_read_version_hint(h: H):
    st = Store(h)
    st.install(h.reg)
    mm = mm_object(h, st)
    calls = []
    parse_contract(h, calls)
    out, val = h.run(f"{MM}:MetadataManager._read_version_hint", [mm])
    h.ensure("RESOLVE:read_version_hint-never-raises(no-fault)", out == "ok")
    if out != "ok":
        return
    hint = z3.StringVal(HINT)
    if len(calls) == 0:
        h.ensure("RESOLVE:no-pointer=>None", z3.And(z3.Not(z3.Select(st.ex, hint)), val is None))
    else:
        h.ensure("RESOLVE:pointer-content-parsed", z3.And(z3.Select(st.ex, hint), pyops.str_z(calls[0]) == z3.Select(st.ct, hint)))
        h.ensure("RESOLVE:result-is-the-parse-result", len(calls) == 1)
    reads = [e for e in st.events if e["op"] in ("read_file", "exists")]
    h.ensure("RESOLVE:only-the-pointer-is-touched", all(z3.is_true(z3.simplify(e["path"] == hint)) for e in reads))


def h_current_version_info(h: H):
    st = Store(h)
    st.install(h.reg)
    mm = mm_object(h, st)
    hinted = {}

    def rvh(I, fv, args, kwargs):
        if I.ctx.flip("no-usable-hint"):
            hinted["v"] = None
            return None
        name = I.ctx.fresh_str("hinted_name")
        I.ctx.assume(z3.InRe(name, meta_re().match_language()))
        v = SInt(I.ctx.fresh_int("hinted_version"))
        hinted["v"] = (v, SStr(name))
        return hinted["v"]
    h.reg.contracts[f"{MM}:MetadataManager._read_version_hint"] = rvh
    rec = {}

    def recover(I, fv, args, kwargs):
        rec["called"] = rec.get("called", 0) + 1
        rec["r"] = None if I.ctx.flip("recover-none") else (SInt(I.ctx.fresh_int("rv")), SStr(I.ctx.fresh_str("rname")))
        return rec["r"]
    h.reg.contracts[f"{MM}:MetadataManager._recover_version_from_files"] = recover
    out, val = h.run(f"{MM}:MetadataManager._current_version_info", [mm])
    h.ensure("RESOLVE:current_version_info-never-raises(no-fault)", out == "ok")
    if out != "ok":
        return
    hv = hinted.get("v")
    if hv is None:
        h.ensure("RESOLVE:no-hint=>recovery-result", rec.get("called") == 1 and val is rec.get("r"))
    else:
        target = z3.Concat(z3.StringVal("metadata/"), hv[1].z)
        if rec.get("called"):
            h.ensure("RESOLVE:recovery-only-when-hinted-target-missing", z3.Not(z3.Select(st.ex, target)))
            h.ensure("RESOLVE:then-recovery-result", val is rec.get("r") and rec.get("called") == 1)
        else:
            h.ensure("RESOLVE:hinted-version-when-target-exists", z3.And(z3.Select(st.ex, target), val is hv))
    h.ensure("RESOLVE:nothing-written", len(st.written) == 0 and len(st.deleted) == 0)


from contracts import commitpath as _cp_r  # noqa: E402
register(Unit(P, "RESOLVE/_read_version_hint", h_read_version_hint, functions=[f"{MM}:MetadataManager._read_version_hint"], replay=_cp_r._replay_mm_commit))
register(Unit(P, "RESOLVE/_current_version_info", h_current_version_info, functions=[f"{MM}:MetadataManager._current_version_info"], replay=_cp_r._replay_mm_commit))


# =================================================================================== RECOVER
def h_recover(h: H):
    """Witness proof of 'the result dominates every qualifying file': w is an arbitrary, fixed listed file."""
    c = h.ctx
    st = Store(h)
    st.install(h.reg)
    mm = mm_object(h, st)
    cre = meta_re()
    # witness: an arbitrary file name w = 'metadata/' ++ wb  (directly in metadata/) that is a metadata file
    wb = z3.String("witness_basename")
    h.report("witness_basename", wb)
    wpath = z3.Concat(z3.StringVal("metadata/"), wb)
    h.reg.modconsts["regex.functional_groups"] = True
    h.assume(z3.InRe(wb, cre.match_language()))
    h.assume(pb.not_contains(wb, "/"))   # implied by the pattern; stated to spare the solver
    h.assume(pb.not_contains(wb, "\\"))
    # version(w) as the code computes it: int(group 1 of the pattern on the basename)  (both are functions of the string)
    G1 = z3.Function(f"re.group1[{cre.pattern}]", z3.StringSort(), z3.StringSort())
    wver = pb.PYINT(G1(wb))
    st.witnesses.append(wpath)
    g = {"w_seen": z3.BoolVal(False)}
    committed = z3.Function("ghost.committed", z3.StringSort(), z3.BoolSort())  # basename -> its pointer flip happened
    cur = {}

    def best_of(env):
        ok, b = env.lookup("best")
        return b

    def inv(I, env, it):
        b = best_of(env)
        res = []
        if it.get("after_body"):
            # the element of this iteration
            e = cur.get("elem")
            if e is not None:
                g["w_seen"] = z3.Or(g["w_seen"], e == wpath)
        ok_m, bm = env.lookup("best_mtime")
        mtw = z3.Select(st.mt, wpath)

        def tie(bnone, bv, bn):
            """the remembered mtime is the best candidate's own, and a seen same-version witness is not newer than it"""
            if not isinstance(bm, SXReal):
                return [("RECOVER-TIE:inv:the-candidate's-modification-time-is-remembered", z3.BoolVal(False) if bnone is None else bnone)]
            mt_best = z3.Select(st.mt, z3.Concat(z3.StringVal("metadata/"), bn.z))
            present = z3.BoolVal(True) if bnone is None else z3.Not(bnone)
            return [("RECOVER-TIE:inv:the-candidate's-modification-time-is-remembered",
                     z3.Implies(present, z3.And(z3.Not(bm.nan), bm.inf == 0, bm.r == mt_best))),
                    ("RECOVER-TIE:inv:a-seen-file-of-the-same-version-is-not-newer-than-the-candidate",
                     z3.Implies(z3.And(present, g["w_seen"], pyops.int_z(bv) == wver), mtw <= mt_best))]
        if isinstance(b, SOpt):
            bv, bn = b.val
            res += tie(b.isnone, bv, bn)
            res.append(("RECOVER:inv:witness-dominated",
                        z3.Implies(g["w_seen"], z3.And(z3.Not(b.isnone), pyops.int_z(bv) >= wver))))
            res.append(("RECOVER:inv:best-is-a-listed-metadata-file",
                        z3.Implies(z3.Not(b.isnone), z3.And(z3.InRe(bn.z, cre.match_language()),
                                                            z3.Select(st.ex, z3.Concat(z3.StringVal("metadata/"), bn.z)),
                                                            pyops.int_z(bv) >= 0))))
        elif b is None:
            res.append(("RECOVER:inv:witness-dominated", z3.Not(g["w_seen"])))
        else:
            bv, bn = b
            res += tie(None, bv, bn)
            res.append(("RECOVER:inv:witness-dominated", z3.Implies(g["w_seen"], pyops.int_z(bv) >= wver)))
            res.append(("RECOVER:inv:best-is-a-listed-metadata-file",
                        z3.And(z3.InRe(bn.z, cre.match_language()),
                               z3.Select(st.ex, z3.Concat(z3.StringVal("metadata/"), bn.z)))))
        return res

    def havoc(I, env, it):
        g["w_seen"] = I.ctx.fresh_bool("w_seen")
        env.vars["best"] = SOpt(I.ctx.fresh_bool("best_none"), (SInt(I.ctx.fresh_int("best_v")), SStr(I.ctx.fresh_str("best_name"))))
        env.vars["best_mtime"] = SXReal(z3.BoolVal(False), z3.IntVal(0), I.ctx.fresh("best_mtime", z3.RealSort()))

    orig_list = st.a_list_files

    def list_files(I, obj, a, k):
        it = orig_list(I, obj, a, k)
        g["listed"] = True
        mk0 = it.fields["mk"]

        def mk(I2):
            # an arbitrary listed file: either the witness or some other file
            if I2.ctx.flip("elem-is-witness"):
                I2.ctx.assume(z3.Select(st.ex, wpath))
                cur["elem"] = wpath
                return SStr(wpath)
            e = mk0(I2)
            cur["elem"] = e.z
            # the listing is backslash-free on POSIX (A-posix)
            I2.ctx.assume(pb.not_contains(e.z, "\\"), "A-posix: listed names contain no backslash")
            return e
        it.fields["mk"] = mk
        return it
    h.reg.theory_methods[("storage", "list_files")] = list_files
    h.reg.loops[f"{MM}:MetadataManager._recover_version_from_files"] = {
        0: LoopSpec(invariant=inv, havoc=havoc, name="files",
                    skip=["best", "best_mtime", "basename", "parent", "m", "version", "mtime", "rel_path"])}
    out, val = h.run(f"{MM}:MetadataManager._recover_version_from_files", [mm])
    h.ensure("RECOVER:never-raises", out == "ok")
    if out != "ok":
        return
    listed_w = z3.Select(st.ex, wpath)  # ALL-VISITED: at loop exit every listed file has been an iteration's element
    if g.get("listed"):
        # only a loop that RAN over the listing has visited its elements; a return before the listing gets no such fact
        h.assume(z3.Implies(listed_w, g["w_seen"]), "rule ALL-VISITED: a completed for-loop has visited every element")
    if isinstance(val, SOpt):
        bv, bn = val.val
        h.ensure("RECOVER:None-only-if-no-metadata-file", z3.Implies(val.isnone, z3.Not(listed_w)))
        h.ensure("RECOVER:result-has-the-highest-version", z3.Implies(z3.And(z3.Not(val.isnone), listed_w), pyops.int_z(bv) >= wver))
        h.ensure("RECOVER-TIE:among-the-files-of-the-highest-version-the-most-recently-modified-is-returned",
                 z3.Implies(z3.And(z3.Not(val.isnone), listed_w, pyops.int_z(bv) == wver),
                            z3.Select(st.mt, wpath) <= z3.Select(st.mt, z3.Concat(z3.StringVal("metadata/"), bn.z))))
        # RECOVER-COMMITTED: the recovered version was committed (its pointer flip happened)
        h.assume(z3.Not(val.isnone))
        h.ensure("RECOVER-COMMITTED:recovered-version-was-committed", committed(bn.z),
                 classes=[("orphan-has-highest-version", z3.Not(committed(bn.z)))],
                 detail="ghost: committed(name) = the pointer was flipped to name at some time")
    elif val is None:
        h.ensure("RECOVER:None-only-if-no-metadata-file", z3.Not(listed_w))
    else:
        bv, bn = val
        h.ensure("RECOVER:result-has-the-highest-version", z3.Implies(listed_w, pyops.int_z(bv) >= wver))


def h_recover_listing_fails(h: H):
    st = Store(h, fault_classes=["OSError", "OtherException"], fault_ops=["list_files"])
    st.install(h.reg)
    mm = mm_object(h, st)
    h.reg.loops[f"{MM}:MetadataManager._recover_version_from_files"] = {0: LoopSpec(invariant=lambda I, e, it: [], name="files", skip=["best", "best_mtime"],
                                                                                     havoc=lambda I, env, it: env.vars.update(best=None))}
    out, val = h.run(f"{MM}:MetadataManager._recover_version_from_files", [mm])
    if st.faults_injected:
        h.ensure("RECOVER:listing-failure=>None-not-raise", out == "ok" and val is None)
        h.cover("RECOVER:listing-failure-reachable")


def _replay_recover(ob):
    # the orphan-with-the-highest-version scenario is the listed known finding: it is part of the verdict for that obligation only
    fallback = ob.get("verdict") in ("undecided", "scenario") or "RECOVER-COMMITTED" not in str(ob.get("name", ""))
    return f"FALLBACK = {fallback!r}   # True: the known orphan scenario is not part of the verdict\n" + '''
import sys, os, tempfile, shutil, json, time
from datashard import create_table, load_table
from datashard.data_structures import Schema
root = tempfile.mkdtemp(prefix="pyvc_replay_")
bad = []
try:
    p = os.path.join(root, "t")
    t = create_table(p, schema=Schema(schema_id=1, fields=[{"id": 1, "name": "a", "type": "long", "required": False}]))
    t.append_records([{"a": 1}]); t.append_records([{"a": 2}])
    md = os.path.join(p, "metadata")
    committed = open(os.path.join(p, "metadata.version-hint.text")).read().strip()
    # an orphan left by a failed / crashed commit: a metadata file with a higher version that was never pointed to
    src = json.load(open(os.path.join(md, committed)))
    src["snapshots"] = src["snapshots"][:1]; src["current_snapshot_id"] = src["snapshots"][0]["snapshot_id"]
    orphan = "v99-deadbeef.metadata.json"
    json.dump(src, open(os.path.join(md, orphan), "w"))
    os.remove(os.path.join(p, "metadata.version-hint.text"))   # pointer lost
    t2 = load_table(p)
    rows = sorted(r["a"] for r in t2.scan())
    if rows != [1, 2] and not FALLBACK:
        bad.append(("recovery surfaced a never-committed version", orphan, "rows", rows, "committed", committed))
    # numeric (not lexicographic) maximum over >= 10 committed versions, pointer lost
    os.remove(os.path.join(md, orphan))
    p2 = os.path.join(root, "t2")
    t3 = create_table(p2, schema=Schema(schema_id=1, fields=[{"id": 1, "name": "a", "type": "long", "required": False}]))
    for i in range(12): t3.append_records([{"a": i}])
    latest = open(os.path.join(p2, "metadata.version-hint.text")).read().strip()
    os.remove(os.path.join(p2, "metadata.version-hint.text"))
    mm = load_table(p2).metadata_manager
    info = mm._current_version_info()
    if info is None or info[1] != latest:
        bad.append(("recovery did not return the latest committed version", info, latest))
    if sorted(r["a"] for r in load_table(p2).scan()) != list(range(12)):
        bad.append("rows lost after pointer loss on a 12-commit table")
finally:
    shutil.rmtree(root, ignore_errors=True)
print("replay recover ->", bad or "recovered the committed version")
sys.exit(1 if bad else 0)
'''


register(Unit(P, "RECOVER/_recover_version_from_files", h_recover, functions=[f"{MM}:MetadataManager._recover_version_from_files"],
              replay=_replay_recover, z3_timeout_ms=30000))
register(Unit(P, "RECOVER/listing-fails", h_recover_listing_fails, functions=[f"{MM}:MetadataManager._recover_version_from_files"]))


# =================================================================================== NO-REINIT
def h_initialize_table(cas: bool):
    def harness(h: H):
        c = h.ctx
        st = Store(h, supports_cas=cas, atomic_write_failures=not cas, fault_classes=["OSError"], max_faults=1,
                   fault_ops=["write_file", "write_file_cas"])
        st.install(h.reg)
        lock = misc.Lock(store=st)
        lock.install(h.reg)
        misc.install_clock(h.reg, c)
        mm = mm_object(h, st, lock)
        info = {}

        def cvi(I, fv, args, kwargs):
            st.log("current_version_info")
            info["r"] = None if I.ctx.flip("no-version-resolvable") else (SInt(I.ctx.fresh_int("v")), SStr(I.ctx.fresh_str("n")))
            info["held_at_check"] = lock.held
            return info["r"]
        h.reg.contracts[f"{MM}:MetadataManager._current_version_info"] = cvi
        names = []

        def new_name(I, fv, args, kwargs):
            n = I.ctx.fresh_str("metadata_file")
            I.ctx.assume(z3.Not(z3.PrefixOf(z3.StringVal("/"), n)))
            names.append((args[-1], n))
            return SStr(n)
        h.reg.contracts[f"{MM}:MetadataManager._new_metadata_filename"] = new_name

        def write_meta(I, fv, args, kwargs):
            _self, path, metadata = args
            st.a_write_file(I, st.obj, [path, SBytes(I.ctx.fresh_str("metadata_json"))], {})
            st.events[-1]["is_metadata"] = True
            st.events[-1]["lock_held"] = lock.held
            return None
        h.reg.contracts[f"{MM}:MetadataManager._write_metadata_file"] = write_meta
        h.reg.inline.add(f"{MM}:MetadataManager._release_lock_safely")
        metadata = h.obj("TableMetadata", current_snapshot_id=SOpt(c.fresh_bool("csid_none"), SInt(c.fresh_int("csid"))),
                         last_updated_ms=SInt(c.fresh_int("lu")))
        out, val = h.run(f"{MM}:MetadataManager.initialize_table", [mm, metadata])
        writes = [e for e in st.events if e["op"] in ("write_file", "write_file_cas") and e.get("ok", True)]
        h.ensure("NO-REINIT:lock-not-held-afterwards", not lock.held)
        rel = [e for e in lock.events if e["op"] == "lock.release"]
        acq_ok = [e for e in lock.events if e["op"] == "lock.acquire" and e["ok"]]
        h.ensure("NO-REINIT:release-iff-acquired", len(rel) == len(acq_ok))
        if not acq_ok:
            h.ensure("NO-REINIT:acquire-failure=>raises-and-nothing-written", out == "raise" and not writes)
            return
        h.ensure("NO-REINIT:existence-check-inside-the-lock", info.get("held_at_check") is True)
        if info.get("r") is not None:
            h.ensure("NO-REINIT:existing-table=>TableExistsError", out == "raise" and val.cls == "TableExistsError")
            h.ensure("NO-REINIT:existing-table=>nothing-written", len(writes) == 0 and len(st.deleted) == 0)
            h.cover("NO-REINIT:refusal-reachable")
            return
        ptr = [e for e in writes if z3.is_true(z3.simplify(e["path"] == z3.StringVal(HINT)))]
        metaw = [e for e in writes if e.get("is_metadata")]
        if out == "ok":
            h.ensure("NO-REINIT:ok=>one-metadata-file-then-one-pointer-write",
                     len(metaw) == 1 and len(ptr) == 1 and len(writes) == 2 and metaw[0]["n"] < ptr[0]["n"])
            if len(ptr) == 1 and len(names) == 1:
                h.ensure("NO-REINIT:pointer-names-the-file-just-written",
                         z3.And(metaw[0]["path"] == z3.Concat(z3.StringVal("metadata/"), names[0][1]) if metaw else z3.BoolVal(False),
                                ptr[0]["content"] == z3.Function("utf8.encode", z3.StringSort(), z3.StringSort())(names[0][1])))
                h.ensure("NO-REINIT:version-0", pyops.bool_z(pyops.py_eq(names[0][0], 0)))
            if cas and ptr:
                h.ensure("NO-REINIT:CAS-backend=>create-if-absent", ptr[0]["op"] == "write_file_cas" and ptr[0]["etag"] is None)
            h.ensure("NO-REINIT:all-writes-under-the-lock", all(e.get("lock_held", lock_held_at(lock, st, e)) for e in writes))
            h.ensure("NO-REINIT:returns-the-metadata", val is metadata)
            h.ensure("NO-REINIT:current_version=0", pyops.bool_z(pyops.py_eq(mm.fields["current_version"], 0)))
        else:
            if val.cls == "TableExistsError":
                h.ensure("NO-REINIT:TableExistsError-on-empty-table-only-from-lost-CAS-race",
                         cas and isinstance(val.cause, SExc) and val.cause.cls == "CASConflictError" and len(ptr) == 0)
            else:
                h.ensure("NO-REINIT:other-raise-only-from-a-storage-fault", bool(val.fields.get("fault")))
    return harness


def lock_held_at(lock, st, ev):
    """was the lock held when event ev happened? (from the interleaved log)"""
    held = False
    for e in st.events:
        if e is ev:
            return held
        if e["op"] == "lock.acquire" and e.get("ok"):
            held = True
        elif e["op"] == "lock.release":
            held = False
    return held


for _cas in (False, True):
    register(Unit(P, f"NO-REINIT/initialize_table-{'cas' if _cas else 'local'}", h_initialize_table(_cas),
                  functions=[f"{MM}:MetadataManager.initialize_table", f"{MM}:MetadataManager._release_lock_safely"]))

# WRITABLE: a table opened through a damaged / recovered pointer stays writable - the next version number comes from the
# recovery-aware resolver (not from the raw pointer text), in MetadataManager.commit (harness shared with C01/C08)
from contracts import commitpath as _cp  # noqa: E402
register(Unit(P, "WRITABLE/MetadataManager.commit-local", _cp.h_mm_commit("local"), functions=[f"{MM}:MetadataManager.commit"], replay=_cp._replay_mm_commit))

from contracts import helpers as _H  # noqa: E402
# NAME-RT (parse(name_for(v)) == (v, name) for all v) was attempted (contracts/helpers.py h_name_roundtrip): z3 and cvc5 both answer
# unknown within 60 s per path (IntToStr / regex group / StrToInt chains) - it stays the BOUNDED stand-in _bounded_parse above.
_H.register_under(P, ["HELPER/metadata-file-io", "NAME/_new_metadata_filename"], replay=_replay_parse)
