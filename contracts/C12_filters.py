"""C12 - filters mean what SQL says, identically in every scan API.

  PARSE   filters.parse_filter_dict / _parse_op against an independent table of operator spellings: every entry of
          the filter dict yields exactly the specified FilterExpressions or raises; no spelling is mapped to a
          different operator; unknown / non-string operators, {"c": None} and malformed `between` raise.
  SEM     filters._build_condition: the pyarrow expression it builds, evaluated by T-arrow's Kleene semantics at an
          arbitrary row (NULL, NaN, any value), keeps the row  <=>  SQL three-valued evaluation of (op, row, literal) is
          TRUE; IN () matches nothing, NOT IN () matches every non-NULL row, NULLs in the value set are ignored,
          comparisons and in/not_in never match a NULL row.
  CONJ    filters.to_pyarrow_compute_expression: Kleene conjunction of all conditions (loop invariant); [] -> None.
  ENGINE  Table._read_datafile_table / _iter_file_batches / _scan_table / scan_batches: every path returns
          project(columns, filter(E, rows(file))) for the single E, projection after filtering.
"""
from __future__ import annotations

import z3

from pyvc import acc as _acc
from pyvc import pyops
from pyvc.ctx import PathEnd, Unsupported
from pyvc.engine import LoopSpec, PyRaise
from pyvc.pyops import PyExc
from pyvc.runner import H, Unit, base_registry, register, set_registry_factory
from pyvc.values import (EnumVal, PDict, PList, SBool, SExc, SInt, SObj, SOpaque, SOpt, SStr, SXReal, TheoryObj,
                         to_z3, usort)

P = "C12"
FL = "filters"

META = {
    "explanation": "Parsing proved against an independent operator table; the built expression proved equivalent to SQL "
                   "3-valued semantics by evaluating it symbolically at an arbitrary row under T-arrow's Kleene algebra.",
    "trusted": [
        "T-arrow: Kleene semantics of ==,!=,<,<=,>,>=,&,~ on a nullable column; is_in(x, S) is false (not NULL) for a NULL x when S "
        "has no NULL, and treats NaN as equal to NaN; is_valid/is_null never NULL; Table.filter keeps rows evaluating to TRUE",
        "T-arrow: pa.array(values) either raises or represents exactly the given non-NULL values",
        "str.lower is an uninterpreted function (both the code and the specification are stated over lower(op))",
    ],
    "assumptions": ["dict iteration = insertion order; the filter dict is not mutated while parsed"],
}

SPEC_OPS = {  # independent table of operator spellings (documented grammar)
    "==": "EQ", "=": "EQ", "eq": "EQ", "!=": "NE", "<>": "NE", "ne": "NE", "<": "LT", "lt": "LT", "<=": "LE", "le": "LE",
    ">": "GT", "gt": "GT", ">=": "GE", "ge": "GE", "in": "IN", "not_in": "NOT_IN", "not in": "NOT_IN", "notin": "NOT_IN",
}
SPEC_NULL = {"is_null": "IS_NULL", "isnull": "IS_NULL", "is_not_null": "IS_NOT_NULL", "notnull": "IS_NOT_NULL",
             "isnotnull": "IS_NOT_NULL"}
ENUM_VALUE = {"EQ": "==", "NE": "!=", "LT": "<", "LE": "<=", "GT": ">", "GE": ">=", "IN": "in", "NOT_IN": "not_in",
              "IS_NULL": "is_null", "IS_NOT_NULL": "is_not_null"}


def registry():
    reg = base_registry()
    _acc.install(reg)
    return reg


set_registry_factory(P, registry)

LOWER = z3.Function("str.lower", z3.StringSort(), z3.StringSort())


# =================================================================================== PARSE
def h_parse(shape):
    """shape of the dict entry's condition: 'pair-strop' (op_str symbolic string), 'pair-nonstr', 'none', 'scalar',
    'tuple1', 'tuple3', 'between-ok', 'between-bad'."""
    def harness(h: H):
        c = h.ctx
        got = _acc.new_acc("expressions")
        cur = {}

        def mk_item(I):
            col = SStr(I.ctx.fresh_str("column"))
            val = SInt(I.ctx.fresh_int("value"))
            cur.update(col=col, val=val)
            if shape == "pair-strop":
                op = h.str("op_str")
                cur["op"] = op
                cond = (op, val)
            elif shape == "pair-nonstr":
                op = [5, None, 2.5, True][I.ctx.choose(4, "nonstr-op")]
                cur["op"] = op
                cond = (op, val)
            elif shape == "none":
                cond = None
            elif shape == "scalar":
                cond = val
            elif shape == "tuple1":
                cond = (val,)
            elif shape == "tuple3":
                cond = ("between", val, val)
            elif shape == "between-ok":
                lo, hi = SInt(I.ctx.fresh_int("lo")), SInt(I.ctx.fresh_int("hi"))
                cur.update(lo=lo, hi=hi)
                spelling = ["between", "BETWEEN", "Between"][I.ctx.choose(3, "between-spelling")]
                cond = (spelling, (lo, hi))
            elif shape == "between-bad":
                bad = [val, (val,), (val, val, val), None][I.ctx.choose(4, "bad-between")]
                cond = ("between", bad)
            else:
                raise ValueError(shape)
            cur["cond"] = cond
            return (col, cond)

        def expr_ok(e, col, opname, value):
            if not isinstance(e, SObj) or e.cls != "FilterExpression":
                return False
            if e.fields.get("op") != EnumVal("FilterOp", opname, ENUM_VALUE[opname]):
                return False
            okc = pyops.py_eq(e.fields.get("column"), col)
            okv = (e.fields.get("value") is value) if not isinstance(value, (SInt, SStr, int)) else pyops.py_eq(e.fields.get("value"), value)
            return pyops.bool_z(pyops._conj([okc, okv]))

        def inv(I, env, it):
            if not it.get("after_body"):
                return []
            adds = got.fields["added"]
            col, val = cur["col"], cur["val"]
            if shape == "pair-strop":
                low = LOWER(cur["op"].z)
                res = []
                spec_cases = []
                for sp, opn in SPEC_OPS.items():
                    spec_cases.append((sp, opn, "val"))
                for sp, opn in SPEC_NULL.items():
                    spec_cases.append((sp, opn, "none"))
                # which spec case does this path correspond to? decide by what was appended
                if len(adds) == 1 and isinstance(adds[0], SObj):
                    e = adds[0]
                    opname = e.fields["op"].name
                    spellings = [sp for sp, opn, _k in spec_cases if opn == opname]
                    res.append((f"PARSE:{opname}-only-for-its-spellings", z3.Or(*[low == z3.StringVal(sp) for sp in spellings])))
                    want_val = None if opname in ("IS_NULL", "IS_NOT_NULL") else val
                    res.append((f"PARSE:{opname}-expression-fields", expr_ok(e, col, opname, want_val)))
                elif len(adds) == 2:
                    res.append(("PARSE:two-expressions-only-for-between", low == z3.StringVal("between")))
                else:
                    res.append(("PARSE:strop-pair-yields-one-expression(or-between)", z3.BoolVal(False)))
                return res
            if shape == "scalar":
                return [("PARSE:scalar=>EQ", len(adds) == 1 and expr_ok(adds[0], col, "EQ", val))]
            if shape in ("tuple1", "tuple3"):
                return [("PARSE:non-pair-tuple=>EQ-with-the-tuple(not-an-operator)",
                         len(adds) == 1 and isinstance(adds[0], SObj) and adds[0].fields["op"].name == "EQ"
                         and adds[0].fields["value"] is cur["cond"])]
            if shape == "between-ok":
                return [("PARSE:between=>[GE lo, LE hi]",
                         len(adds) == 2 and z3.And(expr_ok(adds[0], col, "GE", cur["lo"]), expr_ok(adds[1], col, "LE", cur["hi"])))]
            return [("PARSE:must-raise", z3.BoolVal(False))]

        def havoc(I, env, it):
            env.vars["expressions"] = got
            _acc.reset(got)

        h.reg.loops[f"{FL}:parse_filter_dict"] = {0: LoopSpec(invariant=inv, havoc=havoc, name="entries",
                                                               skip=["expressions", "op_str", "value", "op_str_lower", "lo", "hi", "op"])}
        h.reg.inline.add(f"{FL}:_parse_op")
        h.reg.skip_post_init.add("FilterExpression")
        fdict = TheoryObj("symiter")
        fdict.fields["mk"] = mk_item
        h.reg.theory_methods[("symiter", "items")] = lambda I, o, a, k: o
        out, val = h.run(f"{FL}:parse_filter_dict", [fdict])
        if out == "raise":
            if shape == "pair-strop":
                low = LOWER(cur["op"].z)
                known = list(SPEC_OPS) + list(SPEC_NULL) + ["between"]
                unknown = z3.And(*[low != z3.StringVal(sp) for sp in known]) if cur else z3.BoolVal(False)
                if val.cls == "ValueError":
                    h.ensure("PARSE:ValueError-only-for-unknown-operator", unknown)
                    h.cover("PARSE:unknown-operator-reachable")
                else:
                    # the entry's value is an int: only `between` needs a (lo, hi) pair and may reject it
                    h.ensure("PARSE:other-raise-only-for-between-with-malformed-bounds",
                             z3.And(low == z3.StringVal("between"), val.cls == "TypeError"))
            elif shape in ("pair-nonstr", "none", "between-bad"):
                h.ensure(f"PARSE:{shape}-raises-ValueError-or-TypeError", val.cls in ("ValueError", "TypeError"))
                h.cover(f"PARSE:{shape}-raise-reachable")
            else:
                h.fail(f"PARSE:{shape}-must-not-raise", detail=repr(val))
        else:
            h.ensure("PARSE:returns-the-expression-list", val is got or (isinstance(val, PList) and len(val.items) == 0))
    return harness


def _replay_parse(ob):
    m = ob.get("model") or {}
    return f'''
import sys
from datashard.filters import parse_filter_dict, FilterOp
model = {m!r}
SPEC = {SPEC_OPS!r}; NULLS = {SPEC_NULL!r}
bad = []
def spellings(s): return {{s, s.upper(), s.title()}}
for sp, opn in SPEC.items():
    for s in spellings(sp):
        try:
            r = parse_filter_dict({{"c": (s, 1)}})
            if len(r) != 1 or r[0].op != FilterOp[opn] or r[0].value != 1 or r[0].column != "c": bad.append((s, r))
        except Exception as e: bad.append((s, repr(e)))
for sp, opn in NULLS.items():
    r = parse_filter_dict({{"c": (sp, True)}})
    if len(r) != 1 or r[0].op != FilterOp[opn]: bad.append((sp, r))
r = parse_filter_dict({{"c": ("between", (1, 2))}})
if [(e.op, e.value) for e in r] != [(FilterOp.GE, 1), (FilterOp.LE, 2)]: bad.append(("between", r))
for junk in ["gte", "startswith", "like", "", " ==", "=>", "!", "is", "null", str(model.get("op_str", "zz")), 5, None, 2.5]:
    known = isinstance(junk, str) and junk.lower() in set(SPEC) | set(NULLS) | {{"between"}}
    try:
        r = parse_filter_dict({{"c": (junk, 1)}})
        if not known: bad.append(("accepted unknown operator", junk, r))
    except (ValueError, TypeError):
        if known: bad.append(("rejected known operator", junk))
for cond in [None, ("between", 1), ("between", (1,)), ("between", (1, 2, 3))]:
    try: bad.append(("accepted malformed", cond, parse_filter_dict({{"c": cond}})))
    except (ValueError, TypeError): pass
print("replay parse ->", bad or "ok")
sys.exit(1 if bad else 0)
'''


for _shape in ("pair-strop", "pair-nonstr", "none", "scalar", "tuple1", "tuple3", "between-ok", "between-bad"):
    register(Unit(P, f"PARSE/{_shape}", h_parse(_shape), functions=[f"{FL}:parse_filter_dict", f"{FL}:_parse_op"],
                  replay=_replay_parse, z3_timeout_ms=20000))


# =================================================================================== SEM / CONJ
def kleene_and(a, b):
    (an, av), (bn, bv) = a, b
    false_a = z3.And(z3.Not(an), z3.Not(av))
    false_b = z3.And(z3.Not(bn), z3.Not(bv))
    isnull = z3.And(z3.Not(false_a), z3.Not(false_b), z3.Or(an, bn))
    val = z3.And(z3.Not(an), av, z3.Not(bn), bv)
    return isnull, val


def kleene_not(a):
    an, av = a
    return an, z3.And(z3.Not(an), z3.Not(av))


def pcexpr(isnull, val, tag="expr"):
    return TheoryObj("pcexpr", label=tag, fields={"isnull": isnull, "val": val, "__overloads__": True, "tag": tag})


def arrow_theory(h: H, row, row_null, inlist_of):
    """Semantic model of pyarrow.compute expressions: every expression is represented by its value at ONE arbitrary row
    (isnull, val).  `row` is the row's value of the filtered column, `row_null` its NULL flag."""
    R = h.reg.theory_methods

    def lit_cmp(sym):
        def f(I, obj, a, k):
            lit = I.force(a[0])
            if obj.fields["tag"] != "field":
                raise Unsupported("comparison of a non-field expression")
            if lit is None:
                return pcexpr(z3.BoolVal(True), z3.BoolVal(False), "cmp-null-literal")
            if isinstance(lit, TheoryObj):
                raise PyRaise(SExc("ArrowInvalid", origin="comparison with a non-scalar"))
            if sym == "==":
                v = pyops.bool_z(pyops.py_eq(row, lit))
            elif sym == "!=":
                v = z3.Not(pyops.bool_z(pyops.py_eq(row, lit)))
            else:
                v = pyops.bool_z(pyops.py_order(sym, row, lit))
            return pcexpr(row_null, z3.And(z3.Not(row_null), v), f"cmp{sym}")
        return f
    for sym, dn in (("==", "__eq__"), ("!=", "__ne__"), ("<", "__lt__"), ("<=", "__le__"), (">", "__gt__"), (">=", "__ge__")):
        R[("pcexpr", dn)] = lit_cmp(sym)
    R[("pcexpr", "__and__")] = lambda I, o, a, k: pcexpr(*kleene_and((o.fields["isnull"], o.fields["val"]),
                                                                      (a[0].fields["isnull"], a[0].fields["val"])), "and")
    def k_or(I, o, a, k):
        na, nb = kleene_not((o.fields["isnull"], o.fields["val"])), kleene_not((a[0].fields["isnull"], a[0].fields["val"]))
        return pcexpr(*kleene_not(kleene_and(na, nb)), "or")
    R[("pcexpr", "__or__")] = k_or
    R[("pcexpr", "__invert__")] = lambda I, o, a, k: pcexpr(*kleene_not((o.fields["isnull"], o.fields["val"])), "not")

    def is_valid(I, o, a, k):
        if o.fields["tag"] != "field":
            raise Unsupported("is_valid of non-field")
        return pcexpr(z3.BoolVal(False), z3.Not(row_null), "is_valid")

    def is_null(I, o, a, k):
        if o.fields["tag"] != "field":
            raise Unsupported("is_null of non-field")
        return pcexpr(z3.BoolVal(False), row_null, "is_null")
    R[("pcexpr", "is_valid")] = is_valid
    R[("pcexpr", "is_null")] = is_null

    def pa_array(I, a, k):
        vals = a[0]
        if I.ctx.flip("pa.array-raises"):
            raise PyRaise(SExc("ArrowInvalid", origin="pa.array: values do not form one Arrow type"))
        return TheoryObj("arrowarray", fields={"values": vals})

    def pc_is_in(I, a, k):
        fld = a[0]
        vs = k.get("value_set", a[1] if len(a) > 1 else None)
        if fld.fields["tag"] != "field" or not isinstance(vs, TheoryObj):
            raise Unsupported("is_in shape")
        member = inlist_of(vs.fields["values"])
        # NULL row: false (value set has no NULL) -- not NULL
        return pcexpr(z3.BoolVal(False), z3.And(z3.Not(row_null), member), "is_in")

    def pc_scalar(I, a, k):
        v = a[0]
        if isinstance(v, bool):
            return pcexpr(z3.BoolVal(False), z3.BoolVal(v), "scalar")
        raise Unsupported("pc.scalar of non-bool")
    h.reg.modfuncs["pyarrow.array"] = pa_array
    h.reg.modfuncs["pyarrow.compute.is_in"] = pc_is_in
    h.reg.modfuncs["pyarrow.compute.scalar"] = pc_scalar
    h.reg.modfuncs["pyarrow.compute.field"] = lambda I, a, k: pcexpr(row_null, z3.BoolVal(False), "field")


def xreal(h: H, name):
    nan, inf, r = z3.Bool(name + "__nan"), z3.Int(name + "__inf"), z3.Real(name + "__real")
    h.ctx.assume(z3.And(inf >= -1, inf <= 1))
    for suffix, t in (("__nan", nan), ("__inf", inf), ("__real", r)):
        h.report(name + suffix, t)
    return SXReal(nan, inf, r)


def mkval(h: H, kind, name):
    if kind == "float":
        return xreal(h, name)
    return {"int": h.int, "str": h.str, "bool": h.bool}[kind](name)


SEM_OPS = ["EQ", "NE", "LT", "LE", "GT", "GE", "IN", "NOT_IN", "IS_NULL", "IS_NOT_NULL"]


def h_sem(kind, opname):
    def harness(h: H):
        c = h.ctx
        row = mkval(h, kind, "row_value")
        row_null = z3.Bool("row_is_null")
        h.report("row_is_null", row_null)
        inlist = z3.Bool("row_value_in_list")  # "the row's value equals some non-NULL element of the list" (NaN ~ NaN)
        h.report("row_value_in_list", inlist)

        def inlist_of(values):
            # the value set handed to is_in is the comprehension result: its witness membership carries the filter
            if isinstance(values, TheoryObj) and values.theory == "symiter":
                for w, m in values.fields.get("witnesses", []):
                    if w is row:
                        return m
                return z3.BoolVal(False)
            raise Unsupported("value set is not the filtered list")

        arrow_theory(h, row, row_null, inlist_of)
        lit = None
        lit_is_none = False
        if opname in ("IN", "NOT_IN"):
            def mk_elem(I):
                if I.ctx.flip("elem-none"):
                    return None
                return mkval_fresh(h, kind)
            value = TheoryObj("symiter", fields={"mk": mk_elem, "witnesses": [(row, inlist)]})
        elif opname in ("IS_NULL", "IS_NOT_NULL"):
            value = None
        else:
            if c.flip("literal-none"):
                value, lit_is_none = None, True
            else:
                value = lit = mkval(h, kind, "literal")
        expr = SObj("FilterExpression", {"column": "c", "op": EnumVal("FilterOp", opname, ENUM_VALUE[opname]), "value": value})
        field = pcexpr(row_null, z3.BoolVal(False), "field")
        out, res = h.run(f"{FL}:_build_condition", [expr, field])
        if out == "raise":
            h.ensure(f"SEM({opname}):raises-only-when-pyarrow-rejects-the-literals", str(res.origin).startswith("pa.array")
                     or str(res.origin).startswith("comparison with"))
            return
        h.ensure(f"SEM({opname}):returns-an-expression", isinstance(res, TheoryObj) and res.theory == "pcexpr")
        if not (isinstance(res, TheoryObj) and res.theory == "pcexpr"):
            return
        keeps = z3.And(z3.Not(res.fields["isnull"]), res.fields["val"])
        nn = z3.Not(row_null)
        if opname == "EQ":
            spec = z3.BoolVal(False) if lit_is_none else z3.And(nn, pyops.bool_z(pyops.py_eq(row, lit)))
        elif opname == "NE":
            spec = z3.BoolVal(False) if lit_is_none else z3.And(nn, z3.Not(pyops.bool_z(pyops.py_eq(row, lit))))
        elif opname in ("LT", "LE", "GT", "GE"):
            sym = {"LT": "<", "LE": "<=", "GT": ">", "GE": ">="}[opname]
            spec = z3.BoolVal(False) if lit_is_none else z3.And(nn, pyops.bool_z(pyops.py_order(sym, row, lit)))
        elif opname == "IN":
            spec = z3.And(nn, inlist)
        elif opname == "NOT_IN":
            spec = z3.And(nn, z3.Not(inlist))
        elif opname == "IS_NULL":
            spec = row_null
        else:
            spec = nn
        h.ensure(f"SEM({opname}):row-kept<=>SQL-3VL-TRUE", keeps == spec, detail=f"kind {kind}")
        h.cover(f"SEM({opname}):kept", keeps)
        if opname not in ("IS_NULL",):
            h.cover(f"SEM({opname}):null-row", row_null)
    return harness


def mkval_fresh(h: H, kind):
    c = h.ctx
    if kind == "int":
        return SInt(c.fresh_int("e"))
    if kind == "str":
        return SStr(c.fresh_str("e"))
    if kind == "bool":
        return SBool(c.fresh_bool("e"))
    n = c.fresh_name("e")
    nan, inf, r = z3.Bool(n + "__nan"), z3.Int(n + "__inf"), z3.Real(n + "__real")
    c.assume(z3.And(inf >= -1, inf <= 1))
    return SXReal(nan, inf, r)


def _replay_sem(kind, opname):
    def gen(ob):
        m = ob.get("model") or {}
        return f'''
import sys, math
import pyarrow as pa, pyarrow.compute as pc
from datashard.filters import FilterExpression, FilterOp, _build_condition, to_pyarrow_compute_expression
kind, opname = {kind!r}, {opname!r}
vals = {{"int": [0, 1, -5, 2**40], "float": [0.0, 1.5, -2.0, float("inf"), float("nan")], "str": ["", "a", "b", "ß"], "bool": [False, True]}}[kind]
typ = {{"int": pa.int64(), "float": pa.float64(), "str": pa.string(), "bool": pa.bool_()}}[kind]
col = pa.array(vals + [None], typ)
t = pa.table({{"c": col, "i": pa.array(range(len(vals) + 1))}})
def same(a, b): return a == b or (isinstance(a, float) and isinstance(b, float) and math.isnan(a) and math.isnan(b))
def sql(op, x, lit):
    if op == "IS_NULL": return x is None
    if op == "IS_NOT_NULL": return x is not None
    if x is None: return False
    if op in ("IN", "NOT_IN"):
        hit = any(e is not None and same(x, e) for e in lit)
        return hit if op == "IN" else not hit
    if lit is None: return False
    return {{"EQ": x == lit, "NE": x != lit, "LT": x < lit, "LE": x <= lit, "GT": x > lit, "GE": x >= lit}}[op]
bad = []
lits = [[], [None], vals[:1], vals[:2] + [None], vals] if opname in ("IN", "NOT_IN") else ([None] if opname.startswith("IS_") else vals)
for lit in lits:
    e = FilterExpression("c", FilterOp[opname], lit)
    try:
        got = sorted(t.filter(to_pyarrow_compute_expression([e]))["i"].to_pylist())
    except Exception as ex:
        continue  # pyarrow rejected the literal: a raise is acceptable
    exp = [i for i, x in enumerate(vals + [None]) if sql(opname, x, lit)]
    if got != exp: bad.append((opname, lit, "got", got, "expected", exp))
print("replay SEM", kind, opname, "->", bad or "ok")
sys.exit(1 if bad else 0)
'''
    return gen


for _k in ("int", "float", "str", "bool"):
    for _op in SEM_OPS:
        register(Unit(P, f"SEM/{_k}/{_op}", h_sem(_k, _op), functions=[f"{FL}:_build_condition"],
                      replay=_replay_sem(_k, _op)))


def h_conj(h: H):
    c = h.ctx
    g = {"so_far": None}
    conds = []

    def build(I, fv, args, kwargs):  # callee contract (SEM units): some condition with semantics (isnull, val) at the row
        e = pcexpr(I.ctx.fresh_bool("c_null"), I.ctx.fresh_bool("c_val"), "cond")
        conds.append((args, e))
        return e
    h.reg.contracts[f"{FL}:_build_condition"] = build
    fields = []

    def pc_field(I, a, k):
        f = pcexpr(z3.BoolVal(False), z3.BoolVal(False), "field")
        fields.append((a[0], f))
        return f
    h.reg.modfuncs["pyarrow.compute.field"] = pc_field
    h.reg.theory_methods[("pcexpr", "__and__")] = lambda I, o, a, k: pcexpr(*kleene_and((o.fields["isnull"], o.fields["val"]),
                                                                                        (a[0].fields["isnull"], a[0].fields["val"])), "and")
    ghost = {"null": z3.BoolVal(False), "val": z3.BoolVal(True), "any": z3.BoolVal(False)}
    cur = {}

    def mk_expr(I):
        e = SObj("FilterExpression", {"column": SStr(I.ctx.fresh_str("col")), "op": EnumVal("FilterOp", "EQ", "=="), "value": 1})
        cur["expr"] = e
        return e

    def sem_of_combined(env):
        ok, comb = env.lookup("combined")
        return comb

    def inv(I, env, it):
        comb = sem_of_combined(env)
        res = []
        if it.get("after_body"):
            # one condition was built for this expression's own column and conjoined
            okc = len(conds) == 1 and conds[0][0][0] is cur["expr"] and len(fields) == 1 and \
                fields[0][0] is cur["expr"].fields["column"] and conds[0][0][1] is fields[0][1]
            res.append(("CONJ:condition-built-for-this-expression-on-its-own-column", z3.BoolVal(bool(okc))))
            if okc:
                cn, cv = conds[0][1].fields["isnull"], conds[0][1].fields["val"]
                n2, v2 = kleene_and((ghost["null"], ghost["val"]), (cn, cv))
                ghost["null"], ghost["val"] = z3.If(ghost["any"], n2, cn), z3.If(ghost["any"], v2, cv)
                ghost["any"] = z3.BoolVal(True)
        if isinstance(comb, SOpt):
            res.append(("CONJ:combined-is-None-iff-no-condition-yet", comb.isnone == z3.Not(ghost["any"])))
            cc = comb.val
            res.append(("CONJ:combined=Kleene-conjunction-so-far",
                        z3.Implies(ghost["any"], z3.And(cc.fields["isnull"] == ghost["null"], cc.fields["val"] == ghost["val"]))))
        elif comb is None:
            res.append(("CONJ:combined-is-None-iff-no-condition-yet", z3.Not(ghost["any"])))
        else:
            res.append(("CONJ:combined-is-None-iff-no-condition-yet", ghost["any"]))
            res.append(("CONJ:combined=Kleene-conjunction-so-far",
                        z3.And(comb.fields["isnull"] == ghost["null"], comb.fields["val"] == ghost["val"])))
        return res

    def havoc(I, env, it):
        ghost["null"], ghost["val"], ghost["any"] = I.ctx.fresh_bool("g_null"), I.ctx.fresh_bool("g_val"), I.ctx.fresh_bool("g_any")
        env.vars["combined"] = SOpt(I.ctx.fresh_bool("comb_none"), pcexpr(I.ctx.fresh_bool("comb_null"), I.ctx.fresh_bool("comb_val"), "combined"))
        del conds[:]
        del fields[:]

    h.reg.loops[f"{FL}:to_pyarrow_compute_expression"] = {
        0: LoopSpec(invariant=inv, havoc=havoc, name="conjuncts", skip=["combined", "field", "condition"])}
    exprs = TheoryObj("symiter", fields={"mk": mk_expr})
    out, val = h.run(f"{FL}:to_pyarrow_compute_expression", [exprs])
    h.ensure("CONJ:no-raise", out == "ok")
    if out != "ok":
        return
    ne = h.I.symiter_nonempty(exprs)
    if val is None:
        h.ensure("CONJ:None-only-for-empty-list-or-no-condition", z3.Or(z3.Not(ne), z3.Not(ghost["any"])))
    elif isinstance(val, SOpt):
        h.ensure("CONJ:result-None-iff-nothing-conjoined", val.isnone == z3.Not(ghost["any"]))
        h.ensure("CONJ:result=Kleene-conjunction-of-all-conditions",
                 z3.Implies(ghost["any"], z3.And(val.val.fields["isnull"] == ghost["null"], val.val.fields["val"] == ghost["val"])))
    else:
        h.ensure("CONJ:result=Kleene-conjunction-of-all-conditions",
                 z3.And(val.fields["isnull"] == ghost["null"], val.fields["val"] == ghost["val"]))


register(Unit(P, "CONJ/to_pyarrow_compute_expression", h_conj, functions=[f"{FL}:to_pyarrow_compute_expression"]))


# =================================================================================== ENGINE (read path; harnesses in readpath.py)
from contracts import readpath as _rp  # noqa: E402

for _n, _hf, _fs in _rp.READ_UNITS:
    register(Unit(P, _n, _hf, functions=_fs, replay=_rp._replay_reads))
META["trusted"] = META["trusted"] + _rp.META["trusted"]

from contracts import helpers as _HLP  # noqa: E402
_HLP.register_under("C12", ["HELPER/_get_current_schema"])

# ID-MAP looks bounds up under the TABLE schema's field ids while files are written with the ids of the schema given to the
# append: sound only if an accepted schema argument has the table's ids (C11 SIG / ACCEPT-EQUIV, re-run here)
from contracts import C11_appends as _c11  # noqa: E402
register(Unit("C12", "ID-CONSISTENT/_schema_signature", _c11.h_signature, functions=["transaction:Transaction._schema_signature"], replay=None))
register(Unit("C12", "ID-CONSISTENT/_validate_schema_against_table", _c11.h_validate, functions=["transaction:Transaction._validate_schema_against_table"], replay=None))
