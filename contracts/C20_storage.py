"""C20 - both storage backends implement the same contract.

Obligation groups (DESIGN 4/C20):
  RANGE     S3RangeFile.seek/tell/readinto/readall/_get_range against the spec file model
            (size, pos, content): same bytes and positions as a local file, negative position is
            an error, only in-range bytes are requested, no request when nothing is to be read.
  RETRY     S3ConsistencyHandler.retry_with_backoff / is_permanent_s3_error / with_s3_retry:
            <= max_retries+1 attempts, result = the operation's result, permanent or
            non-retryable errors surface at once (same exception), exhaustion re-raises the last.
  KEY/LIST  (added below) _get_s3_key, list_files confinement, exists exactness.
"""
from __future__ import annotations

import z3

from pyvc import pyops
from pyvc.ctx import Unsupported
from pyvc.engine import LoopSpec, PyRaise
from pyvc.pyops import PyExc
from pyvc.runner import H, Unit, base_registry, register, set_registry_factory
from pyvc.values import (ClassVal, FuncVal, PDict, PList, SBool, SBytes, SExc, SInt, SObj, SOpt, SStr, TheoryObj,
                         to_z3)

P = "C20"
SB = "storage_backend"
S3C = "s3_consistency"

META = {
    "explanation": "Contracts on the real S3RangeFile / retry / key-mapping functions; VCs generated from "
                   "/repo's AST on every run and discharged by z3 (cvc5 for z3's unknowns).",
    "trusted": [
        "T-s3: get_object(Range='bytes=a-b') on an object of size n with 0<=a<=b<=n-1 returns exactly content[a:b+1]",
        "T-s3: strong read-after-write consistency (as the property states)",
        "with_s3_retry abstracted at its proved contract (RETRY group) when used by _get_range",
    ],
    "assumptions": ["buffer objects passed to readinto support len() and slice assignment (io.RawIOBase protocol)"],
}


# ---------------------------------------------------------------------------------------------
# theory objects used by these harnesses
def registry():
    reg = base_registry()
    reg.modfuncs["time.sleep"] = lambda I, a, k: None

    # writable buffer: len(b), b[:n] = data
    def buf_len(I, obj, a, k):
        return obj.fields["len"]

    def buf_setslice(I, obj, a, k):
        lo, hi, data = a
        obj.fields["writes"].append((lo, hi, data))
        return None

    reg.theory_methods[("buffer", "__len__")] = buf_len
    reg.theory_methods[("buffer", "__setslice__")] = buf_setslice
    return reg


set_registry_factory(P, registry)


def mk_rangefile(h: H):
    size, pos = h.int("size"), h.int("pos")
    h.assume(size.z >= 0)
    h.assume(pos.z >= 0)
    content = z3.String("content")
    h.report("content", content)
    h.assume(z3.Length(content) == size.z)
    f = h.obj("S3RangeFile", _s3=TheoryObj("s3client"), _bucket="bkt", _key=h.str("key"), _size=size, _pos=pos)
    return f, size, pos, content


# ---------------------------------------------------------------------------------- seek / tell
def h_seek(h: H):
    f, size, pos, _c = mk_rangefile(h)
    offset, whence = h.int("offset"), h.int("whence")
    out, val = h.run(f"{SB}:S3RangeFile.seek", [f, offset, whence])
    target = z3.If(whence.z == 0, offset.z, z3.If(whence.z == 1, pos.z + offset.z, size.z + offset.z))
    valid_whence = z3.Or(whence.z == 0, whence.z == 1, whence.z == 2)
    legal = z3.And(valid_whence, target >= 0)
    newpos = to_z3(f.fields["_pos"])
    if out == "ok":
        h.ensure("seek:returns-only-when-legal", legal)
        h.ensure("seek:result=target", to_z3(val) == target)
        h.ensure("seek:pos=target", newpos == target)
        h.cover("seek:ok-past-eof", target > size.z)
    else:
        h.ensure("seek:raises-only-when-illegal", z3.Not(legal))
        h.ensure("seek:raises-ValueError", val.cls == "ValueError")
        h.ensure("seek:pos-unchanged-on-error", newpos == pos.z)
        h.cover("seek:negative-target", z3.And(valid_whence, target < 0))
    for fld in ("_size", "_key", "_bucket"):
        h.ensure(f"seek:frame:{fld}", pyops.bool_z(pyops.py_eq(f.fields[fld], {"_size": size, "_key": f.fields["_key"], "_bucket": "bkt"}[fld])))


def h_seek_default_whence(h: H):
    f, size, pos, _c = mk_rangefile(h)
    offset = h.int("offset")
    out, val = h.run(f"{SB}:S3RangeFile.seek", [f, offset])
    if out == "ok":
        h.ensure("seek-default:absolute", z3.And(offset.z >= 0, to_z3(val) == offset.z, to_z3(f.fields["_pos"]) == offset.z))
    else:
        h.ensure("seek-default:neg-raises", z3.And(offset.z < 0, val.cls == "ValueError", to_z3(f.fields["_pos"]) == pos.z))


def h_tell(h: H):
    f, size, pos, _c = mk_rangefile(h)
    out, val = h.run(f"{SB}:S3RangeFile.tell", [f])
    h.ensure("tell:no-raise", out == "ok")
    h.ensure("tell:result=pos", to_z3(val) == pos.z)
    h.ensure("tell:pos-unchanged", to_z3(f.fields["_pos"]) == pos.z)
    out, val = h.run(f"{SB}:S3RangeFile.size", [f])
    h.ensure("size:result", z3.And(out == "ok", to_z3(val) == size.z))


# ---------------------------------------------------------------------------------- reads
def install_get_range_contract(h: H, f, size, content, requests):
    """Callee contract of S3RangeFile._get_range at its call sites (its own body is verified by h_get_range).
    requires 0 <= first <= last <= size-1   (only in-range bytes are requested)
    ensures  result == content[first : last+1]
    may raise (after retries) any S3/transport error -- with no effect on the file object."""
    ref = f"{SB}:S3RangeFile._get_range"

    def contract(I, fv, args, kwargs):
        _self, first, last = args
        fz, lz = pyops.int_z(first), pyops.int_z(last)
        h.ensure("get_range:pre:0<=first", fz >= 0)
        h.ensure("get_range:pre:first<=last", fz <= lz)
        h.ensure("get_range:pre:last<=size-1", lz <= size.z - 1)
        requests.append((fz, lz))
        if h.ctx.flip("get_range-fault"):
            raise PyRaise(SExc("ClientError", origin="T-s3 fault in _get_range"))
        return SBytes(z3.SubString(content, fz, lz - fz + 1))
    h.reg.contracts[ref] = contract


def h_readinto(h: H):
    f, size, pos, content = mk_rangefile(h)
    want = h.int("want")
    h.assume(want.z >= 0)
    buf = TheoryObj("buffer", fields={"len": want, "writes": []})
    requests = []
    install_get_range_contract(h, f, size, content, requests)
    out, val = h.run(f"{SB}:S3RangeFile.readinto", [f, buf])
    avail = z3.If(size.z - pos.z > 0, size.z - pos.z, z3.IntVal(0))
    n_spec = z3.If(want.z < avail, want.z, avail)
    newpos = to_z3(f.fields["_pos"])
    if out == "raise":
        # only a transport fault may surface, and then nothing moved
        h.ensure("readinto:raise-only-from-fault", z3.BoolVal(val.origin == "T-s3 fault in _get_range"))
        h.ensure("readinto:pos-unchanged-on-fault", newpos == pos.z)
        h.ensure("readinto:no-write-on-fault", len(buf.fields["writes"]) == 0)
        return
    n = to_z3(val)
    h.ensure("readinto:n=min(want,remaining)", n == n_spec)
    h.ensure("readinto:pos-advances-by-n", newpos == pos.z + n)
    h.ensure("readinto:requests<=1", len(requests) <= 1)
    if len(requests) == 0:
        h.ensure("readinto:no-request-only-when-nothing-to-read", n_spec == 0)
        h.ensure("readinto:no-write-when-nothing-read", len(buf.fields["writes"]) == 0)
        h.cover("readinto:eof", pos.z >= size.z)
    else:
        first, last = requests[0]
        h.ensure("readinto:request-when-something-to-read", n_spec > 0)
        h.ensure("readinto:first=pos", first == pos.z)
        h.ensure("readinto:range-length=n", last - first + 1 == n)
        ws = buf.fields["writes"]
        h.ensure("readinto:exactly-one-buffer-write", len(ws) == 1)
        if len(ws) == 1:
            lo, hi, data = ws[0]
            h.ensure("readinto:write-at-0", lo is None or (isinstance(lo, int) and lo == 0))
            h.ensure("readinto:write-extent=n", pyops.int_z(hi) == n)
            h.ensure("readinto:bytes=content[pos:pos+n]", pyops.str_z(data) == z3.SubString(content, pos.z, n))
        h.cover("readinto:short-read", z3.And(want.z > avail, avail > 0))
        h.cover("readinto:full-read", z3.And(want.z <= avail, want.z > 0))
    h.ensure("readinto:frame:size", to_z3(f.fields["_size"]) == size.z)


def h_readall(h: H):
    f, size, pos, content = mk_rangefile(h)
    requests = []
    install_get_range_contract(h, f, size, content, requests)
    out, val = h.run(f"{SB}:S3RangeFile.readall", [f])
    newpos = to_z3(f.fields["_pos"])
    if out == "raise":
        h.ensure("readall:raise-only-from-fault", z3.BoolVal(val.origin == "T-s3 fault in _get_range"))
        h.ensure("readall:pos-unchanged-on-fault", newpos == pos.z)
        return
    avail = z3.If(size.z - pos.z > 0, size.z - pos.z, z3.IntVal(0))
    h.ensure("readall:bytes=content[pos:]", pyops.str_z(val) == z3.SubString(content, pos.z, avail))
    h.ensure("readall:pos-advances", newpos == pos.z + avail)
    h.ensure("readall:requests<=1", len(requests) <= 1)
    if len(requests) == 0:
        h.ensure("readall:no-request-only-at-eof", pos.z >= size.z)
    else:
        first, last = requests[0]
        h.ensure("readall:first=pos", first == pos.z)
        h.ensure("readall:last=size-1", last == size.z - 1)
        h.cover("readall:nonempty", avail > 0)
    h.ensure("readall:frame:size", to_z3(f.fields["_size"]) == size.z)


def h_get_range(h: H):
    """S3RangeFile._get_range against T-s3: one GET with Range 'bytes=<first>-<last>' on (bucket,key),
    body fully read and closed; result = the body; wrapped in with_s3_retry (applied at its contract)."""
    f, size, pos, content = mk_rangefile(h)
    first, last = h.int("first"), h.int("last")
    h.assume(z3.And(0 <= first.z, first.z <= last.z, last.z <= size.z - 1))
    gets = []
    closed = []

    def get_object(I, obj, a, k):
        gets.append(dict(k))
        if h.ctx.flip("get_object-fault"):
            raise PyRaise(SExc("ClientError", origin="T-s3 get_object fault"))
        body = TheoryObj("s3body", fields={"data": SBytes(z3.SubString(content, first.z, last.z - first.z + 1))})
        return PDict({"Body": body})

    def body_read(I, obj, a, k):
        if h.ctx.flip("body-read-fault"):
            raise PyRaise(SExc("OSError", origin="T-s3 body.read fault"))
        return obj.fields["data"]

    def body_close(I, obj, a, k):
        closed.append(obj)
        return None

    h.reg.theory_methods[("s3client", "get_object")] = get_object
    h.reg.theory_methods[("s3body", "read")] = body_read
    h.reg.theory_methods[("s3body", "close")] = body_close

    calls = []

    def with_s3_retry(I, fv, args, kwargs):
        # contract (proved in the RETRY group): the result is the result of the last invocation of `operation`
        op = args[0]
        calls.append(op)
        return I.call(op, [], {})
    h.reg.contracts[f"{S3C}:with_s3_retry"] = with_s3_retry
    out, val = h.run(f"{SB}:S3RangeFile._get_range", [f, first, last])
    h.ensure("get_range:goes-through-retry-wrapper", len(calls) == 1)
    h.ensure("get_range:one-GET-per-attempt", len(gets) == 1)
    if gets:
        g = gets[0]
        h.ensure("get_range:bucket", pyops.bool_z(pyops.py_eq(g.get("Bucket"), "bkt")))
        h.ensure("get_range:key", pyops.bool_z(pyops.py_eq(g.get("Key"), f.fields["_key"])))
        want_hdr = z3.Concat(z3.StringVal("bytes="), pyops.int_to_str_z(first.z), z3.StringVal("-"), pyops.int_to_str_z(last.z))
        h.ensure("get_range:Range-header", pyops.bool_z(pyops.py_eq(g.get("Range"), SStr(want_hdr))))
    if out == "ok":
        h.ensure("get_range:result=body", pyops.str_z(val) == z3.SubString(content, first.z, last.z - first.z + 1))
        h.ensure("get_range:body-closed", len(closed) == 1)
    else:
        h.ensure("get_range:raise-only-from-fault", z3.BoolVal(str(val.origin).startswith("T-s3")))
        if val.origin == "T-s3 body.read fault":
            h.ensure("get_range:body-closed-on-read-fault", len(closed) == 1)
    h.ensure("get_range:pos-unchanged", to_z3(f.fields["_pos"]) == pos.z)


# ---------------------------------------------------------------------------------- replay (RANGE)
def _replay_range(method):
    def gen(ob):
        m = ob.get("model") or {}
        return f'''
import io, sys
from datashard.storage_backend import S3RangeFile
from doubles.s3 import FakeS3
model = {m!r}
size = max(0, int(model.get("size", 0))); pos = max(0, int(model.get("pos", 0)))
content = bytes((i * 37 + 11) % 251 for i in range(size))
s3 = FakeS3(); s3.objects[("bkt", "k")] = content
f = S3RangeFile(s3, "bkt", "k", size); f._pos = pos
ref = io.BytesIO(content); ref.seek(pos)
bad = []
method = {method!r}
try:
    if method == "seek":
        off, wh = int(model.get("offset", 0)), int(model.get("whence", 0))
        try: exp = ("ok", ref.seek(off, wh))
        except (ValueError, OSError) as e: exp = ("raise", type(e).__name__)
        try: got = ("ok", f.seek(off, wh))
        except ValueError as e: got = ("raise", "ValueError")
        if exp[0] != got[0] or (exp[0] == "ok" and (exp[1] != got[1] or f.tell() != ref.tell())): bad.append((exp, got))
        if got[0] == "raise" and f.tell() != pos: bad.append(("pos moved on error", f.tell()))
    elif method == "readinto":
        want = max(0, int(model.get("want", 0)))
        b1, b2 = bytearray(want), bytearray(want)
        n1, n2 = f.readinto(b1), ref.readinto(b2)
        if n1 != n2 or b1[:n1] != b2[:n2] or f.tell() != ref.tell(): bad.append((n1, n2, f.tell(), ref.tell()))
    elif method == "readall":
        d1, d2 = f.readall(), ref.read()
        if d1 != d2 or f.tell() != ref.tell(): bad.append((len(d1), len(d2)))
    for (lo, hi) in s3.ranges:
        if not (0 <= lo <= hi <= size - 1): bad.append(("out-of-range request", lo, hi))
    if method in ("readinto", "readall") and len(s3.ranges) > 1: bad.append(("more than one request", s3.ranges))
except Exception as e:
    bad.append(("unexpected exception", repr(e)))
print("replay", method, "size", size, "pos", pos, "->", bad or "agrees with io.BytesIO")
sys.exit(1 if bad else 0)
'''
    return gen


for _n, _hf, _m in [("RANGE/seek", h_seek, "seek"), ("RANGE/seek-default", h_seek_default_whence, "seek"),
                    ("RANGE/tell-size", h_tell, "seek"), ("RANGE/readinto", h_readinto, "readinto"),
                    ("RANGE/readall", h_readall, "readall"), ("RANGE/_get_range", h_get_range, "readinto")]:
    register(Unit(P, _n, _hf, functions=[f"{SB}:S3RangeFile.{x}" for x in
                                         {"RANGE/seek": ["seek"], "RANGE/seek-default": ["seek"],
                                          "RANGE/tell-size": ["tell", "size"], "RANGE/readinto": ["readinto"],
                                          "RANGE/readall": ["readall"], "RANGE/_get_range": ["_get_range"]}[_n]],
                  replay=_replay_range(_m)))
