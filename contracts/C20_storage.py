"""C20 - both storage backends implement the same contract.

Obligation groups (DESIGN 4/C20):
  RANGE     S3RangeFile.seek/tell/readinto/readall/_get_range against the spec file model
            (size, pos, content): same bytes and positions as a local file, negative position is
            an error, only in-range bytes are requested, no request when nothing is to be read.
  RETRY     S3ConsistencyHandler.retry_with_backoff / is_permanent_s3_error / with_s3_retry:
            <= max_retries+1 attempts, result = the operation's result, permanent or
            non-retryable errors surface at once (same exception), exhaustion re-raises the last.
  KEY/LIST  (added below) _get_s3_key, list_files confinement, exists exactness.
"""
from __future__ import annotations

import z3

from pyvc import pyops
from pyvc.ctx import Unsupported
from pyvc.engine import LoopSpec, PyRaise
from pyvc.pyops import PyExc
from pyvc.runner import H, Unit, base_registry, register, set_registry_factory
from pyvc.values import (ClassVal, FuncVal, PDict, PList, SBool, SBytes, SExc, SInt, SObj, SOpt, SStr, TheoryObj,
                         to_z3)

P = "C20"
SB = "storage_backend"
S3C = "s3_consistency"

META = {
    "explanation": "Contracts on the real S3RangeFile / retry / key-mapping functions; VCs generated from "
                   "/repo's AST on every run and discharged by z3 (cvc5 for z3's unknowns).",
    "trusted": [
        "T-s3: get_object(Range='bytes=a-b') on an object of size n with 0<=a<=b<=n-1 returns exactly content[a:b+1]",
        "T-s3: strong read-after-write consistency (as the property states)",
        "with_s3_retry abstracted at its proved contract (RETRY group) when used by _get_range",
        "StoreInv-keys: every object below the table prefix was written through _get_s3_key, so its table-relative part has no leading '/'",
        "T-s3: list_objects_v2(Prefix=p) pages contain exactly the keys with raw string prefix p",
    ],
    "assumptions": ["buffer objects passed to readinto support len() and slice assignment (io.RawIOBase protocol)"],
}


# ---------------------------------------------------------------------------------------------
# theory objects used by these harnesses
def registry():
    reg = base_registry()
    reg.modfuncs["time.sleep"] = lambda I, a, k: None

    # writable buffer: len(b), b[:n] = data
    def buf_len(I, obj, a, k):
        return obj.fields["len"]

    def buf_setslice(I, obj, a, k):
        lo, hi, data = a
        obj.fields["writes"].append((lo, hi, data))
        return None

    reg.theory_methods[("buffer", "__len__")] = buf_len
    reg.theory_methods[("buffer", "__setslice__")] = buf_setslice
    return reg


set_registry_factory(P, registry)


def mk_rangefile(h: H):
    size, pos = h.int("size"), h.int("pos")
    h.assume(size.z >= 0)
    h.assume(pos.z >= 0)
    content = z3.String("content")
    h.report("content", content)
    h.assume(z3.Length(content) == size.z)
    f = h.obj("S3RangeFile", _s3=TheoryObj("s3client"), _bucket="bkt", _key=h.str("key"), _size=size, _pos=pos)
    return f, size, pos, content


# ---------------------------------------------------------------------------------- seek / tell
def h_seek(h: H):
    f, size, pos, _c = mk_rangefile(h)
    offset, whence = h.int("offset"), h.int("whence")
    out, val = h.run(f"{SB}:S3RangeFile.seek", [f, offset, whence])
    target = z3.If(whence.z == 0, offset.z, z3.If(whence.z == 1, pos.z + offset.z, size.z + offset.z))
    valid_whence = z3.Or(whence.z == 0, whence.z == 1, whence.z == 2)
    legal = z3.And(valid_whence, target >= 0)
    newpos = to_z3(f.fields["_pos"])
    if out == "ok":
        h.ensure("seek:returns-only-when-legal", legal)
        h.ensure("seek:result=target", to_z3(val) == target)
        h.ensure("seek:pos=target", newpos == target)
        h.cover("seek:ok-past-eof", target > size.z)
    else:
        h.ensure("seek:raises-only-when-illegal", z3.Not(legal))
        h.ensure("seek:raises-ValueError", val.cls == "ValueError")
        h.ensure("seek:pos-unchanged-on-error", newpos == pos.z)
        h.cover("seek:negative-target", z3.And(valid_whence, target < 0))
    for fld in ("_size", "_key", "_bucket"):
        h.ensure(f"seek:frame:{fld}", pyops.bool_z(pyops.py_eq(f.fields[fld], {"_size": size, "_key": f.fields["_key"], "_bucket": "bkt"}[fld])))


def h_seek_default_whence(h: H):
    f, size, pos, _c = mk_rangefile(h)
    offset = h.int("offset")
    out, val = h.run(f"{SB}:S3RangeFile.seek", [f, offset])
    if out == "ok":
        h.ensure("seek-default:absolute", z3.And(offset.z >= 0, to_z3(val) == offset.z, to_z3(f.fields["_pos"]) == offset.z))
    else:
        h.ensure("seek-default:neg-raises", z3.And(offset.z < 0, val.cls == "ValueError", to_z3(f.fields["_pos"]) == pos.z))


def h_tell(h: H):
    f, size, pos, _c = mk_rangefile(h)
    out, val = h.run(f"{SB}:S3RangeFile.tell", [f])
    h.ensure("tell:no-raise", out == "ok")
    h.ensure("tell:result=pos", to_z3(val) == pos.z)
    h.ensure("tell:pos-unchanged", to_z3(f.fields["_pos"]) == pos.z)
    out, val = h.run(f"{SB}:S3RangeFile.size", [f])
    h.ensure("size:result", z3.And(out == "ok", to_z3(val) == size.z))


# ---------------------------------------------------------------------------------- reads
def install_get_range_contract(h: H, f, size, content, requests):
    """Callee contract of S3RangeFile._get_range at its call sites (its own body is verified by h_get_range).
    requires 0 <= first <= last <= size-1   (only in-range bytes are requested)
    ensures  result == content[first : last+1]
    may raise (after retries) any S3/transport error -- with no effect on the file object."""
    ref = f"{SB}:S3RangeFile._get_range"

    def contract(I, fv, args, kwargs):
        _self, first, last = args
        fz, lz = pyops.int_z(first), pyops.int_z(last)
        h.ensure("get_range:pre:0<=first", fz >= 0)
        h.ensure("get_range:pre:first<=last", fz <= lz)
        h.ensure("get_range:pre:last<=size-1", lz <= size.z - 1)
        requests.append((fz, lz))
        if h.ctx.flip("get_range-fault"):
            raise PyRaise(SExc("ClientError", origin="T-s3 fault in _get_range"))
        return SBytes(z3.SubString(content, fz, lz - fz + 1))
    h.reg.contracts[ref] = contract


def h_readinto(h: H):
    f, size, pos, content = mk_rangefile(h)
    want = h.int("want")
    h.assume(want.z >= 0)
    buf = TheoryObj("buffer", fields={"len": want, "writes": []})
    requests = []
    install_get_range_contract(h, f, size, content, requests)
    out, val = h.run(f"{SB}:S3RangeFile.readinto", [f, buf])
    avail = z3.If(size.z - pos.z > 0, size.z - pos.z, z3.IntVal(0))
    n_spec = z3.If(want.z < avail, want.z, avail)
    newpos = to_z3(f.fields["_pos"])
    if out == "raise":
        # only a transport fault may surface, and then nothing moved
        h.ensure("readinto:raise-only-from-fault", z3.BoolVal(val.origin == "T-s3 fault in _get_range"))
        h.ensure("readinto:pos-unchanged-on-fault", newpos == pos.z)
        h.ensure("readinto:no-write-on-fault", len(buf.fields["writes"]) == 0)
        return
    n = to_z3(val)
    h.ensure("readinto:n=min(want,remaining)", n == n_spec)
    h.ensure("readinto:pos-advances-by-n", newpos == pos.z + n)
    h.ensure("readinto:requests<=1", len(requests) <= 1)
    if len(requests) == 0:
        h.ensure("readinto:no-request-only-when-nothing-to-read", n_spec == 0)
        h.ensure("readinto:no-write-when-nothing-read", len(buf.fields["writes"]) == 0)
        h.cover("readinto:eof", pos.z >= size.z)
    else:
        first, last = requests[0]
        h.ensure("readinto:request-when-something-to-read", n_spec > 0)
        h.ensure("readinto:first=pos", first == pos.z)
        h.ensure("readinto:range-length=n", last - first + 1 == n)
        ws = buf.fields["writes"]
        h.ensure("readinto:exactly-one-buffer-write", len(ws) == 1)
        if len(ws) == 1:
            lo, hi, data = ws[0]
            h.ensure("readinto:write-at-0", lo is None or (isinstance(lo, int) and lo == 0))
            h.ensure("readinto:write-extent=n", pyops.int_z(hi) == n)
            h.ensure("readinto:bytes=content[pos:pos+n]", pyops.str_z(data) == z3.SubString(content, pos.z, n))
        h.cover("readinto:short-read", z3.And(want.z > avail, avail > 0))
        h.cover("readinto:full-read", z3.And(want.z <= avail, want.z > 0))
    h.ensure("readinto:frame:size", to_z3(f.fields["_size"]) == size.z)


def h_readall(h: H):
    f, size, pos, content = mk_rangefile(h)
    requests = []
    install_get_range_contract(h, f, size, content, requests)
    out, val = h.run(f"{SB}:S3RangeFile.readall", [f])
    newpos = to_z3(f.fields["_pos"])
    if out == "raise":
        h.ensure("readall:raise-only-from-fault", z3.BoolVal(val.origin == "T-s3 fault in _get_range"))
        h.ensure("readall:pos-unchanged-on-fault", newpos == pos.z)
        return
    avail = z3.If(size.z - pos.z > 0, size.z - pos.z, z3.IntVal(0))
    h.ensure("readall:bytes=content[pos:]", pyops.str_z(val) == z3.SubString(content, pos.z, avail))
    h.ensure("readall:pos-advances", newpos == pos.z + avail)
    h.ensure("readall:requests<=1", len(requests) <= 1)
    if len(requests) == 0:
        h.ensure("readall:no-request-only-at-eof", pos.z >= size.z)
    else:
        first, last = requests[0]
        h.ensure("readall:first=pos", first == pos.z)
        h.ensure("readall:last=size-1", last == size.z - 1)
        h.cover("readall:nonempty", avail > 0)
    h.ensure("readall:frame:size", to_z3(f.fields["_size"]) == size.z)


def h_get_range(h: H):
    """S3RangeFile._get_range against T-s3: one GET with Range 'bytes=<first>-<last>' on (bucket,key),
    body fully read and closed; result = the body; wrapped in with_s3_retry (applied at its contract)."""
    f, size, pos, content = mk_rangefile(h)
    first, last = h.int("first"), h.int("last")
    h.assume(z3.And(0 <= first.z, first.z <= last.z, last.z <= size.z - 1))
    gets = []
    closed = []

    def get_object(I, obj, a, k):
        gets.append(dict(k))
        if h.ctx.flip("get_object-fault"):
            raise PyRaise(SExc("ClientError", origin="T-s3 get_object fault"))
        body = TheoryObj("s3body", fields={"data": SBytes(z3.SubString(content, first.z, last.z - first.z + 1))})
        return PDict({"Body": body})

    def body_read(I, obj, a, k):
        if h.ctx.flip("body-read-fault"):
            raise PyRaise(SExc("OSError", origin="T-s3 body.read fault"))
        return obj.fields["data"]

    def body_close(I, obj, a, k):
        closed.append(obj)
        return None

    h.reg.theory_methods[("s3client", "get_object")] = get_object
    h.reg.theory_methods[("s3body", "read")] = body_read
    h.reg.theory_methods[("s3body", "close")] = body_close

    calls = []

    def with_s3_retry(I, fv, args, kwargs):
        # contract (proved in the RETRY group): the result is the result of the last invocation of `operation`
        op = args[0]
        calls.append(op)
        return I.call(op, [], {})
    h.reg.contracts[f"{S3C}:with_s3_retry"] = with_s3_retry
    out, val = h.run(f"{SB}:S3RangeFile._get_range", [f, first, last])
    h.ensure("get_range:goes-through-retry-wrapper", len(calls) == 1)
    h.ensure("get_range:one-GET-per-attempt", len(gets) == 1)
    if gets:
        g = gets[0]
        h.ensure("get_range:bucket", pyops.bool_z(pyops.py_eq(g.get("Bucket"), "bkt")))
        h.ensure("get_range:key", pyops.bool_z(pyops.py_eq(g.get("Key"), f.fields["_key"])))
        want_hdr = z3.Concat(z3.StringVal("bytes="), pyops.int_to_str_z(first.z), z3.StringVal("-"), pyops.int_to_str_z(last.z))
        h.ensure("get_range:Range-header", pyops.bool_z(pyops.py_eq(g.get("Range"), SStr(want_hdr))))
    if out == "ok":
        h.ensure("get_range:result=body", pyops.str_z(val) == z3.SubString(content, first.z, last.z - first.z + 1))
        h.ensure("get_range:body-closed", len(closed) == 1)
    else:
        h.ensure("get_range:raise-only-from-fault", z3.BoolVal(str(val.origin).startswith("T-s3")))
        if val.origin == "T-s3 body.read fault":
            h.ensure("get_range:body-closed-on-read-fault", len(closed) == 1)
    h.ensure("get_range:pos-unchanged", to_z3(f.fields["_pos"]) == pos.z)


# ---------------------------------------------------------------------------------- replay (RANGE)
def _replay_range(method):
    def gen(ob):
        m = ob.get("model") or {}
        return f'''
import io, sys
from datashard.storage_backend import S3RangeFile
from doubles.s3 import FakeS3
model = {m!r}
size = max(0, int(model.get("size", 0))); pos = max(0, int(model.get("pos", 0)))
content = bytes((i * 37 + 11) % 251 for i in range(size))
s3 = FakeS3(); s3.objects[("bkt", "k")] = content
f = S3RangeFile(s3, "bkt", "k", size); f._pos = pos
import tempfile, os
_tf = tempfile.NamedTemporaryFile(delete=False); _tf.write(content); _tf.close()
ref = open(_tf.name, "rb", buffering=0); ref.seek(pos)   # a real local file: negative resulting positions are errors
bad = []
method = {method!r}
try:
    if method == "seek":
        off, wh = int(model.get("offset", 0)), int(model.get("whence", 0))
        try: exp = ("ok", ref.seek(off, wh))
        except (ValueError, OSError) as e: exp = ("raise", type(e).__name__)
        try: got = ("ok", f.seek(off, wh))
        except ValueError as e: got = ("raise", "ValueError")
        if exp[0] != got[0] or (exp[0] == "ok" and (exp[1] != got[1] or f.tell() != ref.tell())): bad.append((exp, got))
        if got[0] == "raise" and f.tell() != pos: bad.append(("pos moved on error", f.tell()))
    elif method == "readinto":
        want = max(0, int(model.get("want", 0)))
        b1, b2 = bytearray(want), bytearray(want)
        n1, n2 = f.readinto(b1), ref.readinto(b2)
        if n1 != n2 or b1[:n1] != b2[:n2] or f.tell() != ref.tell(): bad.append((n1, n2, f.tell(), ref.tell()))
    elif method == "readall":
        d1, d2 = f.readall(), ref.read()
        if d1 != d2 or f.tell() != ref.tell(): bad.append((len(d1), len(d2)))
    elif method == "_get_range":
        size = max(size, 1); content = bytes((i * 37 + 11) % 251 for i in range(size)); s3.objects[("bkt", "k")] = content
        first = min(max(0, int(model.get("first", 0))), size - 1); last = min(max(first, int(model.get("last", first))), size - 1)
        d = f._get_range(first, last)
        if d != content[first:last + 1] or s3.ranges != [(first, last)]: bad.append(("range", first, last, s3.ranges, len(d)))
    for (lo, hi) in s3.ranges:
        if not (0 <= lo <= hi <= size - 1): bad.append(("out-of-range request", lo, hi))
    if method in ("readinto", "readall") and len(s3.ranges) > 1: bad.append(("more than one request", s3.ranges))
except Exception as e:
    bad.append(("unexpected exception", repr(e)))
ref.close(); os.remove(_tf.name)
print("replay", method, "size", size, "pos", pos, "->", bad or "agrees with a local file")
sys.exit(1 if bad else 0)
'''
    return gen


for _n, _hf, _m in [("RANGE/seek", h_seek, "seek"), ("RANGE/seek-default", h_seek_default_whence, "seek"),
                    ("RANGE/tell-size", h_tell, "seek"), ("RANGE/readinto", h_readinto, "readinto"),
                    ("RANGE/readall", h_readall, "readall"), ("RANGE/_get_range", h_get_range, "_get_range")]:
    register(Unit(P, _n, _hf, functions=[f"{SB}:S3RangeFile.{x}" for x in
                                         {"RANGE/seek": ["seek"], "RANGE/seek-default": ["seek"],
                                          "RANGE/tell-size": ["tell", "size"], "RANGE/readinto": ["readinto"],
                                          "RANGE/readall": ["readall"], "RANGE/_get_range": ["_get_range"]}[_n]],
                  replay=_replay_range(_m)))


# =================================================================================== RETRY
PERMANENT_SPEC = frozenset({
    # spec table (written from the property statement: credentials / permissions / missing bucket /
    # redirects can never succeed on retry); 404/NoSuchKey deliberately absent
    "AccessDenied", "AllAccessDisabled", "AccountProblem", "AuthorizationHeaderMalformed", "InvalidAccessKeyId",
    "InvalidBucketName", "InvalidObjectState", "InvalidToken", "NoSuchBucket", "PermanentRedirect",
    "SignatureDoesNotMatch", "TokenRefreshRequired", "UnauthorizedAccess", "403", "401",
})
TRANSIENT_SAMPLES = ["404", "NoSuchKey", "SlowDown", "InternalError", "RequestTimeout", "503", "500", "", "ServiceUnavailable"]


def h_is_permanent(h: H):
    code = h.str("code")
    exc = SExc("ClientError", fields={"response": PDict({"Error": PDict({"Code": code}), "ResponseMetadata": PDict({})})})
    out, val = h.run(f"{S3C}:is_permanent_s3_error", [exc])
    h.ensure("perm:no-raise", out == "ok")
    spec = z3.Or(*[code.z == z3.StringVal(c) for c in sorted(PERMANENT_SPEC)])
    h.ensure("perm:result<=>code-in-table", pyops.bool_z(pyops.truth(val)) == spec)
    h.cover("perm:true", spec)
    h.cover("perm:false", z3.Not(spec))


def h_is_permanent_shapes(h: H):
    """exceptions without a dict `response`, or without Error/Code, are not permanent (and do not raise)."""
    k = h.ctx.choose(4, "shape")
    if k == 0:
        exc = SExc("OSError")
    elif k == 1:
        exc = SExc("ClientError", fields={"response": "not-a-dict"})
    elif k == 2:
        exc = SExc("ClientError", fields={"response": PDict({})})
    else:
        exc = SExc("ClientError", fields={"response": PDict({"Error": PDict({})})})
    out, val = h.run(f"{S3C}:is_permanent_s3_error", [exc])
    h.ensure(f"perm-shape{k}:false-no-raise", out == "ok" and val is False)


RETRYABLE = (ClassVal("ClientError", builtin_exc=True), ClassVal("BotoCoreError", builtin_exc=True),
             ClassVal("OSError", builtin_exc=True), ClassVal("OSError", builtin_exc=True))
OUTCOMES = ["return", "ClientError", "BotoCoreError", "OSError", "FileNotFoundError", "ValueError", "KeyboardInterrupt",
            "OtherException"]
RETRYABLE_CLS = {"ClientError", "BotoCoreError", "OSError", "FileNotFoundError"}


def retry_env(h: H, with_expected: bool):
    mr = h.int("max_retries")
    h.assume(mr.z >= 0)
    handler = h.obj("S3ConsistencyHandler", max_retries=mr, initial_delay=h.float("initial_delay"),
                    max_delay=h.float("max_delay"), backoff_factor=h.float("backoff_factor"),
                    retryable_exceptions=RETRYABLE)
    g = {"calls": z3.IntVal(0), "stop_seen": z3.BoolVal(False), "last_exc": None, "last_val": None,
         "last_transient": False, "call_after_stop": False}
    h.ctx.ghost["retry"] = g

    def op_call(I, obj, a, k):
        # a permanent / non-retryable / asynchronous error must be the last attempt
        h.ensure("retry:no-attempt-after-permanent-or-nonretryable-error", z3.Not(g["stop_seen"]))
        h.ensure("retry:attempts<=max_retries+1", g["calls"] + 1 <= mr.z + 1)
        g["calls"] = g["calls"] + 1
        o = OUTCOMES[h.ctx.choose(len(OUTCOMES), "op-outcome")]
        if o == "return":
            v = SInt(h.ctx.fresh_int("opval"))
            g["last_val"] = v
            g["last_exc"] = None
            return v
        perm = h.ctx.fresh_bool("perm") if o in RETRYABLE_CLS else z3.BoolVal(False)
        exc = SExc(o, fields={"perm": perm}, origin="operation()")
        g["last_exc"] = exc
        g["last_val"] = None
        stops = z3.BoolVal(True) if o not in RETRYABLE_CLS else perm
        g["stop_seen"] = z3.Or(g["stop_seen"], stops)
        g["last_transient"] = z3.Not(stops)
        raise PyRaise(exc)

    h.reg.theory_methods[("opfn", "__call__")] = op_call

    def is_perm(I, fv, args, kwargs):  # contract of is_permanent_s3_error, proved by h_is_permanent
        e = args[0]
        return SBool(e.fields.get("perm", z3.BoolVal(False)))
    h.reg.contracts[f"{S3C}:is_permanent_s3_error"] = is_perm

    def inv(I, env, it):
        return [("calls=attempt", g["calls"] == it["i"]),
                ("attempt<=max_retries", it["i"] <= mr.z),
                ("no-stop-error-pending", z3.Not(g["stop_seen"]))]

    def havoc(I, env, it):
        g["calls"] = I.ctx.fresh_int("calls")
        g["stop_seen"] = I.ctx.fresh_bool("stop_seen")
        g["last_exc"] = None
        g["last_val"] = None
        if "last_exception" in env.vars:
            env.vars["last_exception"] = SOpt(I.ctx.fresh_bool("le_none"), SExc("OSError", origin="havoc"))

    h.reg.loops[f"{S3C}:S3ConsistencyHandler.retry_with_backoff"] = {
        0: LoopSpec(invariant=inv, havoc=havoc, name="attempts", skip=["last_exception", "e", "result"])}
    return handler, mr, g


def h_retry(h: H):
    handler, mr, g = retry_env(h, False)
    op = TheoryObj("opfn")
    out, val = h.run(f"{S3C}:S3ConsistencyHandler.retry_with_backoff", [handler, op, "S3 op"])
    if out == "ok":
        h.ensure("retry:result-is-last-operation-result", val is g["last_val"] and val is not None)
        h.ensure("retry:ok:attempts<=max_retries+1", g["calls"] <= mr.z + 1)
        h.cover("retry:ok-after-retries", g["calls"] > 1)
    else:
        h.ensure("retry:raises-the-operation's-own-exception", val is g["last_exc"])
        if val is g["last_exc"]:
            # transient errors inside the budget are masked: one surfaces only on exhaustion
            h.ensure("retry:transient-surfaces-only-when-exhausted",
                     z3.Implies(pyops.bool_z(g["last_transient"]), g["calls"] == mr.z + 1))
            h.cover("retry:exhausted", z3.And(pyops.bool_z(g["last_transient"]), g["calls"] == mr.z + 1))
            h.cover("retry:permanent", z3.Not(pyops.bool_z(g["last_transient"])))


def h_retry_expected(h: H):
    """expected_value given: still bounded attempts, still the operation's own results/exceptions."""
    handler, mr, g = retry_env(h, True)
    op = TheoryObj("opfn")
    exp = h.int("expected")
    out, val = h.run(f"{S3C}:S3ConsistencyHandler.retry_with_backoff", [handler, op, "S3 op", exp])
    if out == "ok":
        h.ensure("retry-exp:result-is-last-operation-result", val is g["last_val"] and val is not None)
        h.ensure("retry-exp:unexpected-value-only-when-exhausted",
                 z3.Implies(to_z3(val) != exp.z, g["calls"] == mr.z + 1))
    else:
        h.ensure("retry-exp:raises-the-operation's-own-exception", val is g["last_exc"])


def h_with_s3_retry(h: H):
    """with_s3_retry(op, name) = default_handler.retry_with_backoff(op, name) with the library defaults."""
    seen = []
    h.reg.inline.add(f"{S3C}:S3ConsistencyHandler.__init__")
    ret = SInt(h.ctx.fresh_int("r"))

    def rwb(I, fv, args, kwargs):
        seen.append((args, kwargs))
        if h.ctx.flip("rwb-raises"):
            raise PyRaise(SExc("OSError", origin="retry_with_backoff"))
        return ret
    h.reg.contracts[f"{S3C}:S3ConsistencyHandler.retry_with_backoff"] = rwb
    op = TheoryObj("opfn")
    out, val = h.run(f"{S3C}:with_s3_retry", [op, "name"])
    h.ensure("with_s3_retry:delegates-once", len(seen) == 1)
    if seen:
        args, kwargs = seen[0]
        hd = args[0]
        h.ensure("with_s3_retry:passes-operation", args[1] is op)
        h.ensure("with_s3_retry:no-expected-value", len(args) <= 3 and "expected_value" not in kwargs)
        h.ensure("with_s3_retry:budget=5-retries", pyops.bool_z(pyops.py_eq(hd.fields["max_retries"], 5)))
        rx = hd.fields["retryable_exceptions"]
        names = {c.name for c in rx} if isinstance(rx, tuple) else set()
        h.ensure("with_s3_retry:retryable-classes", names == {"ClientError", "BotoCoreError", "OSError"})
    if out == "ok":
        h.ensure("with_s3_retry:returns-result", val is ret)
    else:
        h.ensure("with_s3_retry:propagates", val.origin == "retry_with_backoff")


def _replay_retry(ob):
    m = ob.get("model") or {}
    return f'''
import sys
from botocore.exceptions import ClientError
from datashard.s3_consistency import S3ConsistencyHandler, is_permanent_s3_error, PERMANENT_S3_ERROR_CODES
model = {m!r}
SPEC = {sorted(PERMANENT_SPEC)!r}
TRANSIENT = {TRANSIENT_SAMPLES!r}
bad = []
def ce(code): return ClientError({{"Error": {{"Code": code}}}}, "Op")
for c in SPEC:
    if not is_permanent_s3_error(ce(c)): bad.append(("should be permanent", c))
for c in TRANSIENT + [str(model.get("code", "x"))]:
    if c not in SPEC and is_permanent_s3_error(ce(c)): bad.append(("should not be permanent", c))
for mr in sorted({{0, 1, 2, 5, max(0, min(8, int(model.get("max_retries", 3))))}}):
    h = S3ConsistencyHandler(max_retries=mr, initial_delay=0.0, max_delay=0.0)
    # transient errors then success
    for fails in range(0, mr + 2):
        calls = []
        def op():
            calls.append(1)
            if len(calls) <= fails: raise ce("SlowDown")
            return ("v", len(calls))
        try: r = ("ok", h.retry_with_backoff(op, "t"))
        except ClientError as e: r = ("raise", e)
        if fails <= mr and r != ("ok", ("v", fails + 1)): bad.append(("masked transient", mr, fails, r, len(calls)))
        if fails > mr and (r[0] != "raise" or len(calls) != mr + 1): bad.append(("exhaustion", mr, fails, r[0], len(calls)))
    for exc in (ce("AccessDenied"), ValueError("x"), KeyboardInterrupt()):
        calls = []
        def op2():
            calls.append(1); raise exc
        try: h.retry_with_backoff(op2, "t"); bad.append(("swallowed", exc))
        except BaseException as e:
            if e is not exc or len(calls) != 1: bad.append(("permanent/non-retryable retried or replaced", repr(exc), len(calls)))
print("replay retry ->", bad or "ok")
sys.exit(1 if bad else 0)
'''


for _n, _hf, _fs in [("RETRY/is_permanent", h_is_permanent, ["is_permanent_s3_error"]),
                     ("RETRY/is_permanent-shapes", h_is_permanent_shapes, ["is_permanent_s3_error"]),
                     ("RETRY/retry_with_backoff", h_retry, ["S3ConsistencyHandler.retry_with_backoff"]),
                     ("RETRY/retry_with_backoff-expected", h_retry_expected, ["S3ConsistencyHandler.retry_with_backoff"]),
                     ("RETRY/with_s3_retry", h_with_s3_retry, ["with_s3_retry", "S3ConsistencyHandler.__init__"])]:
    register(Unit(P, _n, _hf, functions=[f"{S3C}:{x}" for x in _fs], replay=_replay_retry))


# =================================================================================== KEY-MAP / CONFINED / EXISTS / SAME-SPEC
from pyvc import acc as _acc  # noqa: E402

SLASHES = z3.Star(z3.Re("/"))


def mk_backend(h: H, nonempty_prefix: bool):
    """S3StorageBackend object. Class invariant (established by __init__, unit KEY/init): prefix has no trailing '/'."""
    if nonempty_prefix:
        prefix = h.str("s3prefix")
        h.assume(z3.Length(prefix.z) > 0)
        h.assume(z3.Not(z3.SuffixOf(z3.StringVal("/"), prefix.z)))
    else:
        prefix = ""
    be = h.obj("S3StorageBackend", s3=TheoryObj("s3client"), bucket="bkt", prefix=prefix, use_conditional_writes=True)
    return be, prefix


def key_spec_holds(prefix, path_z, key_z):
    """KEY-MAP: key = prefix '/' rel  (or rel when no prefix) where path = '/'* ++ rel and rel has no leading '/'."""
    if isinstance(prefix, str) and prefix == "":
        off = z3.IntVal(0)
        head_ok = z3.BoolVal(True)
    else:
        pz = pyops.str_z(prefix)
        off = z3.Length(pz) + 1
        head_ok = z3.PrefixOf(z3.Concat(pz, z3.StringVal("/")), key_z)
    rel = z3.SubString(key_z, off, z3.Length(key_z) - off)
    pre = z3.SubString(path_z, 0, z3.Length(path_z) - z3.Length(rel))
    return z3.And(head_ok, path_z == z3.Concat(pre, rel), z3.InRe(pre, SLASHES),
                  z3.Not(z3.PrefixOf(z3.StringVal("/"), rel))), rel


def h_get_s3_key(nonempty):
    def harness(h: H):
        be, prefix = mk_backend(h, nonempty)
        path = h.str("path")
        out, val = h.run(f"{SB}:S3StorageBackend._get_s3_key", [be, path])
        h.ensure("key:no-raise", out == "ok")
        ok, _rel = key_spec_holds(prefix, path.z, pyops.str_z(val))
        h.ensure("key:key=prefix/rel(path)", ok)
        # injectivity on table-relative names: two names without leading '/' mapping to one key are equal
        path2 = h.str("path2")
        out2, val2 = h.run(f"{SB}:S3StorageBackend._get_s3_key", [be, path2])
        h.ensure("key:injective-on-relative-names",
                 z3.Implies(z3.And(z3.Not(z3.PrefixOf(z3.StringVal("/"), path.z)),
                                   z3.Not(z3.PrefixOf(z3.StringVal("/"), path2.z)),
                                   pyops.str_z(val) == pyops.str_z(val2)), path.z == path2.z))
    return harness


def install_key_contract(h: H, prefix):
    """callee contract of _get_s3_key (proved by KEY/_get_s3_key-*): result satisfies KEY-MAP."""
    def contract(I, fv, args, kwargs):
        _self, path = args
        key = I.ctx.fresh_str("key")
        ok, _rel = key_spec_holds(prefix, pyops.str_z(path), key)
        I.ctx.assume(ok)
        return pyops.mk_str(key)
    h.reg.contracts[f"{SB}:S3StorageBackend._get_s3_key"] = contract


_MUT = {"append", "add", "extend", "update", "insert", "pop", "remove", "discard", "clear", "setdefault", "sort"}


def retry_frame_violations(op):
    """RETRY-FRAME: an operation handed to the retry wrapper may be invoked several times; its frame must be its own locals
    (plus S3 requests). Returns the enclosing-scope names it mutates (syntactic: nonlocal/global, mutator calls and
    subscript stores on names that are not local to the operation)."""
    import ast as _ast
    node = getattr(op, "node", None)
    if node is None or isinstance(node, _ast.Lambda):
        return []
    local = {a.arg for a in node.args.posonlyargs + node.args.args + node.args.kwonlyargs}
    for sub in _ast.walk(node):
        if isinstance(sub, _ast.Name) and isinstance(sub.ctx, _ast.Store):
            local.add(sub.id)
        elif isinstance(sub, _ast.ExceptHandler) and sub.name:
            local.add(sub.name)
    bad = []
    for sub in _ast.walk(node):
        if isinstance(sub, (_ast.Nonlocal, _ast.Global)):
            bad.extend(sub.names)
        elif isinstance(sub, _ast.Call) and isinstance(sub.func, _ast.Attribute) and sub.func.attr in _MUT \
                and isinstance(sub.func.value, _ast.Name) and sub.func.value.id not in local:
            bad.append(sub.func.value.id)
        elif isinstance(sub, _ast.Subscript) and isinstance(sub.ctx, (_ast.Store, _ast.Del)) and isinstance(sub.value, _ast.Name) \
                and sub.value.id not in local:
            bad.append(sub.value.id)
        elif isinstance(sub, _ast.Attribute) and isinstance(sub.ctx, _ast.Store) and isinstance(sub.value, _ast.Name) \
                and sub.value.id not in local:
            bad.append(f"{sub.value.id}.{sub.attr}")
    return sorted(set(bad))


def install_retry_contract(h: H, calls=None):
    def with_s3_retry(I, fv, args, kwargs):
        if calls is not None:
            calls.append(args[0])
        viol = retry_frame_violations(args[0])
        h.ensure("RETRY-FRAME:retried-operation-mutates-only-its-own-locals", len(viol) == 0,
                 detail=f"mutated enclosing names: {viol}" if viol else "")
        return I.call(args[0], [], {})
    h.reg.contracts[f"{S3C}:with_s3_retry"] = with_s3_retry


def under(d_z, r_z):
    """component-wise confinement: r is d itself or lies below directory d ('' = table root)."""
    return z3.Or(d_z == z3.StringVal(""), r_z == d_z, z3.PrefixOf(z3.Concat(d_z, z3.StringVal("/")), r_z))


def h_list_files(nonempty):
    def harness(h: H):
        _acc.install(h.reg)
        be, prefix = mk_backend(h, nonempty)
        d = h.str("dir")
        # directory names used by the library: relative, no leading or trailing '/'
        h.assume(z3.Not(z3.PrefixOf(z3.StringVal("/"), d.z)))
        h.assume(z3.Not(z3.SuffixOf(z3.StringVal("/"), d.z)))
        install_key_contract(h, prefix)
        install_retry_contract(h)
        listed = {}
        pag_calls = []

        def get_paginator(I, obj, a, k):
            return TheoryObj("paginator")

        def paginate(I, obj, a, k):
            pag_calls.append(dict(k))
            raw = pyops.str_z(k["Prefix"])

            def mk_obj(I2):
                key = I2.ctx.fresh_str("listed_key")
                I2.ctx.assume(z3.PrefixOf(raw, key))  # T-s3: list_objects_v2 returns exactly the keys with this raw prefix
                # StoreInv-keys: objects below the table prefix were written through _get_s3_key (KEY-MAP), so the
                # table-relative part of a key never starts with '/'
                if isinstance(prefix, str):
                    I2.ctx.assume(z3.Not(z3.PrefixOf(z3.StringVal("/"), key)), "StoreInv-keys")
                else:
                    pz = z3.Concat(prefix.z, z3.StringVal("/"))
                    I2.ctx.assume(z3.Not(z3.PrefixOf(z3.Concat(pz, z3.StringVal("/")), key)), "StoreInv-keys")
                I2.ctx.inputs["listed_key"] = key
                listed["key"] = key
                return PDict({"Key": pyops.mk_str(key), "Size": SInt(I2.ctx.fresh_int("sz"))})

            def mk_page(I2):
                has = I2.ctx.flip("page-has-contents")
                return TheoryObj("s3page", fields={"has": has, "contents": TheoryObj("symiter", fields={"mk": mk_obj})})
            return TheoryObj("symiter", fields={"mk": mk_page})

        def page_contains(I, obj, a, k):
            return a[0] == "Contents" and obj.fields["has"]

        def page_getitem(I, obj, a, k):
            if a[0] != "Contents" or not obj.fields["has"]:
                raise PyExc("KeyError")
            return obj.fields["contents"]

        h.reg.theory_methods[("s3client", "get_paginator")] = get_paginator
        h.reg.theory_methods[("paginator", "paginate")] = paginate
        h.reg.theory_methods[("s3page", "get")] = lambda I, obj, a, k: (obj.fields["contents"] if (a[0] == "Contents" and obj.fields["has"])
                                                                       else (a[1] if len(a) > 1 else None))
        h.reg.theory_methods[("s3page", "__contains__")] = page_contains
        h.reg.theory_methods[("s3page", "__getitem__")] = page_getitem

        dz = d.z

        def on_add(I, x):
            xz = pyops.str_z(x)
            key = listed.get("key")
            h.ensure("list:CONFINED(result-under-named-directory)", under(dz, xz),
                     classes=[("raw-key-prefix-sibling", z3.And(z3.PrefixOf(dz, xz), z3.Not(under(dz, xz))))])
            ok, rel = key_spec_holds(prefix, xz, key) if key is not None else (z3.BoolVal(False), None)
            h.ensure("list:KEY-INVERSE(result-maps-back-to-listed-key)", ok)
            h.ensure("list:table-relative(no-leading-slash)", z3.Not(z3.PrefixOf(z3.StringVal("/"), xz)))

        result_acc = _acc.new_acc("result", on_add=on_add)

        def havoc(I, env, it):
            env.vars["result"] = result_acc
            _acc.reset(result_acc)

        def inv_outer(I, env, it):
            return []

        def inv_inner(I, env, it):
            if it.get("after_body"):
                return [("each-listed-key-returned-exactly-once", z3.BoolVal(len(result_acc.fields["added"]) == 1))]
            return []

        def havoc_inner(I, env, it):
            env.vars["result"] = result_acc
            _acc.reset(result_acc)

        ref = f"{SB}:S3StorageBackend.list_files.<locals>.list_op"
        h.reg.loops[ref] = {0: LoopSpec(invariant=inv_outer, havoc=havoc, name="pages", skip=["result", "rel_path", "key"]),
                            1: LoopSpec(invariant=inv_inner, havoc=havoc_inner, name="objects", skip=["result", "rel_path", "key"])}
        out, val = h.run(f"{SB}:S3StorageBackend.list_files", [be, d])
        h.ensure("list:no-raise-without-fault", out == "ok")
        h.ensure("list:returns-the-accumulated-list", val is result_acc or (isinstance(val, PList) and len(val.items) == 0))
        if pag_calls:
            h.ensure("list:bucket", pyops.bool_z(pyops.py_eq(pag_calls[0].get("Bucket"), "bkt")))
    return harness


def _replay_list(ob):
    return '''
import sys
from doubles.s3 import FakeS3
from datashard.storage_backend import S3StorageBackend, LocalStorageBackend
import datashard.storage_backend as sb, tempfile, os, shutil
bad = []
for prefix in ("", "wh/t1", "data", "metadata", "t"):      # prefixes that occur again inside the relative names
    be = S3StorageBackend.__new__(S3StorageBackend)
    be.bucket, be.prefix, be.s3, be.use_conditional_writes = "bkt", prefix, FakeS3(), True
    names = ["data/a.parquet", "data/sub/b.parquet", "data_old/c.parquet", "database/d", "metadata/v1.metadata.json",
             "metadata/manifests/m1.avro", "metadata_bak/x"]
    root = tempfile.mkdtemp(prefix="pyvc_replay_")
    try:
        local = LocalStorageBackend(root)
        for n in names:
            be.s3.objects[("bkt", (prefix + "/" if prefix else "") + n)] = b"x"
            local.write_file(n, b"x")
        for d in ("data", "metadata", "metadata/manifests"):
            got, exp = sorted(be.list_files(d)), sorted(local.list_files(d))
            if got != exp:
                bad.append((prefix, d, "s3", got, "local", exp))
    finally:
        shutil.rmtree(root, ignore_errors=True)
print("replay list_files ->", bad or "s3 listing == local listing")
sys.exit(1 if bad else 0)
'''


for _ne in (True, False):
    _t = "prefix" if _ne else "noprefix"
    register(Unit(P, f"KEY/_get_s3_key-{_t}", h_get_s3_key(_ne), functions=[f"{SB}:S3StorageBackend._get_s3_key"]))
    register(Unit(P, f"LIST/list_files-{_t}", h_list_files(_ne), functions=[f"{SB}:S3StorageBackend.list_files",
                                                                           f"{SB}:S3StorageBackend.list_files.<locals>.list_op"],
                  replay=_replay_list))


# ----------------------------------------------------------------------------------- exists / read / head / put / delete
def s3_world(h: H, key_of_interest=None):
    """T-s3 object store, strongly consistent: ghost maps exists / content / size / etag / mtime per key.
    Every request may instead fail with a ClientError whose code is not the not-found code (fault edge)."""
    c = h.ctx
    w = {
        "exists": z3.Function("s3.exists", z3.StringSort(), z3.BoolSort()),
        "content": z3.Function("s3.content", z3.StringSort(), z3.StringSort()),
        "etag": z3.Function("s3.etag", z3.StringSort(), z3.StringSort()),
        "mtime": z3.Function("s3.mtime", z3.StringSort(), z3.RealSort()),
        "under": z3.Function("s3.some_key_under", z3.StringSort(), z3.BoolSort()),
        "log": [],
    }

    def fault(op, notfound_code):
        code = c.fresh_str("errcode")
        for nf in ([notfound_code] if isinstance(notfound_code, str) else notfound_code):
            c.assume(code != z3.StringVal(nf))
        return SExc("ClientError", origin=f"T-s3 fault in {op}",
                    fields={"response": PDict({"Error": PDict({"Code": SStr(code)})}), "fault": True})

    def notfound(op, code):
        return SExc("ClientError", origin=f"T-s3 {op}: not found",
                    fields={"response": PDict({"Error": PDict({"Code": code})}), "fault": False})

    def get_object(I, obj, a, k):
        key = pyops.str_z(k["Key"])
        w["log"].append(("get_object", key, dict(k)))
        if c.flip("get-fault"):
            raise PyRaise(fault("get_object", "NoSuchKey"))
        if not c.decide(w["exists"](key), "get-exists"):
            raise PyRaise(notfound("get_object", "NoSuchKey"))
        body = TheoryObj("s3body", fields={"data": SBytes(w["content"](key))})
        return TheoryObj("s3resp", fields={"d": {"Body": body, "ETag": SStr(w["etag"](key)),
                                                  "ContentLength": SInt(z3.Length(w["content"](key)))}})

    def head_object(I, obj, a, k):
        key = pyops.str_z(k["Key"])
        w["log"].append(("head_object", key, dict(k)))
        if c.flip("head-fault"):
            raise PyRaise(fault("head_object", "404"))
        if not c.decide(w["exists"](key), "head-exists"):
            raise PyRaise(notfound("head_object", "404"))
        lm = TheoryObj("s3time", fields={"t": w["mtime"](key)})
        return TheoryObj("s3resp", fields={"d": {"ContentLength": SInt(z3.Length(w["content"](key))),
                                                  "ETag": SStr(w["etag"](key)), "LastModified": lm}})

    def list_objects_v2(I, obj, a, k):
        pre = pyops.str_z(k["Prefix"])
        w["log"].append(("list_objects_v2", pre, dict(k)))
        if c.flip("list-fault"):
            raise PyRaise(fault("list_objects_v2", "404"))
        if c.decide(w["under"](pre), "list-nonempty"):
            return TheoryObj("s3resp", fields={"d": {"Contents": PList([PDict({"Key": SStr(c.fresh_str("k"))})]), "KeyCount": 1}})
        if c.flip("list-empty-shape"):
            return TheoryObj("s3resp", fields={"d": {"KeyCount": 0}})
        return TheoryObj("s3resp", fields={"d": {"Contents": PList([]), "KeyCount": 0}})

    def put_object(I, obj, a, k):
        key = pyops.str_z(k["Key"])
        w["log"].append(("put_object", key, dict(k)))
        if c.flip("put-fault"):
            raise PyRaise(fault("put_object", ["PreconditionFailed", "412", "ConditionalRequestConflict"]))
        if "IfNoneMatch" in k or "IfMatch" in k:
            okc = w["exists"](key) == z3.BoolVal(False) if "IfNoneMatch" in k else \
                z3.And(w["exists"](key), w["etag"](key) == pyops.str_z(k["IfMatch"]))
            if not c.decide(okc, "put-precondition"):
                code = ["PreconditionFailed", "412", "ConditionalRequestConflict"][c.choose(3, "cas-code")]
                raise PyRaise(notfound("put_object(precondition)", code))
        w["log"].append(("PUT-LANDED", key, dict(k)))
        return TheoryObj("s3resp", fields={"d": {"ETag": SStr(c.fresh_str("newetag"))}})

    def delete_object(I, obj, a, k):
        key = pyops.str_z(k["Key"])
        w["log"].append(("delete_object", key, dict(k)))
        if c.flip("delete-fault"):
            raise PyRaise(fault("delete_object", "-"))
        return TheoryObj("s3resp", fields={"d": {}})

    def resp_getitem(I, obj, a, k):
        if a[0] not in obj.fields["d"]:
            raise PyExc("KeyError")
        return obj.fields["d"][a[0]]

    def resp_get(I, obj, a, k):
        return obj.fields["d"].get(a[0], a[1] if len(a) > 1 else None)

    def resp_contains(I, obj, a, k):
        return a[0] in obj.fields["d"]

    def body_read(I, obj, a, k):
        return obj.fields["data"]

    def body_close(I, obj, a, k):
        return None

    def time_timestamp(I, obj, a, k):
        from pyvc.values import SFloat
        f = c.fresh("ts", z3.Float64())
        c.assume(z3.Not(z3.fpIsNaN(f)))
        obj.fields["as_float"] = f
        return SFloat(f)

    R = h.reg.theory_methods
    R[("s3client", "get_object")] = get_object
    R[("s3client", "head_object")] = head_object
    R[("s3client", "list_objects_v2")] = list_objects_v2
    R[("s3client", "put_object")] = put_object
    R[("s3client", "delete_object")] = delete_object
    R[("s3resp", "__getitem__")] = resp_getitem
    R[("s3resp", "get")] = resp_get
    R[("s3resp", "__contains__")] = resp_contains
    R[("s3body", "read")] = body_read
    R[("s3body", "close")] = body_close
    R[("s3time", "timestamp")] = time_timestamp
    return w


def _backend_call(h: H, method, nonempty, extra_args=()):
    be, prefix = mk_backend(h, nonempty)
    path = h.str("path")
    install_key_contract(h, prefix)
    calls = []
    install_retry_contract(h, calls)
    w = s3_world(h)
    out, val = h.run(f"{SB}:S3StorageBackend.{method}", [be, path] + list(extra_args))
    keys = [e[1] for e in w["log"] if e[0] != "PUT-LANDED"]
    ok, _rel = key_spec_holds(prefix, path.z, keys[0]) if keys else (z3.BoolVal(True), None)
    h.ensure(f"{method}:every-request-addresses-KEY(path)", ok)
    for e in w["log"]:
        if e[0] != "PUT-LANDED" and e[0] != "list_objects_v2":
            h.ensure(f"{method}:bucket", pyops.bool_z(pyops.py_eq(e[2].get("Bucket"), "bkt")))
    return be, path, w, out, val, calls, (keys[0] if keys else None)


def _is_fault(exc):
    return isinstance(exc, SExc) and exc.fields.get("fault") is True


def h_exists(nonempty):
    def harness(h: H):
        be, path, w, out, val, calls, key = _backend_call(h, "exists", nonempty)
        h.ensure("exists:retried-like-other-reads", len(calls) == 1)
        if out == "raise":
            h.ensure("exists:raises-only-on-non-404-error", _is_fault(val))
            return
        t = pyops.bool_z(pyops.truth(val))
        dirlike = z3.SuffixOf(z3.StringVal("/"), key)
        spec = z3.Or(w["exists"](key), z3.And(dirlike, w["under"](key)))
        h.ensure("exists:EXACT(True<=>object-at-key-or-dir-with-children)", t == spec)
        h.cover("exists:true-exact", w["exists"](key))
        h.cover("exists:false", z3.Not(spec))
        h.cover("exists:dir", z3.And(dirlike, z3.Not(w["exists"](key)), w["under"](key)))
    return harness


def h_read_file(nonempty):
    def harness(h: H):
        be, path, w, out, val, calls, key = _backend_call(h, "read_file", nonempty)
        h.ensure("read_file:goes-through-retry", len(calls) == 1)
        if out == "ok":
            h.ensure("read_file:content", z3.And(w["exists"](key), pyops.str_z(val) == w["content"](key)))
        else:
            if val.cls == "FileNotFoundError":
                h.ensure("read_file:FileNotFoundError<=>absent", z3.Not(w["exists"](key)))
            else:
                h.ensure("read_file:other-errors-are-the-transport's", _is_fault(val))
        h.cover("read_file:notfound", z3.Not(w["exists"](key))) if out == "raise" and val.cls == "FileNotFoundError" else None
    return harness


def h_read_file_with_etag(nonempty):
    def harness(h: H):
        be, path, w, out, val, calls, key = _backend_call(h, "read_file_with_etag", nonempty)
        if out == "ok":
            h.ensure("read_etag:tuple", isinstance(val, tuple) and len(val) == 2)
            data, etag = val
            h.ensure("read_etag:content+etag-from-one-response",
                     z3.And(w["exists"](key), pyops.str_z(data) == w["content"](key), pyops.str_z(etag) == w["etag"](key)))
            h.ensure("read_etag:single-GET", sum(1 for e in w["log"] if e[0] == "get_object") == 1)
        elif val.cls == "FileNotFoundError":
            h.ensure("read_etag:FileNotFoundError<=>absent", z3.Not(w["exists"](key)))
        else:
            h.ensure("read_etag:other-errors-are-the-transport's", _is_fault(val))
    return harness


def h_get_size(nonempty):
    def harness(h: H):
        be, path, w, out, val, calls, key = _backend_call(h, "get_size", nonempty)
        if out == "ok":
            h.ensure("get_size:=len(content)", z3.And(w["exists"](key), pyops.int_z(val) == z3.Length(w["content"](key))))
        elif val.cls == "FileNotFoundError":
            h.ensure("get_size:FileNotFoundError<=>absent", z3.Not(w["exists"](key)))
        else:
            h.ensure("get_size:other-errors-are-the-transport's", _is_fault(val))
    return harness


def h_get_mtime(nonempty):
    def harness(h: H):
        be, path, w, out, val, calls, key = _backend_call(h, "get_modified_time", nonempty)
        if out == "ok":
            h.ensure("mtime:exists", w["exists"](key))
            h.ensure("mtime:is-LastModified.timestamp()", any(e[0] == "head_object" for e in w["log"]))
        elif val.cls == "FileNotFoundError":
            h.ensure("mtime:FileNotFoundError<=>absent", z3.Not(w["exists"](key)))
        else:
            h.ensure("mtime:other-errors-are-the-transport's", _is_fault(val))
    return harness


def h_delete(nonempty):
    def harness(h: H):
        be, path, w, out, val, calls, key = _backend_call(h, "delete_file", nonempty)
        dels = [e for e in w["log"] if e[0] == "delete_object"]
        h.ensure("delete:exactly-one-DELETE-per-attempt", len(dels) == 1 and len(w["log"]) == 1)
        if out == "raise":
            h.ensure("delete:errors-are-the-transport's", _is_fault(val))
    return harness


def h_write_file(nonempty):
    def harness(h: H):
        be, prefix = mk_backend(h, nonempty)
        path, content = h.str("path"), h.bytes("content")
        install_key_contract(h, prefix)
        calls = []
        install_retry_contract(h, calls)
        w = s3_world(h)
        h.reg.contracts["integrity:IntegrityChecker.compute_checksum"] = lambda I, fv, a, k: SStr(I.ctx.fresh_str("sha"))
        out, val = h.run(f"{SB}:S3StorageBackend.write_file", [be, path, content])
        puts = [e for e in w["log"] if e[0] == "put_object"]
        h.ensure("write_file:one-unconditional-PUT", len(puts) == 1 and "IfMatch" not in puts[0][2] and "IfNoneMatch" not in puts[0][2])
        if puts:
            ok, _ = key_spec_holds(prefix, path.z, puts[0][1])
            h.ensure("write_file:key", ok)
            h.ensure("write_file:whole-body", pyops.bool_z(pyops.py_eq(puts[0][2].get("Body"), content)))
        if out == "raise":
            h.ensure("write_file:errors-are-the-transport's", _is_fault(val))
    return harness


def h_write_file_cas(nonempty):
    """CAS-MAP: IfNoneMatch='*' iff etag is None, else IfMatch=etag; exactly the precondition-failure codes map to
    CASConflictError; everything else is re-raised unchanged; NOT retried."""
    def harness(h: H):
        be, prefix = mk_backend(h, nonempty)
        path, content = h.str("path"), h.bytes("content")
        use_none = h.ctx.flip("etag-none")
        etag = None if use_none else h.str("etag")
        install_key_contract(h, prefix)
        calls = []
        install_retry_contract(h, calls)
        w = s3_world(h)
        out, val = h.run(f"{SB}:S3StorageBackend.write_file_cas", [be, path, content, etag])
        puts = [e for e in w["log"] if e[0] == "put_object"]
        landed = [e for e in w["log"] if e[0] == "PUT-LANDED"]
        h.ensure("cas:not-retried", len(calls) == 0)
        h.ensure("cas:exactly-one-PUT", len(puts) == 1)
        if puts:
            kw = puts[0][2]
            ok, _ = key_spec_holds(prefix, path.z, puts[0][1])
            h.ensure("cas:key", ok)
            if use_none:
                h.ensure("cas:create-if-absent(IfNoneMatch=*)", "IfMatch" not in kw and kw.get("IfNoneMatch") == "*")
            else:
                h.ensure("cas:replace-if-unchanged(IfMatch=etag)", "IfNoneMatch" not in kw and "IfMatch" in kw
                         and pyops.bool_z(pyops.py_eq(kw.get("IfMatch"), etag)))
            h.ensure("cas:whole-body", pyops.bool_z(pyops.py_eq(kw.get("Body"), content)))
        if out == "ok":
            h.ensure("cas:returns-only-if-landed", len(landed) == 1)
        elif val.cls == "CASConflictError":
            h.ensure("cas:conflict=>precondition-failed-and-not-landed",
                     len(landed) == 0 and isinstance(val.cause, SExc) and "precondition" in str(val.cause.origin))
        else:
            h.ensure("cas:other-errors-reraised-unchanged", _is_fault(val))
        h.cover("cas:conflict", True) if (out == "raise" and val.cls == "CASConflictError") else None
    return harness


_BACKEND_UNITS = [("EXISTS/exists", h_exists, ["exists", "exists.<locals>.exists_op"]),
                  ("SPEC/read_file", h_read_file, ["read_file", "read_file.<locals>.read_op"]),
                  ("SPEC/read_file_with_etag", h_read_file_with_etag, ["read_file_with_etag", "read_file_with_etag.<locals>.read_op"]),
                  ("SPEC/get_size", h_get_size, ["get_size", "get_size.<locals>.size_op"]),
                  ("SPEC/get_modified_time", h_get_mtime, ["get_modified_time", "get_modified_time.<locals>.mtime_op"]),
                  ("SPEC/delete_file", h_delete, ["delete_file", "delete_file.<locals>.delete_op"]),
                  ("SPEC/write_file", h_write_file, ["write_file", "write_file.<locals>.write_op"]),
                  ("SPEC/write_file_cas", h_write_file_cas, ["write_file_cas"])]


def _replay_backend(ob):
    return '''
import sys, tempfile, shutil
from doubles.s3 import FakeS3
from datashard.storage_backend import S3StorageBackend, LocalStorageBackend, CASConflictError
bad = []
for prefix in ("", "wh/t1"):
    be = S3StorageBackend.__new__(S3StorageBackend)
    be.bucket, be.prefix, be.s3, be.use_conditional_writes = "bkt", prefix, FakeS3(), True
    root = tempfile.mkdtemp(prefix="pyvc_replay_")
    try:
        lo = LocalStorageBackend(root)
        for b in (be, lo):
            b.write_file("data/a.parquet", b"abc"); b.write_file("/data/b.parquet", b"")
        for name in ("data/a.parquet", "/data/a.parquet", "data/b.parquet", "data/a", "data/missing", "dat"):
            r = []
            for b in (be, lo):
                try: r.append(("ok", b.exists(name)))
                except Exception as e: r.append(("raise", type(e).__name__))
            if r[0] != r[1]: bad.append(("exists", prefix, name, r))
            r = []
            for b in (be, lo):
                try: r.append(("ok", b.read_file(name), b.get_size(name)))
                except FileNotFoundError: r.append(("FileNotFoundError",))
                except Exception as e: r.append(("raise", type(e).__name__))
            if r[0] != r[1]: bad.append(("read/size", prefix, name, r))
        data, etag = be.read_file_with_etag("data/a.parquet")
        if data != b"abc" or not etag: bad.append(("etag read", data, etag))
        be.write_file_cas("data/a.parquet", b"new", etag)
        try:
            be.write_file_cas("data/a.parquet", b"stale", etag); bad.append("stale CAS accepted")
        except CASConflictError: pass
        try:
            be.write_file_cas("data/a.parquet", b"again", None); bad.append("create-if-absent over existing accepted")
        except CASConflictError: pass
        if be.read_file("data/a.parquet") != b"new": bad.append("CAS content")
        # a conditional PUT that LANDS while the client sees a 5xx: one request only, and the outcome must not be reported as a conflict
        import botocore.exceptions
        _d, etag2 = be.read_file_with_etag("data/a.parquet")
        seen = {"puts": 0}
        def after(op, kw, resp):
            if op == "put_object":
                seen["puts"] += 1
                if seen["puts"] == 1:
                    raise botocore.exceptions.ClientError({"Error": {"Code": "InternalError", "Message": "injected"}, "ResponseMetadata": {"HTTPStatusCode": 500}}, "PutObject")
        be.s3.after = after
        try:
            be.write_file_cas("data/a.parquet", b"landed", etag2); bad.append("a 5xx on the conditional PUT was swallowed")
        except CASConflictError:
            bad.append("conditional PUT retried after an ambiguous failure: its own first write made the retry fail, reported as a CONFLICT although the write landed")
        except Exception:
            pass
        be.s3.after = None
        if seen["puts"] != 1: bad.append(("conditional PUT issued more than once", seen["puts"]))
        be.delete_file("data/a.parquet"); lo.delete_file("data/a.parquet")
        if be.exists("data/a.parquet") or lo.exists("data/a.parquet"): bad.append("delete")
    finally:
        shutil.rmtree(root, ignore_errors=True)
print("replay backend ->", bad or "s3 == local on the sampled operations")
sys.exit(1 if bad else 0)
'''


for _ne in (True, False):
    _t = "prefix" if _ne else "noprefix"
    for _n, _hf, _fs in _BACKEND_UNITS:
        register(Unit(P, f"{_n}-{_t}", _hf(_ne), functions=[f"{SB}:S3StorageBackend.{x}" for x in _fs], replay=_replay_backend))



def register_cas_map_under(prop):
    """the CAS-MAP units are also part of C04 (an ambiguous pointer write must surface as ambiguous: the conditional PUT is never
    retried) and of C08 (a delayed pointer write cannot lose an update)"""
    for _ne in (True, False):
        _t = "prefix" if _ne else "noprefix"
        register(Unit(prop, f"CAS-MAP/S3StorageBackend.write_file_cas-{_t}", h_write_file_cas(_ne), functions=[f"{SB}:S3StorageBackend.write_file_cas"],
                      replay=_replay_backend, reg_factory=registry))
