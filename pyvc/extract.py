"""Mechanical extraction of the real source: /repo/src/datashard/*.py -> ASTs by qualified name.

Nothing is rewritten: the FunctionDef nodes returned here are the nodes ast.parse produced
from the working-tree files, and the symbolic interpreter walks them directly.  What the
interpreter *ignores* while walking (docstrings, annotations, logger.* calls, exception
message arguments) is listed in engine.DROPPED.
"""
from __future__ import annotations

import ast
import hashlib
import os
from dataclasses import dataclass, field
from typing import Any, Dict, List, Optional, Tuple

REPO_SRC = os.environ.get("PYVC_REPO_SRC", "/repo/src/datashard")


@dataclass
class ClassInfo:
    module: str
    name: str
    node: ast.ClassDef
    bases: List[str]
    methods: Dict[str, ast.FunctionDef] = field(default_factory=dict)
    properties: Dict[str, ast.FunctionDef] = field(default_factory=dict)
    static: set = field(default_factory=set)
    classmeth: set = field(default_factory=set)
    # dataclass fields in order: (name, default-expr-or-None, default_factory-expr-or-None)
    dc_fields: List[Tuple[str, Optional[ast.expr], Optional[ast.expr]]] = field(default_factory=list)
    is_dataclass: bool = False
    class_attrs: Dict[str, ast.expr] = field(default_factory=dict)
    enum_members: Dict[str, Any] = field(default_factory=dict)
    is_enum: bool = False


@dataclass
class ModuleInfo:
    name: str
    path: str
    tree: ast.Module
    source: str
    sha256: str
    functions: Dict[str, ast.FunctionDef] = field(default_factory=dict)  # qualname -> node
    classes: Dict[str, ClassInfo] = field(default_factory=dict)
    constants: Dict[str, ast.expr] = field(default_factory=dict)  # module-level NAME = expr
    imports: Dict[str, Tuple[str, Optional[str]]] = field(default_factory=dict)  # local -> (module, attr)


class Repo:
    def __init__(self, src: str = None):
        self.src = src or REPO_SRC
        self.modules: Dict[str, ModuleInfo] = {}
        for fn in sorted(os.listdir(self.src)):
            if fn.endswith(".py"):
                self._load(fn[:-3], os.path.join(self.src, fn))

    # ------------------------------------------------------------------
    def _load(self, modname: str, path: str) -> None:
        with open(path, "r", encoding="utf-8") as f:
            source = f.read()
        tree = ast.parse(source, filename=path)
        mi = ModuleInfo(modname, path, tree, source, hashlib.sha256(source.encode()).hexdigest())
        self.modules[modname] = mi
        self._scan_body(mi, tree.body, prefix="", toplevel=True)

    def _scan_body(self, mi: ModuleInfo, body, prefix: str, toplevel: bool) -> None:
        for node in body:
            if isinstance(node, (ast.FunctionDef, ast.AsyncFunctionDef)):
                qn = prefix + node.name
                mi.functions[qn] = node
                self._scan_nested(mi, node, qn)
            elif isinstance(node, ast.ClassDef):
                self._scan_class(mi, node, prefix)
            elif toplevel and isinstance(node, ast.Assign) and len(node.targets) == 1 \
                    and isinstance(node.targets[0], ast.Name):
                mi.constants[node.targets[0].id] = node.value
            elif toplevel and isinstance(node, ast.AnnAssign) and isinstance(node.target, ast.Name) \
                    and node.value is not None:
                mi.constants[node.target.id] = node.value
            elif toplevel and isinstance(node, (ast.Import, ast.ImportFrom)):
                self._scan_import(mi, node)
            elif toplevel and isinstance(node, (ast.Try, ast.If)):
                # module-level try: import ... / if TYPE_CHECKING: -- scan the first body
                for sub in ast.walk(node):
                    if isinstance(sub, (ast.Import, ast.ImportFrom)):
                        self._scan_import(mi, sub)
                    elif isinstance(sub, ast.Assign) and len(sub.targets) == 1 \
                            and isinstance(sub.targets[0], ast.Name):
                        mi.constants.setdefault(sub.targets[0].id, sub.value)
                    elif isinstance(sub, ast.AnnAssign) and isinstance(sub.target, ast.Name) and sub.value is not None:
                        mi.constants.setdefault(sub.target.id, sub.value)

    def _scan_import(self, mi: ModuleInfo, node) -> None:
        if isinstance(node, ast.Import):
            for a in node.names:
                mi.imports[(a.asname or a.name).split(".")[0]] = (a.name if a.asname else a.name.split(".")[0], None)
        else:
            mod = ("." * node.level) + (node.module or "")
            for a in node.names:
                mi.imports[a.asname or a.name] = (mod, a.name)

    def _scan_nested(self, mi: ModuleInfo, fn: ast.FunctionDef, qn: str) -> None:
        for sub in ast.walk(fn):
            if sub is fn:
                continue
            if isinstance(sub, ast.FunctionDef):
                # direct or indirect nesting: name by the innermost enclosing function chain
                pass
        # direct children only (recursive)
        def rec(body_owner, pref):
            for child in ast.iter_child_nodes(body_owner):
                if isinstance(child, ast.FunctionDef):
                    q = f"{pref}.<locals>.{child.name}"
                    mi.functions[q] = child
                    rec(child, q)
                elif isinstance(child, (ast.ClassDef, ast.Lambda)):
                    continue
                else:
                    rec(child, pref)
        rec(fn, qn)

    def _scan_class(self, mi: ModuleInfo, node: ast.ClassDef, prefix: str) -> None:
        bases = []
        for b in node.bases:
            if isinstance(b, ast.Name):
                bases.append(b.id)
            elif isinstance(b, ast.Attribute):
                bases.append(ast.unparse(b))
        ci = ClassInfo(mi.name, node.name, node, bases)
        for d in node.decorator_list:
            if (isinstance(d, ast.Name) and d.id == "dataclass") or \
               (isinstance(d, ast.Call) and isinstance(d.func, ast.Name) and d.func.id == "dataclass"):
                ci.is_dataclass = True
        if "NamedTuple" in bases or "typing.NamedTuple" in bases:
            ci.is_dataclass = True          # typing.NamedTuple: annotated fields, positional / keyword construction (tuple protocol not modelled)
        ci.is_enum = "Enum" in bases
        for item in node.body:
            if isinstance(item, ast.FunctionDef):
                decos = [ast.unparse(d) for d in item.decorator_list]
                if "property" in decos:
                    ci.properties[item.name] = item
                elif any(d.endswith(".setter") for d in decos):
                    continue
                else:
                    ci.methods[item.name] = item
                    if "staticmethod" in decos:
                        ci.static.add(item.name)
                    if "classmethod" in decos:
                        ci.classmeth.add(item.name)
                qn = f"{prefix}{node.name}.{item.name}"
                mi.functions[qn] = item
                self._scan_nested(mi, item, qn)
            elif isinstance(item, ast.AnnAssign) and isinstance(item.target, ast.Name):
                if ci.is_dataclass:
                    default, factory = item.value, None
                    if isinstance(default, ast.Call) and isinstance(default.func, ast.Name) \
                            and default.func.id == "field":
                        d2 = None
                        for kw in default.keywords:
                            if kw.arg == "default_factory":
                                factory = kw.value
                            elif kw.arg == "default":
                                d2 = kw.value
                        default = d2
                    ci.dc_fields.append((item.target.id, default, factory))
                elif item.value is not None:
                    ci.class_attrs[item.target.id] = item.value
            elif isinstance(item, ast.Assign) and len(item.targets) == 1 and isinstance(item.targets[0], ast.Name):
                name = item.targets[0].id
                ci.class_attrs[name] = item.value
                if ci.is_enum:
                    try:
                        ci.enum_members[name] = ast.literal_eval(item.value)
                    except Exception:
                        pass
        mi.classes[node.name] = ci

    # ------------------------------------------------------------------
    def function(self, ref: str) -> Tuple[ModuleInfo, ast.FunctionDef]:
        """ref = 'module:Qual.name' (module without the datashard. prefix allowed)."""
        mod, qn = ref.split(":")
        mod = mod.replace("datashard.", "")
        mi = self.modules[mod]
        if qn not in mi.functions:
            raise KeyError(f"contract does not bind: {ref} not found in {mi.path}")
        return mi, mi.functions[qn]

    def find_class(self, name: str, prefer_module: str = None) -> Optional[ClassInfo]:
        if prefer_module and prefer_module in self.modules and name in self.modules[prefer_module].classes:
            return self.modules[prefer_module].classes[name]
        for mi in self.modules.values():
            if name in mi.classes:
                return mi.classes[name]
        return None

    def mro(self, ci: ClassInfo) -> List[ClassInfo]:
        out, seen, todo = [], set(), [ci]
        while todo:
            c = todo.pop(0)
            if c.name in seen:
                continue
            seen.add(c.name)
            out.append(c)
            for b in c.bases:
                bc = self.find_class(b.split(".")[-1], c.module)
                if bc:
                    todo.append(bc)
        return out

    def lookup_method(self, ci: ClassInfo, name: str):
        for c in self.mro(ci):
            if name in c.methods:
                return c, c.methods[name], "method"
            if name in c.properties:
                return c, c.properties[name], "property"
        return None

    def source_segment(self, mi: ModuleInfo, node: ast.AST) -> str:
        return ast.get_source_segment(mi.source, node) or ""

    def loc(self, ref: str) -> str:
        mi, fn = self.function(ref)
        return f"{mi.path}:{fn.lineno}-{fn.end_lineno}"

    def tree_digest(self) -> str:
        h = hashlib.sha256()
        for name in sorted(self.modules):
            h.update(name.encode())
            h.update(self.modules[name].sha256.encode())
        return h.hexdigest()[:16]
