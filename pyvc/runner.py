"""Units, path exploration, aggregation into verdicts / evidence / VIOLATION lines."""
from __future__ import annotations

import json
import multiprocessing as mp
import os
import subprocess
import sys
import time
import traceback
from dataclasses import asdict, dataclass, field
from typing import Any, Callable, Dict, List, Optional

import z3

from . import solve
from .ctx import Config, Ctx, EngineError, ObResult, PathEnd, Unsupported
from .engine import DROPPED, Env, Interp, PyRaise, Registry, ReturnSig
from .extract import Repo
from .values import (FuncVal, PDict, PList, PSet, SBool, SBytes, SExc, SFloat, SInt, SObj, SOpt, SStr,
                     TheoryObj)

VERIF = os.path.dirname(os.path.dirname(os.path.abspath(__file__)))
PY = os.path.join(VERIF, ".venv", "bin", "python")


@dataclass
class Unit:
    prop: str
    name: str
    harness: Callable
    functions: List[str] = field(default_factory=list)   # module:qualname under contract in this unit
    replay: Optional[Callable] = None                     # replay(ob: dict) -> python source of a replay script (or None)
    tier: str = "quick"                                   # 'quick' units run in both tiers; 'thorough' only there
    bounded: Optional[Callable] = None                    # bounded stand-in: bounded() -> (n_cases, failures[list of str])
    z3_timeout_ms: Optional[int] = None
    note: str = ""
    bounded_always: bool = False                          # run the bounded stand-in on every run (its failures are concrete inputs)
    reg_factory: Optional[Callable] = None                # registry (theories/config) of the module the harness was written for
    uses: List[str] = field(default_factory=list)         # lemma units: names (suffixes) of the obligations used as hypotheses;
                                                          # each must be discharged by another unit IN THE SAME RUN


class H:
    """What a harness sees."""

    def __init__(self, unit: Unit, ctx: Ctx, repo: Repo, reg: Registry, known: Dict[str, List[str]]):
        self.unit = unit
        self.ctx = ctx
        self.repo = repo
        self.reg = reg
        self.I = Interp(repo, reg, ctx)
        self._known = known

    # ---- symbolic inputs (registered so that counter-models report them)
    def int(self, name):
        z = z3.Int(name)
        self.ctx.inputs[name] = z
        return SInt(z)

    def bool(self, name):
        z = z3.Bool(name)
        self.ctx.inputs[name] = z
        return SBool(z)

    def str(self, name):
        z = z3.String(name)
        self.ctx.inputs[name] = z
        return SStr(z)

    def bytes(self, name):
        z = z3.String(name)
        self.ctx.inputs[name] = z
        return SBytes(z)

    def float(self, name):
        z = z3.FP(name, z3.Float64())
        self.ctx.inputs[name] = z
        return SFloat(z)

    def opt(self, name, mk):
        isn = z3.Bool(name + "__isnone")
        self.ctx.inputs[name + "__isnone"] = isn
        return SOpt(isn, mk(name))

    def report(self, name, term):
        self.ctx.inputs[name] = term

    def obj(self, cls, label=None, **fields):
        return SObj(cls, fields, label=label)

    def fn(self, ref) -> FuncVal:
        mi, node = self.repo.function(ref)
        mod, qn = ref.split(":")
        owner = qn.split(".")[0] if "." in qn and qn.split(".")[0] in mi.classes else None
        return FuncVal(mi.name, qn, node, owner_cls=owner)

    # ---- running the real function body
    def run(self, ref, args, kwargs=None):
        """-> ('ok', value) | ('raise', SExc)"""
        fv = self.fn(ref) if isinstance(ref, str) else ref
        try:
            return "ok", self.I.run_function(fv, list(args), dict(kwargs or {}))
        except PyRaise as pr:
            return "raise", pr.exc

    def call(self, fnval, args, kwargs=None):
        try:
            return "ok", self.I.call(fnval, list(args), dict(kwargs or {}))
        except PyRaise as pr:
            return "raise", pr.exc

    # ---- obligations
    def ensure(self, name, claim, detail="", classes=None):
        active = None
        if classes:
            labels = self._known.get(name, [])
            active = [(l, k) for l, k in classes if l in labels] or None
        return self.ctx.check(name, claim, detail=detail, classes=active)

    def fail(self, name, detail=""):
        """An outcome that must be unreachable."""
        return self.ctx.check(name, z3.BoolVal(False), detail=detail)

    def cover(self, name, cond=True):
        self.ctx.cover(name, cond)

    def assume(self, b, why=None):
        self.ctx.assume(b, why)


# -----------------------------------------------------------------------------------------------
_UNITS: Dict[str, List[Unit]] = {}
_REG_FACTORY: Dict[str, Callable] = {}


def register(unit: Unit):
    _UNITS.setdefault(unit.prop, []).append(unit)


def units_of(prop: str) -> List[Unit]:
    return _UNITS.get(prop, [])


def set_registry_factory(prop: str, f: Callable):
    _REG_FACTORY[prop] = f


def base_registry() -> Registry:
    from .theories import pybuiltins
    reg = Registry()
    pybuiltins.install(reg)
    # repository helpers without a registered contract are interpreted as part of their caller (their real body),
    # and reported under helpers_interpreted_inline; functions with a contract are always applied modularly
    reg.inline.add("*")
    return reg


def explore_unit(unit: Unit, cfg: Config, known: Dict[str, List[str]], repo: Repo = None) -> Dict[str, Any]:
    t0 = time.time()
    repo = repo or Repo()
    out = {"unit": unit.name, "prop": unit.prop, "obls": [], "paths": 0, "undecided": [], "errors": [],
           "assumed": set(), "contracts_used": set(), "inlined": set(), "functions": list(unit.functions)}
    if unit.z3_timeout_ms:
        cfg = Config(**{**cfg.__dict__, "z3_timeout_ms": unit.z3_timeout_ms})
    # binding check
    for ref in unit.functions:
        try:
            repo.function(ref)
        except KeyError as e:
            out["undecided"].append(f"contract does not bind: {e}")
    if out["undecided"]:
        out["secs"] = time.time() - t0
        out["assumed"] = sorted(out["assumed"])
        out["contracts_used"] = sorted(out["contracts_used"])
        out["inlined"] = sorted(out["inlined"])
        return out
    work: List[List[Any]] = [[]]
    factory = unit.reg_factory or _REG_FACTORY.get(unit.prop, base_registry)
    while work:
        dec = work.pop()
        out["paths"] += 1
        if out["paths"] > cfg.max_paths:
            out["undecided"].append(f"path budget {cfg.max_paths} exhausted")
            break
        ctx = Ctx(dec, cfg, unit.name)
        reg = factory()
        h = H(unit, ctx, repo, reg, known)
        try:
            unit.harness(h)
        except PathEnd:
            pass
        except Unsupported as e:
            out["undecided"].append(f"unsupported: {e}")
        except PyRaise as pr:
            out["errors"].append(f"harness leaked analysed-program exception {pr.exc!r} on path {ctx.path_id()}")
        except EngineError as e:
            out["errors"].append(f"engine error: {e}")
        except RecursionError:
            out["undecided"].append("unsupported: recursion depth")
        except Exception as e:  # checker crash, never a verdict
            out["errors"].append(f"checker exception {type(e).__name__}: {e}\n{traceback.format_exc()[-1500:]}")
        work.extend(ctx.forks)
        for o in ctx.obls:
            out["obls"].append(asdict(o))
        out["assumed"] |= ctx.assumed
        out["contracts_used"] |= reg.contracts_used
        out["inlined"] |= reg.inlined_used
    out["secs"] = time.time() - t0
    out["assumed"] = sorted(out["assumed"])
    out["contracts_used"] = sorted(out["contracts_used"])
    out["inlined"] = sorted(out["inlined"])
    out["solver"] = dict(solve.STATS)
    return out


def _worker(job):
    prop, idx, cfgd, known = job
    import importlib
    importlib.import_module(f"contracts.{_module_of(prop)}")
    unit = units_of(prop)[idx]
    try:
        return explore_unit(unit, Config(**cfgd), known)
    except Exception as e:  # pragma: no cover
        return {"unit": unit.name, "prop": prop, "obls": [], "paths": 0, "undecided": [],
                "errors": [f"worker crash {type(e).__name__}: {e}\n{traceback.format_exc()[-1500:]}"],
                "assumed": [], "contracts_used": [], "inlined": [], "functions": unit.functions, "secs": 0.0,
                "solver": {}}


def _module_of(prop: str) -> str:
    for fn in os.listdir(os.path.join(VERIF, "contracts")):
        if fn.startswith(prop + "_") and fn.endswith(".py"):
            return fn[:-3]
    raise KeyError(f"no contracts module for {prop}")


def load_known() -> List[Dict[str, Any]]:
    p = os.path.join(VERIF, "known_findings.json")
    if not os.path.exists(p):
        return []
    with open(p) as f:
        return json.load(f).get("findings", [])


def run_property(prop: str, tier: str, seed: int, jobs: int = 0) -> int:
    t0 = time.time()
    import importlib
    modname = _module_of(prop)
    mod = importlib.import_module(f"contracts.{modname}")
    units = units_of(prop)
    sel = [i for i, u in enumerate(units) if tier == "thorough" or u.tier == "quick"]
    cfg = Config()
    if tier == "thorough":
        cfg.z3_timeout_ms = 60000
        cfg.cvc5_timeout_ms = 90000
    findings = [f for f in load_known() if f.get("property") == prop]
    known: Dict[str, List[str]] = {}
    for f in findings:
        if f.get("status", "known") == "known":
            known.setdefault(f["obligation"], []).append(f["class"])
    jobs = jobs or min(16, max(1, len(sel)))
    joblist = [(prop, i, dict(cfg.__dict__), known) for i in sel]
    if jobs == 1 or len(joblist) == 1:
        results = [_worker(j) for j in joblist]
    else:
        with mp.get_context("fork").Pool(jobs) as pool:
            results = pool.map(_worker, joblist, chunksize=1)
    return report(prop, tier, seed, units, results, findings, time.time() - t0, getattr(mod, "META", {}))


# -----------------------------------------------------------------------------------------------
def report(prop, tier, seed, units, results, findings, wall, meta) -> int:
    by_name: Dict[str, Dict[str, Any]] = {}
    covers: Dict[str, bool] = {}
    undecided, errors = [], []
    assumed, contracts_used, inlined, functions = set(), set(), set(), set()
    paths = 0
    solver_secs = 0.0
    unit_of_ob: Dict[str, str] = {}
    for r in results:
        paths += r["paths"]
        undecided += [f"{r['unit']}: {u}" for u in r["undecided"]]
        errors += [f"{r['unit']}: {e}" for e in r["errors"]]
        assumed |= set(r["assumed"])
        contracts_used |= set(r["contracts_used"])
        inlined |= set(r["inlined"])
        functions |= set(r["functions"])
        n_assert = 0
        for o in r["obls"]:
            solver_secs += o["secs"]
            if o["kind"] == "cover":
                # 'unknown' (solver budget) is not evidence of unreachability: only all-'unsat' is vacuity
                covers[o["name"]] = covers.get(o["name"], False) or o["verdict"] != "unsat"
                continue
            n_assert += 1
            unit_of_ob[o["name"]] = r["unit"]
            e = by_name.setdefault(o["name"], {"instances": 0, "verdict": "unsat", "backends": set(), "secs": 0.0,
                                               "fail": None, "unknown": None})
            e["instances"] += 1
            e["backends"].add(o["backend"])
            e["secs"] += o["secs"]
            if o["verdict"] == "sat":
                e["verdict"] = "sat"
                if e["fail"] is None or (not o.get("klass") and e["fail"].get("klass")):
                    e["fail"] = o
            elif o["verdict"] == "unknown" and e["verdict"] != "sat":
                e["verdict"] = "unknown"
                e["unknown"] = o
        if n_assert == 0 and not r["undecided"] and not r["errors"]:
            errors.append(f"{r['unit']}: vacuous unit (zero obligations generated)")
    refuted_units = {unit_of_ob.get(n) for n, e in by_name.items() if e["verdict"] != "unsat"}
    for name, ok in covers.items():
        if not ok and not any(u and name.startswith(u + "/") for u in refuted_units):
            errors.append(f"vacuity: cover point {name} is unreachable")

    n_ob = len(by_name)
    discharged = sum(1 for e in by_name.values() if e["verdict"] == "unsat")
    refuted = {n: e for n, e in by_name.items() if e["verdict"] == "sat"}
    unknown = {n: e for n, e in by_name.items() if e["verdict"] == "unknown"}

    # lemma units: every hypothesis they cite must be an obligation discharged in this very run (outright, or outside a listed
    # known-finding class); otherwise the lemma's conclusion is not supported and the run is undecided
    for u in units:
        for hyp in getattr(u, "uses", []) or []:
            match = [n for n in by_name if n.endswith(hyp) or hyp in n]
            if not match:
                undecided.append(f"{u.name}: lemma hypothesis '{hyp}' matches no obligation generated in this run")
            elif any(by_name[n]["verdict"] == "unknown" for n in match):
                undecided.append(f"{u.name}: lemma hypothesis '{hyp}' is undecided in this run")

    # known findings
    known_idx = {(f["obligation"], f["class"]): f for f in findings if f.get("status", "known") == "known"}
    lines: List[str] = []
    violations = []
    known_hits = []
    for name, e in sorted(refuted.items()):
        o = e["fail"]
        short = name.split("/", 1)[1] if "/" in name else name
        key = None
        for (ob, kl), f in known_idx.items():
            if (ob == short or ob == name or name.endswith("/" + ob)) and o.get("klass") == kl:
                key = (ob, kl)
                break
        if key is not None:
            known_hits.append((name, known_idx[key]))
        else:
            violations.append((name, o))
    for name, f in known_hits:
        lines.append(f"KNOWN-FINDING: property={prop} {name} [{f['class']}] {f['description']}")

    # replay of new violations
    unit_by_name = {u.name: u for u in units}
    vio_records = []
    for name, o in violations:
        u = unit_by_name.get(unit_of_ob.get(name, ""))
        path, confirmed, rout = write_and_run_replay(prop, name, o, u)
        vio_records.append({"obligation": name, "model": o.get("model"), "replay": path, "confirmed": confirmed})
        if confirmed:
            lines.append(f"VIOLATION property={prop} replay={path}")
        else:
            lines.append(f"VIOLATION property={prop} replay={path} no-failing-input-found")

    # bounded stand-ins for undecided units
    bounded_notes = []
    if True:
        for r in results:
            u0 = unit_by_name[r["unit"]]
            if r["undecided"] or (u0.bounded is not None and u0.bounded_always):
                u = u0
                if u.bounded is not None:
                    try:
                        n, fails = u.bounded()
                        bounded_notes.append(f"{u.name}: bounded stand-in ran {n} cases, {len(fails)} failures")
                        for fdesc in fails[:3]:
                            path = _write_replay_text(prop, u.name + "/bounded", f"# bounded stand-in failure\n# {fdesc}\n")
                            lines.append(f"VIOLATION property={prop} replay={path}")
                            vio_records.append({"obligation": u.name + "/bounded", "model": fdesc, "replay": path,
                                                "confirmed": True})
                    except Exception as ex:
                        bounded_notes.append(f"{u.name}: bounded stand-in crashed: {ex}")
                elif r["undecided"] and u.replay is not None:
                    # the proof is undecided on this tree (construct outside the subset / contract no longer binds):
                    # fall back to the unit's concrete scenario (its replay script with an empty model) as a BOUNDED
                    # stand-in.  A failing scenario is a concrete failing input on the real code (sound violation);
                    # a passing one proves nothing and the unit stays undecided.
                    try:
                        body = u.replay({"name": u.name, "model": {}, "verdict": "undecided", "path": "-"})
                        if body:
                            hdr = (f"# bounded stand-in for undecided unit {u.name} (property {prop})\n"
                                   f"# reason: {r['undecided'][0][:300]}\n")
                            path = _write_replay_text(prop, u.name + "/bounded-standin", hdr + body)
                            confirmed, rout = run_replay(path)
                            with open(path, "a") as f:
                                f.write("\n# --- output ---\n" + "".join(f"# {l}\n" for l in rout.splitlines()[-30:]))
                            bounded_notes.append(f"{u.name}: proof undecided; bounded scenario stand-in {'FAILED' if confirmed else 'passed'}")
                            if confirmed:
                                lines.append(f"VIOLATION property={prop} replay={path}")
                                vio_records.append({"obligation": u.name + "/bounded-standin", "model": None, "replay": path,
                                                    "confirmed": True})
                    except Exception as ex:
                        bounded_notes.append(f"{u.name}: bounded scenario stand-in crashed: {ex}")

    # thorough tier: additionally execute every unit's concrete scenario script (the replay with an empty model) on the real
    # code.  These runs are BOUNDED (a handful of schedules / inputs each) and are never counted as proved; a failing scenario
    # is a concrete failing input (exit 1 of the script), anything else (crash, timeout) is only noted.
    if tier == "thorough":
        seen_bodies = set()
        known_units = {unit_of_ob[n] for n in unit_of_ob for f in findings
                       if f.get("status", "known") == "known" and n.endswith("/" + f["obligation"])}
        for r in results:
            u = unit_by_name[r["unit"]]
            if u.replay is None or r["undecided"]:
                continue
            if u.name in known_units:
                bounded_notes.append(f"{u.name}: concrete scenario not run (it demonstrates the unit's listed known finding)")
                continue
            try:
                body = u.replay({"name": u.name, "model": {}, "verdict": "scenario", "path": "-"})
            except Exception as ex:
                bounded_notes.append(f"{u.name}: scenario script not generated: {ex}")
                continue
            if not body or body in seen_bodies:
                continue
            seen_bodies.add(body)
            path = _write_replay_text(prop, u.name + "/scenario", f"# thorough-tier concrete scenario of unit {u.name} (bounded)\n" + body)
            t1 = time.time()
            confirmed, rout = run_replay(path)
            tail = [l for l in rout.splitlines() if l.strip() and " - INFO - " not in l and " - WARNING - " not in l][-1:]
            bounded_notes.append(f"{u.name}: concrete scenario on the real code {'FAILED' if confirmed else 'passed'} "
                                 f"({time.time() - t1:.1f}s): {(tail[0][:160] if tail else '')}")
            if confirmed:
                with open(path, "a") as f:
                    f.write("\n# --- output ---\n" + "".join(f"# {l}\n" for l in rout.splitlines()[-30:]))
                lines.append(f"VIOLATION property={prop} replay={path}")
                vio_records.append({"obligation": u.name + "/scenario", "model": None, "replay": path, "confirmed": True})

    status = 0
    if vio_records:
        status = 1
    elif errors:
        status = 3
    elif undecided or unknown:
        status = 2

    samples = []
    for name, e in list(sorted(by_name.items()))[:6]:
        samples.append({"obligation": name, "instances(paths)": e["instances"], "verdict": e["verdict"],
                        "backend": sorted(e["backends"])})
    slow = [n for n, e in by_name.items() if e["secs"] > 20]
    repo = Repo()
    ev = {
        "property_id": prop,
        "tier": tier,
        "seed": seed,
        "level": "proof",
        "coverage": {
            "obligations": n_ob,
            # an obligation with a listed known finding is discharged in the form it is claimed: (pc and not K and not claim) is
            # unsat, i.e. it holds everywhere outside the finding's class K; the class itself is reported under
            # known_findings_hit and as a KNOWN-FINDING line, never as proved
            "discharged": discharged + len({n for n, _f in known_hits}),
            "discharged_outside_a_listed_known_finding_class_only": sorted({n for n, _f in known_hits}),
            "checker_cmd": f"./check {prop} --tier {tier}",
            "trusted_base": sorted(assumed) + [f"dropped by extraction: {d}" for d in DROPPED] + list(meta.get("trusted", [])),
            "obligation_instances": sum(e["instances"] for e in by_name.values()),
            "paths": paths,
            "units": [r["unit"] for r in results],
            "functions_under_contract": sorted(f"{f} @ {_loc(repo, f)}" for f in functions),
            "callee_contracts_applied": sorted(contracts_used),
            "helpers_interpreted_inline": sorted(inlined),
            "backends": _backend_counts(by_name),
            "solver_seconds": round(solver_secs, 3),
            "refuted": sorted(refuted),
            "undischarged_unknown": sorted(unknown),
            "known_findings_hit": [f"{n} [{f['class']}]" for n, f in known_hits],
            "covers": {"total": len(covers), "reached": sum(1 for v in covers.values() if v)},
            "undecided": undecided[:20],
            "checker_errors": errors[:20],
            "bounded_standins": bounded_notes + list(meta.get("bounded", [])),
            "slow": slow,
            "samples": samples,
            "repo_tree_digest": repo.tree_digest(),
            "explanation": meta.get("explanation", ""),
        },
        "assumptions": sorted(assumed) + list(meta.get("assumptions", [])),
        "wall_s": round(wall, 3),
        "violations": len(vio_records),
    }
    if discharged < n_ob:
        ev["coverage"]["not_discharged"] = sorted(set(refuted) | set(unknown))
    # runs against a scratch copy of the sources (self-test mutants, re-evaluation of stored changes) must not overwrite the
    # evidence of /repo itself
    evdir = os.path.join(VERIF, "evidence") if not os.environ.get("PYVC_REPO_SRC") else os.path.join(VERIF, "out", "evidence_scratch")
    os.makedirs(evdir, exist_ok=True)
    with open(os.path.join(evdir, f"{prop}.json"), "w") as f:
        json.dump(ev, f, indent=1, default=str)
    for l in lines:
        print(l)
    for u in undecided[:10]:
        print(f"UNDECIDED property={prop} reason={u}")
    for e in errors[:10]:
        print(f"CHECKER-ERROR property={prop} {e}")
    for n, e in sorted(unknown.items())[:10]:
        print(f"UNDECIDED property={prop} reason=solver unknown on {n}: {e['unknown']['note'][:200]}")
    print(f"{prop} [{tier}] obligations={n_ob} discharged={discharged} refuted={len(refuted)} "
          f"(known={len(known_hits)}) unknown={len(unknown)} paths={paths} units={len(results)} "
          f"wall={wall:.1f}s exit={status}")
    return status


def _backend_counts(by_name):
    c: Dict[str, int] = {}
    for e in by_name.values():
        for b in e["backends"]:
            c[b] = c.get(b, 0) + 1
    return c


def _loc(repo, ref):
    try:
        return repo.loc(ref)
    except Exception:
        return "?"


def _safe(name: str) -> str:
    return "".join(ch if ch.isalnum() or ch in "-_." else "_" for ch in name)[:150]


def _write_replay_text(prop, obname, text) -> str:
    d = os.path.join(VERIF, "out", "replay", prop)
    os.makedirs(d, exist_ok=True)
    path = os.path.join(d, _safe(obname) + ".py")
    with open(path, "w") as f:
        f.write(text)
    return path


def write_and_run_replay(prop, obname, ob, unit: Optional[Unit]):
    header = (f"# replay for failed obligation {obname}\n# property {prop}\n"
              f"# verifier verdict: {ob.get('verdict')} by {ob.get('backend')} on path {ob.get('path')}\n"
              f"# counter-model: {json.dumps(ob.get('model'), default=str)}\n# note: {ob.get('note', '')}\n"
              f"# detail: {ob.get('detail', '')}\n")
    body = None
    if unit is not None and unit.replay is not None:
        try:
            body = unit.replay(ob)
        except Exception as e:
            header += f"# replay generator failed: {type(e).__name__}: {e}\n"
    if body is None:
        body = ("import sys\nprint('no replay generator for this obligation; see the counter-model above')\n"
                "sys.exit(2)\n")
    path = _write_replay_text(prop, obname, header + body)
    confirmed, rout = run_replay(path)
    with open(path, "a") as f:
        f.write("\n# --- replay output ---\n" + "".join(f"# {l}\n" for l in rout.splitlines()[-40:]))
    return path, confirmed, rout


def run_replay(path: str):
    """exit 1 from the script = violation reproduced on the real code."""
    env = dict(os.environ)
    src = os.environ.get("PYVC_REPO_SRC")
    extra = (os.path.dirname(src.rstrip("/")) + os.pathsep) if src else ""
    env["PYTHONPATH"] = extra + VERIF + os.pathsep + env.get("PYTHONPATH", "")
    try:
        p = subprocess.run([PY, path], capture_output=True, text=True, timeout=300, env=env, cwd=VERIF)
        return p.returncode == 1, (p.stdout + p.stderr)
    except subprocess.TimeoutExpired:
        return False, "replay timed out"
