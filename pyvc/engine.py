"""Symbolic interpreter over the *real* function ASTs of /repo (see extract.py).

One path at a time; branching through Ctx.decide / Ctx.choose.  Calls to repository functions
are resolved in this order:  registered contract (modular: the callee's contract, never its
body)  ->  explicitly inlinable helper (body interpreted as part of the caller, reported as
such)  ->  Unsupported.  Calls into libraries go to the theory tables of the Registry.

DROPPED by this interpreter (complete list; reported in every evidence file):
  * docstrings and type annotations;
  * calls on logger objects (logger.debug/info/warning/error) -- assumed not to raise or touch state;
  * the *arguments* of exception constructors (message text) -- class, cause and identity are kept;
  * `__del__` finalisers; Windows-only branches guarded by MSVCRT_AVAILABLE / not FCNTL_AVAILABLE
    (configuration: fcntl present).
"""
from __future__ import annotations

import ast
from typing import Any, Callable, Dict, List, Optional

import z3

from . import pyops
from .ctx import Ctx, EngineError, PathEnd, Unsupported
from .extract import ClassInfo, ModuleInfo, Repo
from .pyops import PyExc
from .values import (BoundMethod, Builtin, ClassVal, EnumVal, FuncVal, Ignored, ModuleVal, PDict, PList,
                     PSet, SBool, SBytes, SExc, SFloat, SInt, SMapZ, SObj, SOpaque, SOpt, SRef, SSeq,
                     SSetZ, SStr, Sym, TheoryObj, is_concrete, to_z3, wrap)

DROPPED = [
    "docstrings and type annotations",
    "logger.* calls (A-log: assumed neither to raise nor to touch state)",
    "arguments of exception constructors, i.e. message text (A-msg: formatting a message neither raises nor has effects)",
    "__del__ finalisers",
    "Windows-only branches (msvcrt / FCNTL_AVAILABLE == False); configuration: fcntl present",
]

# builtin exception hierarchy (child -> parent)
BUILTIN_EXC = {
    "BaseException": None,
    "Exception": "BaseException",
    "KeyboardInterrupt": "BaseException",
    "SystemExit": "BaseException",
    "GeneratorExit": "BaseException",
    "ArithmeticError": "Exception",
    "ZeroDivisionError": "ArithmeticError",
    "OverflowError": "ArithmeticError",
    "AssertionError": "Exception",
    "AttributeError": "Exception",
    "EOFError": "Exception",
    "ImportError": "Exception",
    "ModuleNotFoundError": "ImportError",
    "LookupError": "Exception",
    "IndexError": "LookupError",
    "KeyError": "LookupError",
    "MemoryError": "Exception",
    "NameError": "Exception",
    "OSError": "Exception",
    "IOError": "OSError",  # alias in CPython; modelled as the same node below
    "FileNotFoundError": "OSError",
    "FileExistsError": "OSError",
    "PermissionError": "OSError",
    "IsADirectoryError": "OSError",
    "NotADirectoryError": "OSError",
    "TimeoutError": "OSError",
    "InterruptedError": "OSError",
    "ConnectionError": "OSError",
    "BlockingIOError": "OSError",
    "RuntimeError": "Exception",
    "NotImplementedError": "RuntimeError",
    "RecursionError": "RuntimeError",
    "StopIteration": "Exception",
    "TypeError": "Exception",
    "ValueError": "Exception",
    "UnicodeError": "ValueError",
    "UnicodeDecodeError": "UnicodeError",
    "UnicodeEncodeError": "UnicodeError",
    # third-party classes that the code names; parents as in the libraries
    "struct.error": "Exception",          # struct.error
    "ClientError": "Exception",           # botocore.exceptions.ClientError
    "BotoCoreError": "Exception",         # botocore.exceptions.BotoCoreError
    "JSONDecodeError": "ValueError",      # json.JSONDecodeError
    "ArrowException": "Exception",
    "ArrowInvalid": "ValueError",         # pyarrow.lib.ArrowInvalid(ValueError, ArrowException)
    "ArrowTypeError": "TypeError",
    "ArrowNotImplementedError": "NotImplementedError",
    "ArrowIOError": "OSError",
    "OtherException": "Exception",        # representative of "any other Exception subclass"
    "OtherBaseException": "BaseException",  # representative of non-Exception BaseExceptions
}
_ALIASES = {"IOError": "OSError", "EnvironmentError": "OSError"}


class PyRaise(Exception):
    def __init__(self, exc: SExc):
        self.exc = exc


class ReturnSig(Exception):
    def __init__(self, value):
        self.value = value


class BreakSig(Exception):
    pass


class ContinueSig(Exception):
    pass


class Env:
    __slots__ = ("vars", "parent", "module", "fn")

    def __init__(self, module: str, parent: "Env" = None, fn: str = ""):
        self.vars: Dict[str, Any] = {}
        self.parent = parent
        self.module = module
        self.fn = fn

    def lookup(self, name):
        e = self
        while e is not None:
            if name in e.vars:
                return True, e.vars[name]
            e = e.parent
        return False, None

    def set(self, name, val):
        self.vars[name] = val


class LoopSpec:
    """Inductive invariant for one loop of a function (by ordinal, in source order)."""

    def __init__(self, invariant: Callable = None, modifies: List[str] = None, havoc: Callable = None,
                 unroll: bool = False, name: str = "", decreases: Callable = None, skip: List[str] = None,
                 on_exit: Callable = None, on_break: Callable = None, covers: List[str] = None):
        self.invariant = invariant  # invariant(interp, env, it) -> list[(name, z3 bool)]
        self.modifies = modifies    # extra names to havoc (beyond syntactically assigned locals)
        self.havoc = havoc          # havoc(interp, env, it): custom havoc of heap/ghost state
        self.unroll = unroll
        self.name = name
        self.decreases = decreases
        self.skip = skip or []      # names the custom havoc takes care of
        self.on_exit = on_exit      # on_exit(interp, env, it): facts that hold when the loop completed (rule ALL-VISITED)
        self.on_break = on_break    # on_break(interp, env, it): the body left the loop early (break) in the arbitrary iteration
        self.covers = covers or []  # object fields the custom havoc re-chooses even when the chosen value equals the old one (frame guard)


class Registry:
    def __init__(self):
        self.contracts: Dict[str, Callable] = {}      # 'module:qualname' -> handler(interp, fv, args, kwargs)
        self.inline: set = set()                      # refs that may be interpreted as part of their caller
        self.modfuncs: Dict[str, Callable] = {}       # 'os.path.join' -> handler(interp, args, kwargs)
        self.modconsts: Dict[str, Any] = {}
        self.methods: Dict[tuple, Callable] = {}      # (kindname, method) -> handler(interp, recv, args, kwargs)
        self.theory_methods: Dict[tuple, Callable] = {}
        self.theory_attrs: Dict[tuple, Callable] = {}
        self.builtins: Dict[str, Any] = {}
        self.class_ctor: Dict[str, Callable] = {}
        self.stale_state: set = set()                 # classes whose harness-unset fields are arbitrary instead of __init__ values
        self.loops: Dict[str, Dict[int, LoopSpec]] = {}   # ref -> {ordinal: LoopSpec}
        self.stmt_hook: Optional[Callable] = None     # called before every statement: hook(interp, node, env)
        self.inlined_used: set = set()
        self.contracts_used: set = set()
        self.skip_post_init: set = set()

    def copy(self) -> "Registry":
        r = Registry()
        for k, v in self.__dict__.items():
            setattr(r, k, v.copy() if isinstance(v, (dict, set)) else v)
        return r


class Interp:
    def __init__(self, repo: Repo, reg: Registry, ctx: Ctx):
        self.repo = repo
        self.reg = reg
        self.ctx = ctx
        self.exc_stack: List[SExc] = []  # exceptions currently being handled (for bare `raise`)
        self.call_depth = 0
        self.cur_fn: List[str] = []
        self._module_cache: Dict[tuple, Any] = {}

    # ================================================================== exceptions
    def exc_parent(self, name: str) -> Optional[str]:
        name = _ALIASES.get(name, name)
        if name in BUILTIN_EXC:
            p = BUILTIN_EXC[name]
            return _ALIASES.get(p, p) if p else None
        ci = self.repo.find_class(name)
        if ci and ci.bases:
            return ci.bases[0].split(".")[-1]
        return "Exception"

    def exc_isinstance(self, cls: str, target: str) -> bool:
        cls = _ALIASES.get(cls, cls)
        target = _ALIASES.get(target, target)
        seen = 0
        while cls is not None and seen < 50:
            if cls == target:
                return True
            cls = self.exc_parent(cls)
            seen += 1
        return False

    def is_exc_class(self, name: str) -> bool:
        name = _ALIASES.get(name, name)
        if name in BUILTIN_EXC:
            return True
        ci = self.repo.find_class(name)
        seen = 0
        while ci is not None and seen < 20:
            for b in ci.bases:
                bn = b.split(".")[-1]
                if bn in BUILTIN_EXC or bn in _ALIASES:
                    return True
            nxt = None
            for b in ci.bases:
                nxt = self.repo.find_class(b.split(".")[-1])
                if nxt:
                    break
            ci = nxt
            seen += 1
        return False

    def raise_(self, cls: str, origin: str = "", cause=None, **fields):
        raise PyRaise(SExc(cls, cause=cause, fields=fields, origin=origin))

    # ================================================================== module-level names
    def module_value(self, modname: str, name: str):
        key = (modname, name)
        if key in self._module_cache:
            return self._module_cache[key]
        mi = self.repo.modules.get(modname)
        val = _MISSING
        if mi is not None:
            if name in mi.functions:
                val = FuncVal(modname, name, mi.functions[name])
            elif name in mi.classes:
                val = self.class_value(mi.classes[name])
            elif name in mi.constants:
                override = self.reg.modconsts.get(f"{modname}.{name}", _MISSING)
                if override is not _MISSING:
                    val = override
                else:
                    val = self.eval(mi.constants[name], Env(modname))
            elif name in mi.imports:
                src, attr = mi.imports[name]
                if src.startswith("."):
                    target = src.lstrip(".")
                    if attr is None:
                        val = ModuleVal(target)
                    elif target == "":
                        val = ModuleVal(attr)  # from . import x
                    else:
                        val = self.module_value(target, attr)
                else:
                    full = src if attr is None else f"{src}.{attr}"
                    val = self.external_value(full)
        if val is _MISSING:
            if name in self.reg.builtins:
                val = self.reg.builtins[name]
            elif name in BUILTIN_EXC or name in _ALIASES:
                val = ClassVal(_ALIASES.get(name, name), builtin_exc=True)
            else:
                raise Unsupported(f"unresolved name {name!r} in module {modname}")
        self._module_cache[key] = val
        return val

    def external_value(self, full: str):
        if full in self.reg.modconsts:
            return self.reg.modconsts[full]
        if full == "struct.error":
            return ClassVal("struct.error", builtin_exc=True)
        last = full.split(".")[-1]
        if last in BUILTIN_EXC and (full.startswith("botocore") or full.startswith("pyarrow") or full.startswith("json")):
            return ClassVal(last, builtin_exc=True)
        if full.startswith("typing.") or full == "typing" or full.startswith("abc."):
            return Ignored("typing")
        return ModuleVal(full)

    def class_value(self, ci: ClassInfo) -> ClassVal:
        return ClassVal(ci.name, ci, builtin_exc=False)

    # ================================================================== expressions
    def eval(self, node: ast.expr, env: Env):
        m = getattr(self, "e_" + type(node).__name__, None)
        if m is None:
            raise Unsupported(f"expression {type(node).__name__} at line {getattr(node, 'lineno', '?')}")
        try:
            return m(node, env)
        except PyExc as pe:
            raise PyRaise(SExc(pe.cls, origin=f"line {getattr(node, 'lineno', '?')}: {pe.msg}"))

    def e_Constant(self, node, env):
        return node.value

    def e_Name(self, node, env):
        ok, v = env.lookup(node.id)
        if ok:
            return v
        return self.module_value(env.module, node.id)

    def e_NamedExpr(self, node, env):
        v = self.eval(node.value, env)
        env.set(node.target.id, v)
        return v

    def e_Tuple(self, node, env):
        return tuple(self.eval_elts(node.elts, env))

    def e_List(self, node, env):
        return PList(self.eval_elts(node.elts, env))

    def e_Set(self, node, env):
        items = self.eval_elts(node.elts, env)
        if all(is_concrete(x) for x in items):
            return PSet(list(dict.fromkeys(items)))
        return PSet(items)

    def eval_elts(self, elts, env):
        out = []
        for e in elts:
            if isinstance(e, ast.Starred):
                v = self.eval(e.value, env)
                out.extend(self.iter_concrete(v))
            else:
                out.append(self.eval(e, env))
        return out

    def e_Dict(self, node, env):
        d = {}
        for k, v in zip(node.keys, node.values):
            if k is None:
                inner = self.eval(v, env)
                if not isinstance(inner, PDict):
                    raise Unsupported("** of non-concrete dict")
                d.update(inner.d)
                continue
            kv = self.eval(k, env)
            if not is_concrete(kv):
                raise Unsupported("dict literal with symbolic key")
            d[kv] = self.eval(v, env)
        return PDict(d)

    def e_JoinedStr(self, node, env):
        parts = []
        for p in node.values:
            if isinstance(p, ast.Constant):
                parts.append(p.value)
            elif isinstance(p, ast.FormattedValue):
                v = self.eval(p.value, env)
                if p.conversion != -1 or p.format_spec is not None:
                    parts.append(SStr(self.ctx.fresh_str("fmt")))
                else:
                    parts.append(self.to_str(v))
        if all(isinstance(x, str) for x in parts):
            return "".join(parts)
        return pyops.mk_str(z3.Concat(*[pyops.str_z(x) for x in parts])) if len(parts) > 1 else parts[0]

    def to_str(self, v):
        """str(v)"""
        if isinstance(v, str) or isinstance(v, SStr):
            return v
        if isinstance(v, bool):
            return str(v)
        if isinstance(v, int):
            return str(v)
        if isinstance(v, SInt):
            return pyops.mk_str(pyops.int_to_str_z(v.z))
        if isinstance(v, SBool):
            return SStr(z3.If(v.z, z3.StringVal("True"), z3.StringVal("False")))
        if v is None:
            return "None"
        if isinstance(v, float):
            return str(v)
        if isinstance(v, EnumVal):
            return f"{v.cls}.{v.name}"
        if isinstance(v, SOpt):
            if self.ctx.decide(v.isnone, "str(opt)"):
                return "None"
            return self.to_str(v.val)
        if isinstance(v, TheoryObj) and (v.theory, "__str__") in self.reg.theory_methods:
            return self.reg.theory_methods[(v.theory, "__str__")](self, v, [], {})
        # anything else: an unconstrained string
        return SStr(self.ctx.fresh_str("str"))

    def e_UnaryOp(self, node, env):
        v = self.eval(node.operand, env)
        if isinstance(node.op, ast.Not):
            t = self.truth(v)
            return pyops.mk_bool(pyops.py_not(t))
        if isinstance(node.op, ast.USub):
            return pyops.py_neg(self.force(v))
        if isinstance(node.op, ast.UAdd):
            return self.force(v)
        if isinstance(node.op, ast.Invert):
            v = self.force(v)
            if _overloaded(v):
                return self.call_method(v, "__invert__", [], {})
            if isinstance(v, int):
                return ~v
            raise Unsupported("~ on symbolic")
        raise Unsupported("unary op")

    def force_opt_truth(self, v):
        return v

    def force(self, v):
        """Resolve an optional to None or its payload (forks)."""
        while isinstance(v, SOpt):
            if self.ctx.decide(v.isnone, "is-none"):
                return None
            v = v.val
        return v

    def e_BoolOp(self, node, env):
        is_and = isinstance(node.op, ast.And)
        if getattr(self, "pure_depth", 0):
            # pointwise evaluation on a bound variable (T-forest): no forking, all operands must be boolean-valued
            terms = []
            for sub in node.values:
                v = self.force(self.eval(sub, env))
                if not isinstance(v, (bool, SBool)):
                    raise Unsupported("pure evaluation of and/or over non-boolean operands")
                terms.append(pyops.bool_z(pyops.truth(v)))
            return pyops.mk_bool(z3.And(*terms) if is_and else z3.Or(*terms))
        last = None
        for i, sub in enumerate(node.values):
            last = self.eval(sub, env)
            if i == len(node.values) - 1:
                return last
            t = self.decide_truth(last)
            if is_and and not t:
                return last
            if (not is_and) and t:
                return last
        return last

    def truth(self, v):
        """truthiness -> python bool or z3 Bool (collections of unknown size included)"""
        if isinstance(v, TheoryObj) and v.theory == "symiter":
            return self.symiter_nonempty(v)
        if isinstance(v, TheoryObj) and v.theory == "reflist":
            from .theories import forest
            return forest.b_len(self, v).z > 0
        if isinstance(v, TheoryObj) and v.theory == "acc":
            # emptiness of an accumulator of unknown history is not known
            return self.ctx.fresh_bool("acc_nonempty")
        if isinstance(v, SOpt) and isinstance(v.val, TheoryObj):
            return z3.And(z3.Not(v.isnone), pyops.bool_z(self.truth(v.val)))
        return pyops.truth(v)

    def decide_truth(self, v) -> bool:
        t = self.truth(v)
        if isinstance(t, bool):
            return t
        if getattr(self, "pure_depth", 0):
            raise Unsupported("control flow depending on the bound element inside a pointwise (pure) evaluation")
        return self.ctx.decide(t, "truth")

    def e_IfExp(self, node, env):
        if getattr(self, "pure_depth", 0):
            t = self.truth(self.eval(node.test, env))
            if not isinstance(t, bool):
                a, b = self.force(self.eval(node.body, env)), self.force(self.eval(node.orelse, env))
                if isinstance(a, (int, SInt)) and isinstance(b, (int, SInt)) and not isinstance(a, bool) and not isinstance(b, bool):
                    return SInt(z3.If(t, pyops.int_z(a), pyops.int_z(b)))
                raise Unsupported("pure evaluation of a conditional expression over non-integers")
        if self.decide_truth(self.eval(node.test, env)):
            return self.eval(node.body, env)
        return self.eval(node.orelse, env)

    def e_BinOp(self, node, env):
        a = self.force(self.eval(node.left, env))
        b = self.force(self.eval(node.right, env))
        op = _BINOPS.get(type(node.op))
        if op is None:
            raise Unsupported(f"binary operator {type(node.op).__name__}")
        if _overloaded(a) or _overloaded(b):
            recv, other, name = (a, b, _DUNDER[op]) if _overloaded(a) else (b, a, _RDUNDER[op])
            return self.call_method(recv, name, [other], {})
        issym = lambda v: isinstance(v, TheoryObj) and v.theory == "symiter"
        if op == "+" and (issym(a) or issym(b)) and all(issym(v) or isinstance(v, PList) for v in (a, b)):
            return self.symiter_concat(a, b)
        if op == "%" and pyops.is_strlike(a):
            return SStr(self.ctx.fresh_str("pct"))
        return pyops.py_binop(op, a, b, self.ctx)

    def e_Compare(self, node, env):
        left = self.eval(node.left, env)
        result = True
        for i, (op, rnode) in enumerate(zip(node.ops, node.comparators)):
            right = self.eval(rnode, env)
            r = self.compare(op, left, right)
            if i == len(node.ops) - 1:
                if result is True:
                    return r if not isinstance(r, z3.ExprRef) else pyops.mk_bool(r)
                return pyops.mk_bool(pyops._conj([result, r if isinstance(r, bool) else pyops.bool_z(pyops.truth(r))]))
            # chained: short-circuit
            t = pyops.truth(r)
            if isinstance(t, bool):
                if not t:
                    return r
            else:
                if not self.ctx.decide(t, "chain"):
                    return False
            left = right
        return result

    def compare(self, op, a, b):
        """-> python bool, SBool, or other value (opaque comparisons)"""
        if isinstance(op, (ast.Is, ast.IsNot)):
            r = self.py_is(a, b)
            return pyops.mk_bool(pyops.py_not(r) if isinstance(op, ast.IsNot) else r)
        if isinstance(op, (ast.In, ast.NotIn)):
            r = self.contains(b, a)
            return pyops.mk_bool(pyops.py_not(r) if isinstance(op, ast.NotIn) else r)
        if _overloaded(a) or _overloaded(b):
            sym = _CMPNAME[type(op)]
            if _overloaded(a):
                return self.call_method(a, _DUNDER[sym], [b], {})
            return self.call_method(b, _RDUNDER[sym], [a], {})
        if isinstance(op, ast.Eq):
            return pyops.mk_bool(pyops.py_eq(a, b))
        if isinstance(op, ast.NotEq):
            return pyops.mk_bool(pyops.py_not(pyops.py_eq(a, b)))
        sym = _CMPNAME[type(op)]
        a, b = self.force(a), self.force(b)
        if a is None or b is None:
            raise PyExc("TypeError", "ordering with None")
        return pyops.mk_bool(pyops.py_order(sym, a, b))

    def py_is(self, a, b):
        if isinstance(a, SOpt) and b is None:
            return a.isnone
        if isinstance(b, SOpt) and a is None:
            return b.isnone
        if a is None or b is None:
            return a is None and b is None
        if isinstance(a, bool) and isinstance(b, bool):
            return a is b
        if isinstance(a, SBool) and isinstance(b, bool):
            return a.z if b else z3.Not(a.z)
        if isinstance(b, SBool) and isinstance(a, bool):
            return b.z if a else z3.Not(b.z)
        if isinstance(a, (EnumVal, ClassVal)) or isinstance(b, (EnumVal, ClassVal)):
            return a == b
        if isinstance(a, SRef) and isinstance(b, SRef):
            return a.z == b.z
        return a is b

    def contains(self, container, item):
        """item in container -> python bool or z3 Bool"""
        container = self.force(container)
        if isinstance(container, (tuple, frozenset, list, set)):
            return pyops._disj([pyops.py_eq(item, x) for x in container])
        if isinstance(container, (PList, PSet)):
            return pyops._disj([pyops.py_eq(item, x) for x in container.items])
        if isinstance(container, PDict):
            sym = getattr(container, "sym_items", [])
            if is_concrete(item) and not sym:
                try:
                    return item in container.d
                except TypeError:
                    raise PyExc("TypeError")
            return pyops._disj([pyops.py_eq(item, k) for k in list(container.d) + [k for k, _v in sym]])
        if isinstance(container, SSetZ):
            it = self.force(item)
            if it is None:
                return False
            return z3.IsMember(to_z3(it), container.z)
        if isinstance(container, SMapZ):
            it = self.force(item)
            if it is None:
                return False
            return z3.Select(container.has, to_z3(it))
        if isinstance(container, SSeq):
            it = self.force(item)
            return z3.Contains(container.z, z3.Unit(to_z3(it)))
        if pyops.is_strlike(container) and pyops.is_strlike(item):
            if isinstance(container, str) and isinstance(item, str):
                return item in container
            return z3.Contains(pyops.str_z(container), pyops.str_z(item))
        if isinstance(container, TheoryObj) and container.theory == "symiter":
            # membership in a collection of unknown content: free, except through designated witnesses
            r = self.ctx.fresh_bool("in_symiter")
            it = self.force(item)
            for w, inlist in container.fields.get("witnesses", []):
                e = pyops.py_eq(it, w)
                self.ctx.assume(z3.Implies(pyops.bool_z(e), r == inlist))
            return r
        if isinstance(container, (TheoryObj, SOpaque)):
            return pyops.truth(self.call_method(container, "__contains__", [item], {}))
        raise Unsupported(f"'in' on {type(container).__name__}")

    def e_Attribute(self, node, env):
        base = self.eval(node.value, env)
        return self.getattr(base, node.attr)

    def getattr(self, base, attr: str):
        if isinstance(base, SOpt):
            base = self.force(base)
        if base is None:
            raise PyExc("AttributeError", f"None.{attr}")
        if isinstance(base, SObj):
            if attr in base.fields:
                return base.fields[attr]
            ci = self.repo.find_class(base.cls)
            if ci is not None:
                found = self.repo.lookup_method(ci, attr)
                if found:
                    owner, fn, kind = found
                    fv = FuncVal(owner.module, f"{owner.name}.{attr}", fn, bound_self=base, owner_cls=owner.name)
                    if kind == "property":
                        return self.call_funcval(fv, [], {})
                    if attr in owner.static:
                        fv.bound_self = None
                    elif attr in owner.classmeth:
                        fv.bound_self = self.class_value(ci)
                    return fv
                for c in self.repo.mro(ci):
                    if attr in c.class_attrs:
                        return self.eval(c.class_attrs[attr], Env(c.module))
                if ci.is_dataclass:
                    for fname, _d, _f in ci.dc_fields:
                        if fname == attr:
                            v = self.default_field_value(ci, attr)
                            base.fields[attr] = v
                            return v
                init = self.init_default(ci, attr)
                if init is not _MISSING:
                    base.fields[attr] = init
                    self.ctx.use(f"A-init: field {base.cls}.{attr} unknown to the harness, taken at its __init__ value")
                    return init
            raise Unsupported(f"attribute {base.cls}.{attr} not modelled (object {base.label})")
        if isinstance(base, SRef):
            cb = base.cls.split("@", 1)[0]
            if (cb, attr) not in self.heap_schema() and (cb, attr) in self.reg.methods:
                return BoundMethod(base, attr)
            return self.heap_get(base, attr)
        if isinstance(base, ModuleVal):
            full = f"{base.name}.{attr}"
            if base.name in self.repo.modules:
                return self.module_value(base.name, attr)
            return self.external_value(full)
        if isinstance(base, ClassVal):
            if base.info is not None:
                ci = base.info
                if ci.is_enum and attr in ci.enum_members:
                    return EnumVal(ci.name, attr, ci.enum_members[attr])
                found = self.repo.lookup_method(ci, attr)
                if found:
                    owner, fn, kind = found
                    fv = FuncVal(owner.module, f"{owner.name}.{attr}", fn, owner_cls=owner.name)
                    if attr in owner.classmeth:
                        fv.bound_self = base
                    return fv
                for c in self.repo.mro(ci):
                    if attr in c.class_attrs:
                        return self.eval(c.class_attrs[attr], Env(c.module))
            key = (f"class:{base.name}", attr)
            if key in self.reg.theory_attrs:
                return self.reg.theory_attrs[key](self, base)
            return BoundMethod(base, attr)
        if isinstance(base, EnumVal):
            if attr == "value":
                return base.value
            if attr == "name":
                return base.name
        if isinstance(base, TheoryObj) and base.theory == "super":
            ci = self.repo.find_class(base.fields["cls"])
            mro = self.repo.mro(ci) if ci else []
            for cnext in mro[1:]:
                if attr in cnext.methods:
                    return FuncVal(cnext.module, f"{cnext.name}.{attr}", cnext.methods[attr], bound_self=base.fields["obj"], owner_cls=cnext.name)
            raise Unsupported(f"super().{attr} not found above {base.fields['cls']}")
        if isinstance(base, TheoryObj):
            key = (base.theory, attr)
            if key in self.reg.theory_attrs:
                return self.reg.theory_attrs[key](self, base)
            if attr in base.fields:
                return base.fields[attr]
            return BoundMethod(base, attr)
        if isinstance(base, SExc):
            if attr in base.fields:
                return base.fields[attr]
            if attr == "args":
                return base.args
            if attr == "__cause__":
                return base.cause
            if attr in ("errno", "winerror") and self.exc_isinstance(base.cls, "OSError"):
                v = SOpt(self.ctx.fresh_bool("errno_none"), SInt(self.ctx.fresh_int("errno")))
                base.fields[attr] = v
                return v
            if attr in ("strerror", "filename"):
                v = SOpt(self.ctx.fresh_bool(attr + "_none"), SStr(self.ctx.fresh_str(attr)))
                base.fields[attr] = v
                return v
            raise Unsupported(f"exception attribute {attr} of {base.cls}")
        if isinstance(base, Ignored):
            return Ignored(base.what)
        if isinstance(base, FuncVal):
            raise Unsupported(f"function attribute {attr}")
        # str / list / dict / ... methods
        return BoundMethod(base, attr)

    def init_default(self, ci: ClassInfo, attr: str):
        """value assigned to self.<attr> by the class's __init__ when it is a literal / empty container"""
        for c in self.repo.mro(ci):
            fn = c.methods.get("__init__")
            if fn is None:
                continue
            for sub in ast.walk(fn):
                tgt = None
                if isinstance(sub, ast.Assign) and len(sub.targets) == 1:
                    tgt, val = sub.targets[0], sub.value
                elif isinstance(sub, ast.AnnAssign) and sub.value is not None:
                    tgt, val = sub.target, sub.value
                if tgt is not None and isinstance(tgt, ast.Attribute) and isinstance(tgt.value, ast.Name) and tgt.value.id == "self" and tgt.attr == attr:
                    if ci.name in getattr(self.reg, "stale_state", ()) and isinstance(sub, ast.AnnAssign):
                        # the harness analyses a method that runs on an object used before (e.g. once per commit attempt): a
                        # field it did not set holds whatever an earlier call left there, not the constructor's value
                        srca = ast.unparse(sub.annotation)
                        c = self.ctx
                        nm = f"{ci.name}.{attr}"
                        mk1 = {"int": lambda: SInt(c.fresh_int(nm)), "bool": lambda: SBool(c.fresh_bool(nm)), "str": lambda: SStr(c.fresh_str(nm))}
                        if srca in mk1:
                            self.ctx.use(f"stale-state: {nm} not set by the harness -> arbitrary (left by an earlier call)")
                            return mk1[srca]()
                        if srca.startswith("Optional[") and srca[9:-1] in mk1:
                            self.ctx.use(f"stale-state: {nm} not set by the harness -> arbitrary (left by an earlier call)")
                            return SOpt(c.fresh_bool(nm + "_none"), mk1[srca[9:-1]]())
                        # any other annotated field (tuples, dicts, lists, objects): an arbitrary value left by an earlier call;
                        # indexing / comparing / listing it yields arbitrary results (theory 'stale')
                        self.ctx.use(f"stale-state: {nm} not set by the harness -> arbitrary value of unknown shape (left by an earlier call)")
                        vkind = None
                        mdict = __import__("re").match(r"^(?:Optional\[)?(?:Dict|dict)\[.*,\s*(str|int|bool)\s*\]\]?$", srca)
                        if mdict:
                            vkind = mdict.group(1)
                        stale = TheoryObj("stale", label=nm, fields={"__overloads__": True, "vkind": vkind})
                        return SOpt(c.fresh_bool(nm + "_none"), stale) if srca.startswith("Optional[") else stale
                    try:
                        lit = ast.literal_eval(val)
                    except Exception:
                        if isinstance(val, ast.Call) and isinstance(val.func, ast.Name) and val.func.id in ("dict", "list", "set") and not val.args:
                            lit = {"dict": {}, "list": [], "set": set()}[val.func.id]
                        else:
                            return _MISSING
                    if isinstance(lit, dict):
                        return PDict(lit)
                    if isinstance(lit, list):
                        return PList(lit)
                    if isinstance(lit, set):
                        return PSet(list(lit))
                    return lit
        return _MISSING

    def default_field_value(self, ci: ClassInfo, attr: str):
        """An unconstrained value for a dataclass field the harness did not set, typed by the field's annotation."""
        ann = None
        for item in ci.node.body:
            if isinstance(item, ast.AnnAssign) and isinstance(item.target, ast.Name) and item.target.id == attr:
                ann = item.annotation
        c = self.ctx

        def mk(a, nm):
            src = ast.unparse(a) if a is not None else "Any"
            if src == "str":
                return SStr(c.fresh_str(nm))
            if src == "int":
                return SInt(c.fresh_int(nm))
            if src == "bool":
                return SBool(c.fresh_bool(nm))
            if src == "bytes":
                return SBytes(c.fresh_str(nm))
            if src.startswith("Optional[") and isinstance(a, ast.Subscript):
                return SOpt(c.fresh_bool(nm + "_none"), mk(a.slice, nm))
            if src.startswith(("Dict[", "dict")):
                return TheoryObj("symdict", label=nm)
            if src.startswith(("List[", "list")):
                return TheoryObj("symiter", label=nm, fields={"mk": lambda I2: SOpaque("pyobject", I2.ctx.fresh("elem", usort_("pyobject")))})
            return SOpaque("pyobject", c.fresh(nm, usort_("pyobject")))
        return mk(ann, f"{ci.name}.{attr}")

    def e_Subscript(self, node, env):
        base = self.force(self.eval(node.value, env))
        if isinstance(node.slice, ast.Slice):
            lo = self.eval(node.slice.lower, env) if node.slice.lower is not None else None
            hi = self.eval(node.slice.upper, env) if node.slice.upper is not None else None
            if node.slice.step is not None:
                raise Unsupported("slice step")
            return self.slice(base, lo, hi)
        idx = self.eval(node.slice, env)
        return self.index(base, idx)

    def index(self, base, idx):
        if isinstance(base, Ignored):
            return Ignored(base.what)
        if isinstance(base, PDict) and getattr(base, "sym_items", None):
            idx = self.force(idx)
            for k, v in base.sym_items:
                e = pyops.py_eq(idx, k)
                if (e if isinstance(e, bool) else self.ctx.decide(e, "dict-symkey")):
                    return v
        if isinstance(base, PDict):
            idx = self.force(idx)
            if is_concrete(idx):
                try:
                    present = idx in base.d
                except TypeError:
                    raise PyExc("TypeError")
                if present:
                    return base.d[idx]
                raise PyExc("KeyError", repr(idx))
            # symbolic key over concrete dict: fork over keys
            keys = list(base.d.keys())
            for k in keys:
                e = pyops.py_eq(idx, k)
                if isinstance(e, bool):
                    if e:
                        return base.d[k]
                    continue
                if self.ctx.decide(e, "dict-key"):
                    return base.d[k]
            raise PyExc("KeyError")
        if isinstance(base, (PList, tuple)):
            items = base.items if isinstance(base, PList) else base
            idx = self.force(idx)
            if isinstance(idx, bool):
                idx = int(idx)
            if isinstance(idx, int):
                try:
                    return items[idx]
                except IndexError:
                    raise PyExc("IndexError")
            if isinstance(idx, SInt):
                n = len(items)
                for k in range(-n, n):
                    if self.ctx.decide(idx.z == k, "list-idx"):
                        return items[k]
                raise PyExc("IndexError")
            raise PyExc("TypeError")
        if isinstance(base, SSeq):
            idx = self.force(idx)
            i = pyops.int_z(idx)
            n = z3.Length(base.z)
            if self.ctx.decide(z3.And(i >= 0, i < n), "seq-idx"):
                return wrap(base.kind, base.z[i])
            if self.ctx.decide(z3.And(i < 0, i >= -n), "seq-negidx"):
                return wrap(base.kind, base.z[n + i])
            raise PyExc("IndexError")
        if isinstance(base, SMapZ):
            k = to_z3(self.force(idx))
            if not self.ctx.decide(z3.Select(base.has, k), "map-has"):
                raise PyExc("KeyError")
            return self.map_value(base, k)
        if pyops.is_strlike(base) or pyops.is_byteslike(base):
            idx = self.force(idx)
            if not isinstance(base, Sym) and isinstance(idx, int):
                try:
                    return base[idx]
                except IndexError:
                    raise PyExc("IndexError")
            s = pyops.str_z(base)
            i = pyops.int_z(idx)
            n = z3.Length(s)
            if self.ctx.decide(z3.And(i >= 0, i < n), "str-idx"):
                ch = z3.SubString(s, i, 1)
                if pyops.is_byteslike(base):
                    return SInt(z3.StrToCode(ch))
                return SStr(ch)
            if self.ctx.decide(z3.And(i < 0, i >= -n), "str-negidx"):
                ch = z3.SubString(s, n + i, 1)
                if pyops.is_byteslike(base):
                    return SInt(z3.StrToCode(ch))
                return SStr(ch)
            raise PyExc("IndexError")
        if isinstance(base, TheoryObj) and base.theory == "symiter" and ("symiter", "__getitem__") not in self.reg.theory_methods:
            # some element of a collection of unknown content (nothing is known about which one)
            if not self.ctx.decide(self.symiter_nonempty(base), "symiter-index-nonempty"):
                raise PyExc("IndexError")
            first_or_last = isinstance(self.force(idx), int) and self.force(idx) in (0, -1)
            if not first_or_last and self.ctx.flip("symiter-index-out-of-range"):     # l[0] / l[-1] exist in a non-empty list
                raise PyExc("IndexError")
            return base.fields["mk"](self)
        if isinstance(base, (TheoryObj, SOpaque)):
            return self.call_method(base, "__getitem__", [idx], {})
        raise Unsupported(f"subscript on {type(base).__name__}")

    def map_value(self, m: SMapZ, k):
        if isinstance(m.vkind, tuple) and m.vkind[0] == "opt":
            return SOpt(z3.Select(m.valnone, k), wrap(m.vkind[1], z3.Select(m.val, k)))
        return wrap(m.vkind, z3.Select(m.val, k))

    def slice(self, base, lo, hi):
        lo, hi = self.force(lo), self.force(hi)
        if isinstance(base, TheoryObj) and base.theory == "reflist":
            return self.reg.builtins["__reflist_slice__"].fn(self, base, lo, hi)
        if isinstance(base, (PList, tuple)) and (lo is None or isinstance(lo, int)) and (hi is None or isinstance(hi, int)):
            items = base.items if isinstance(base, PList) else base
            out = items[lo:hi]
            return PList(out) if isinstance(base, PList) else tuple(out)
        if not isinstance(base, Sym) and isinstance(base, (str, bytes)) and (lo is None or isinstance(lo, int)) \
                and (hi is None or isinstance(hi, int)):
            return base[lo:hi]
        if pyops.is_strlike(base) or pyops.is_byteslike(base) or isinstance(base, SSeq):
            s = base.z if isinstance(base, SSeq) else pyops.str_z(base)
            n = z3.Length(s)

            def norm(v, default):
                if v is None:
                    return default
                z = pyops.int_z(v)
                z = z3.If(z < 0, z + n, z)
                return z3.If(z < 0, z3.IntVal(0), z3.If(z > n, n, z))
            a = norm(lo, z3.IntVal(0))
            b = norm(hi, n)
            ln = z3.If(b > a, b - a, z3.IntVal(0))
            r = z3.Extract(s, a, ln) if isinstance(base, SSeq) else z3.SubString(s, a, ln)
            if isinstance(base, SSeq):
                return SSeq(base.kind, z3.simplify(r))
            if pyops.is_byteslike(base):
                return SBytes(z3.simplify(r))
            return pyops.mk_str(r)
        if isinstance(base, PList):
            # concrete list, symbolic bounds -> fork over concrete bounds
            n = len(base.items)

            def conc(v, default):
                if v is None:
                    return default
                if isinstance(v, int):
                    return v
                for k in range(-n - 1, n + 2):
                    if self.ctx.decide(v.z == k, "slice-bound"):
                        return k
                if self.ctx.decide(v.z > n, "slice-big"):
                    return n + 1
                return -n - 1
            return PList(base.items[conc(lo, None):conc(hi, None)])
        raise Unsupported(f"slice of {type(base).__name__}")

    def e_Lambda(self, node, env):
        return FuncVal(env.module, f"{env.fn}.<lambda@{node.lineno}>", node, closure=env)

    def reflist_comp(self, what, node, env):
        if len(node.generators) == 1:
            itv = self.force(self.eval(node.generators[0].iter, env))
            if isinstance(itv, TheoryObj) and itv.theory == "reflist":
                return self.reg.builtins["__reflist_comprehension__"].fn(self, what, node, itv, env)
        return None

    def e_ListComp(self, node, env):
        r = self.reflist_comp("list", node, env)
        if r is not None:
            return r
        if len(node.generators) == 1:
            itv = self.force(self.eval(node.generators[0].iter, env))
            if isinstance(itv, TheoryObj) and itv.theory == "symiter":
                return self.symiter_comprehension(node, env, itv)
        return PList(self._comp(node, env, lambda e: self.eval(node.elt, e)))

    def e_GeneratorExp(self, node, env):
        r = self.reflist_comp("gen", node, env)
        if r is not None:
            return r
        if len(node.generators) == 1:
            g = node.generators[0]
            itv = self.force(self.eval(g.iter, env))
            if isinstance(itv, TheoryObj) and itv.theory == "acc":
                from . import acc as _accmod
                itv = _accmod.as_symiter(self, itv)
            if isinstance(itv, TheoryObj) and itv.theory == "symiter":
                # generator over a collection of unknown size: consumed by any()/all() (see pybuiltins)
                return TheoryObj("symgen", fields={"node": node, "env": env, "iter": itv})
        return PList(self._comp(node, env, lambda e: self.eval(node.elt, e)))

    def symiter_concat(self, a, b):
        """l1 + l2 where at least one side is a list of unknown size: an arbitrary element of the result is an arbitrary
        element of one of the sides (order is not modelled)"""
        sides = [a, b]

        def ne_of(v):
            return self.symiter_nonempty(v) if isinstance(v, TheoryObj) else z3.BoolVal(len(v.items) > 0)
        out = TheoryObj("symiter", fields={"witnesses": [w for v in sides if isinstance(v, TheoryObj) for w in v.fields.get("witnesses", [])],
                                           "nonempty": z3.Or(ne_of(a), ne_of(b)), "parts": sides})

        def mk(I):
            k = I.ctx.choose(2, "concat-side")
            v = sides[k]
            if isinstance(v, TheoryObj):
                I.ctx.assume(ne_of(v))
                return v.fields["mk"](I)
            if not v.items:
                raise PathEnd()
            return v.items[I.ctx.choose(len(v.items), "concat-item")]
        out.fields["mk"] = mk
        return out

    def symiter_nonempty(self, it: TheoryObj):
        """z3 Bool: the collection has at least one element (free, except that a member witness implies it)."""
        ne = it.fields.get("nonempty")
        if ne is None:
            ne = self.ctx.fresh_bool("nonempty")
            it.fields["nonempty"] = ne
            for _w, inlist in it.fields.get("witnesses", []):
                self.ctx.assume(z3.Implies(inlist, ne))
        return ne

    def symiter_comprehension(self, node, env, src: TheoryObj):
        """[elt for x in S if conds] over a collection S of unknown size: another such collection.
        The element expression is evaluated ONCE, now, on an arbitrary element of S passing the conditions (so that every
        exception and side effect an element can cause happens where Python would raise it); that value is the arbitrary
        element of the result.  witnesses: (elt(w), inlist(w) and conds(w)); non-emptiness: free, implied by a member
        witness, implies S non-empty."""
        g = node.generators[0]
        wit = []
        for w, inlist in src.fields.get("witnesses", []):
            e2 = Env(env.module, parent=env, fn=env.fn)
            self.assign(g.target, w, e2)
            conds = []
            for cond in g.ifs:
                conds.append(pyops.bool_z(pyops.truth(self.eval(cond, e2))))
            wit.append((self.eval(node.elt, e2), z3.And(inlist, *conds) if conds else inlist))
        out = TheoryObj("symiter", fields={"witnesses": wit, "parent": src})
        ne = self.symiter_nonempty(out)
        if g.ifs:
            self.ctx.assume(z3.Implies(ne, self.symiter_nonempty(src)))
        else:
            self.ctx.assume(ne == self.symiter_nonempty(src))   # no filter: one result element per source element
        rep = {}
        # is there an element of S that passes the filter?  (free; if so, evaluate the element expression on it)
        if self.ctx.decide(ne, "comprehension-nonempty"):
            a = src.fields["mk"](self)
            for pred in src.fields.get("all_satisfy", []):
                self.ctx.assume(pred(self, a))
            e2 = Env(env.module, parent=env, fn=env.fn)
            self.assign(g.target, a, e2)
            for cond in g.ifs:
                self.ctx.assume(pyops.bool_z(self.truth(self.eval(cond, e2))))
            rep["src"] = a
            rep["val"] = self.eval(node.elt, e2)
            out.fields["rep_src"] = a
            out.fields["rep"] = rep["val"]

        def mk(I):
            if "val" not in rep:
                raise PathEnd()   # the collection is empty on this path: it has no arbitrary element
            return rep["val"]
        out.fields["mk"] = mk
        return out

    def eval_gen_element(self, gen: TheoryObj, item):
        """value of the generator's element expression for one concrete/symbolic item (None if filtered out)."""
        node, env = gen.fields["node"], gen.fields["env"]
        g = node.generators[0]
        e2 = Env(env.module, parent=env, fn=env.fn)
        self.assign(g.target, item, e2)
        for cond in g.ifs:
            if not self.decide_truth(self.eval(cond, e2)):
                return _MISSING
        return self.eval(node.elt, e2)

    def e_SetComp(self, node, env):
        r = self.reflist_comp("set", node, env)
        if r is not None:
            return r
        src = node.generators[0]
        if len(node.generators) == 1 and not src.ifs:
            it = self.force(self.eval(src.iter, env))
            sym = self.symbolic_comprehension("set", node, it, env)
            if sym is not None:
                return sym
        return PSet(self._comp(node, env, lambda e: self.eval(node.elt, e)))

    def e_DictComp(self, node, env):
        r = self.reflist_comp("dict", node, env)
        if r is not None:
            return r
        if len(node.generators) == 1:
            it = self.force(self.eval(node.generators[0].iter, env))
            sym = self.symbolic_comprehension("dict", node, it, env)
            if sym is not None:
                return sym
        out = {}
        for pair in self._comp(node, env, lambda e: (self.eval(node.key, e), self.eval(node.value, e))):
            k, v = pair
            if not is_concrete(k):
                raise Unsupported("dict comprehension with symbolic key")
            out[k] = v
        return PDict(out)

    def symbolic_comprehension(self, what, node, it, env):
        """Comprehensions over sequences of unknown length are given by theory hooks (heap theories)."""
        hook = self.reg.builtins.get("__symbolic_comprehension__")
        if hook is not None and isinstance(it, (SSeq, SSetZ, SMapZ)):
            return hook.fn(self, what, node, it, env)
        return None

    def _comp(self, node, env, mk):
        out = []

        def rec(gi, e):
            if gi == len(node.generators):
                out.append(mk(e))
                return
            g = node.generators[gi]
            itv = self.force(self.eval(g.iter, e))
            if isinstance(itv, (SSeq, SSetZ, SMapZ)):
                raise Unsupported("comprehension over a collection of unknown size (needs a theory hook)")
            for item in self.iter_concrete(itv):
                e2 = Env(e.module, parent=e, fn=e.fn)
                self.assign(g.target, item, e2)
                ok = True
                for cond in g.ifs:
                    if not self.decide_truth(self.eval(cond, e2)):
                        ok = False
                        break
                if ok:
                    rec(gi + 1, e2)
        rec(0, Env(env.module, parent=env, fn=env.fn))
        return out

    def iter_concrete(self, v) -> list:
        v = self.force(v)
        if isinstance(v, (tuple, list)):
            return list(v)
        if isinstance(v, frozenset):
            return sorted(v, key=repr)
        if isinstance(v, PList):
            return list(v.items)
        if isinstance(v, PSet):
            return list(v.items)
        if isinstance(v, PDict):
            return list(v.d.keys())
        if isinstance(v, str):
            return list(v)
        if isinstance(v, range):
            return list(v)
        if isinstance(v, (TheoryObj, SOpaque)):
            r = self.call_method(v, "__iter__", [], {})
            return self.iter_concrete(r)
        raise Unsupported(f"iteration over {type(v).__name__}")

    def e_Starred(self, node, env):
        raise Unsupported("starred expression")

    def e_Await(self, node, env):
        raise Unsupported("await")

    def e_Yield(self, node, env):
        hook = self.reg.builtins.get("__yield__")
        if hook is None:
            raise Unsupported("yield (generator) without a generator theory")
        return hook.fn(self, [self.eval(node.value, env) if node.value is not None else None], {})

    def e_YieldFrom(self, node, env):
        hook = self.reg.builtins.get("__yield_from__")
        if hook is None:
            raise Unsupported("yield from without a generator theory")
        return hook.fn(self, [self.eval(node.value, env)], {})

    # ================================================================== calls
    def e_Call(self, node, env):
        # logger.* calls are dropped (A-log)
        f = node.func
        if isinstance(f, ast.Attribute) and isinstance(f.value, ast.Name) and f.value.id in ("logger", "logging"):
            ok, _ = env.lookup(f.value.id)
            if not ok:
                self.ctx.use("A-log")
                return None
        fn = self.eval(node.func, env)
        if isinstance(fn, Ignored):
            return Ignored(fn.what)
        # exception constructors: message arguments are not evaluated (A-msg)
        if isinstance(fn, ClassVal) and self.is_exc_class(fn.name):
            self.ctx.use("A-msg")
            return SExc(fn.name, origin=f"{env.fn}:{node.lineno}")
        args = []
        for a in node.args:
            if isinstance(a, ast.Starred):
                args.extend(self.iter_concrete(self.eval(a.value, env)))
            else:
                args.append(self.eval(a, env))
        kwargs = {}
        for kw in node.keywords:
            if kw.arg is None:
                d = self.eval(kw.value, env)
                if not isinstance(d, PDict):
                    raise Unsupported("**kwargs of non-concrete dict")
                for k, v in d.d.items():
                    kwargs[k] = v
            else:
                kwargs[kw.arg] = self.eval(kw.value, env)
        return self.call(fn, args, kwargs, node)

    def call(self, fn, args, kwargs, node=None):
        if isinstance(fn, FuncVal):
            return self.call_funcval(fn, args, kwargs)
        if isinstance(fn, Builtin):
            return fn.fn(self, args, kwargs)
        if isinstance(fn, BoundMethod):
            return self.call_method(fn.recv, fn.name, args, kwargs)
        if isinstance(fn, ClassVal):
            return self.construct(fn, args, kwargs)
        if isinstance(fn, ModuleVal):
            h = self.reg.modfuncs.get(fn.name)
            if h is None:
                raise Unsupported(f"call to unmodelled library function {fn.name}")
            return h(self, args, kwargs)
        if isinstance(fn, (TheoryObj, SOpaque)):
            return self.call_method(fn, "__call__", args, kwargs)
        if isinstance(fn, SOpt):
            fn = self.force(fn)
            if fn is None:
                raise PyExc("TypeError", "None is not callable")
            return self.call(fn, args, kwargs, node)
        raise Unsupported(f"call of {fn!r}")

    def call_method(self, recv, name, args, kwargs):
        recv = self.force(recv) if isinstance(recv, SOpt) else recv
        if recv is None:
            raise PyExc("AttributeError", f"None.{name}")
        if isinstance(recv, TheoryObj):
            h = self.reg.theory_methods.get((recv.theory, name))
            if h is None:
                raise Unsupported(f"theory {recv.theory} has no method {name}")
            return h(self, recv, args, kwargs)
        if isinstance(recv, SOpaque):
            h = self.reg.theory_methods.get((recv.sort, name))
            if h is None:
                raise Unsupported(f"opaque sort {recv.sort} has no method {name}")
            return h(self, recv, args, kwargs)
        if isinstance(recv, ClassVal):
            h = self.reg.theory_methods.get((f"class:{recv.name}", name))
            if h is None:
                raise Unsupported(f"class {recv.name} has no modelled attribute {name}")
            return h(self, recv, args, kwargs)
        kn = _kindname(recv)
        if isinstance(recv, SRef):
            kn = recv.cls.split("@", 1)[0]     # heap objects: methods are registered for the class, not the generation
        h = self.reg.methods.get((kn, name))
        if h is None:
            pytype = {"str": str, "bytes": bytes, "int": int, "bool": bool, "float": float, "list": list, "dict": dict,
                      "set": set, "tuple": tuple}.get(kn)
            if pytype is not None and not hasattr(pytype, name):
                raise PyExc("AttributeError", f"'{kn}' object has no attribute '{name}'")
            raise Unsupported(f"method {kn}.{name} not modelled")
        return h(self, recv, args, kwargs)

    def call_funcval(self, fv: FuncVal, args, kwargs):
        if fv.bound_self is not None:
            args = [fv.bound_self] + list(args)
        ref = fv.ref
        if isinstance(fv.node, ast.Lambda) or ".<locals>." in fv.qualname and ref not in self.reg.contracts:
            return self.run_function(fv, args, kwargs)
        h = self.reg.contracts.get(ref)
        if h is not None and ref not in self.cur_fn[-1:]:
            self.reg.contracts_used.add(ref)
            return h(self, fv, args, kwargs)
        if ref in self.reg.inline or "*" in self.reg.inline:
            self.reg.inlined_used.add(ref)
            return self.run_function(fv, args, kwargs)
        raise Unsupported(f"call to {ref}: no contract and not inlinable")

    def bind_args(self, fv: FuncVal, args, kwargs, env: Env):
        a = fv.node.args
        params = [p.arg for p in a.posonlyargs + a.args]
        defaults = a.defaults
        ndef = len(defaults)
        args = list(args)
        kwargs = dict(kwargs)
        if len(args) > len(params) and a.vararg is None:
            raise PyExc("TypeError", f"too many positional arguments for {fv.qualname}")
        for i, p in enumerate(params):
            if i < len(args):
                env.set(p, args[i])
            elif p in kwargs:
                env.set(p, kwargs.pop(p))
            else:
                di = i - (len(params) - ndef)
                if di >= 0:
                    env.set(p, self.eval(defaults[di], Env(fv.module)))
                else:
                    raise PyExc("TypeError", f"missing argument {p} for {fv.qualname}")
        if a.vararg is not None:
            env.set(a.vararg.arg, tuple(args[len(params):]))
        for p, d in zip(a.kwonlyargs, a.kw_defaults):
            if p.arg in kwargs:
                env.set(p.arg, kwargs.pop(p.arg))
            elif d is not None:
                env.set(p.arg, self.eval(d, Env(fv.module)))
            else:
                raise PyExc("TypeError", f"missing keyword argument {p.arg}")
        if a.kwarg is not None:
            env.set(a.kwarg.arg, PDict(kwargs))
        elif kwargs:
            raise PyExc("TypeError", f"unexpected keyword arguments {list(kwargs)} for {fv.qualname}")

    def run_function(self, fv: FuncVal, args, kwargs):
        """Interpret the body of the real function."""
        if self.call_depth > 40:
            raise Unsupported("call depth > 40")
        env = Env(fv.module, parent=fv.closure, fn=fv.qualname)
        try:
            self.bind_args(fv, args, kwargs, env)
        except PyExc as pe:
            raise PyRaise(SExc(pe.cls, origin=f"calling {fv.qualname}: {pe.msg}"))
        self.call_depth += 1
        self.cur_fn.append(fv.ref)
        owner = fv.owner_cls or (fv.qualname.split(".")[0] if "." in fv.qualname and self.repo.find_class(fv.qualname.split(".")[0]) else None)
        self.frames = getattr(self, "frames", [])
        self.frames.append((owner, args[0] if args else None))
        try:
            if isinstance(fv.node, ast.Lambda):
                return self.eval(fv.node.body, env)
            try:
                self.exec_block(fv.node.body, env)
            except ReturnSig as r:
                return r.value
            return None
        finally:
            self.cur_fn.pop()
            self.frames.pop()
            self.call_depth -= 1

    def construct(self, cv: ClassVal, args, kwargs):
        if cv.name in self.reg.class_ctor:
            return self.reg.class_ctor[cv.name](self, cv, args, kwargs)
        ci = cv.info
        if ci is None:
            raise Unsupported(f"construction of unmodelled class {cv.name}")
        if ci.is_enum:
            (val,) = args
            val = self.force(val)
            for n, v in ci.enum_members.items():
                e = pyops.py_eq(val, v)
                if isinstance(e, bool):
                    if e:
                        return EnumVal(ci.name, n, v)
                elif self.ctx.decide(e, "enum-ctor"):
                    return EnumVal(ci.name, n, v)
            raise PyExc("ValueError", f"{val!r} is not a valid {ci.name}")
        obj = SObj(ci.name)
        if ci.is_dataclass:
            names = [f[0] for f in ci.dc_fields]
            if len(args) > len(names):
                raise PyExc("TypeError")
            kwargs = dict(kwargs)
            for i, (fname, default, factory) in enumerate(ci.dc_fields):
                if i < len(args):
                    obj.fields[fname] = args[i]
                elif fname in kwargs:
                    obj.fields[fname] = kwargs.pop(fname)
                elif default is not None:
                    obj.fields[fname] = self.eval(default, Env(ci.module))
                elif factory is not None:
                    fval = self.eval(factory, Env(ci.module))
                    obj.fields[fname] = self.call(fval, [], {})
                else:
                    raise PyExc("TypeError", f"missing field {fname}")
            if kwargs:
                raise PyExc("TypeError", f"unexpected fields {list(kwargs)}")
            found = self.repo.lookup_method(ci, "__post_init__")
            if found and ci.name not in self.reg.skip_post_init:
                owner, fn, _k = found
                self.call_funcval(FuncVal(owner.module, f"{owner.name}.__post_init__", fn, bound_self=obj), [], {})
            return obj
        found = self.repo.lookup_method(ci, "__init__")
        if found:
            owner, fn, _k = found
            self.call_funcval(FuncVal(owner.module, f"{owner.name}.__init__", fn, bound_self=obj), args, kwargs)
        return obj

    # ================================================================== heap (array-modelled objects)
    def heap_arrays(self):
        return self.ctx.ghost.setdefault("heap", {})

    def heap_schema(self):
        return self.ctx.ghost.setdefault("heap_schema", {})

    def heap_get(self, ref: SRef, attr: str):
        kind = self.heap_schema().get((ref.cls.split("@", 1)[0], attr))
        if kind is None:
            raise Unsupported(f"heap field {ref.cls}.{attr} not declared")
        if kind == "self":
            return SInt(ref.z)      # the address is the value (e.g. Snapshot.snapshot_id under 'ids unique in one list')
        arrs = self.heap_arrays()
        if isinstance(kind, tuple) and kind[0] == "opt":
            return SOpt(z3.Select(arrs[(ref.cls, attr, "none")], ref.z),
                        wrap(kind[1], z3.Select(arrs[(ref.cls, attr)], ref.z)))
        return wrap(kind, z3.Select(arrs[(ref.cls, attr)], ref.z))

    def heap_set(self, ref: SRef, attr: str, val):
        kind = self.heap_schema().get((ref.cls.split("@", 1)[0], attr))
        if kind is None:
            raise Unsupported(f"heap field {ref.cls}.{attr} not declared")
        if kind == "self":
            raise Unsupported(f"assignment to the identity field {ref.cls}.{attr}")
        self.ctx.ghost.setdefault("heap_writes", []).append((ref, attr, val))
        arrs = self.heap_arrays()
        if isinstance(kind, tuple) and kind[0] == "opt":
            if val is None:
                arrs[(ref.cls, attr, "none")] = z3.Store(arrs[(ref.cls, attr, "none")], ref.z, z3.BoolVal(True))
            elif isinstance(val, SOpt):
                arrs[(ref.cls, attr, "none")] = z3.Store(arrs[(ref.cls, attr, "none")], ref.z, val.isnone)
                arrs[(ref.cls, attr)] = z3.Store(arrs[(ref.cls, attr)], ref.z, to_z3(val.val))
            else:
                arrs[(ref.cls, attr, "none")] = z3.Store(arrs[(ref.cls, attr, "none")], ref.z, z3.BoolVal(False))
                arrs[(ref.cls, attr)] = z3.Store(arrs[(ref.cls, attr)], ref.z, to_z3(val))
        else:
            arrs[(ref.cls, attr)] = z3.Store(arrs[(ref.cls, attr)], ref.z, to_z3(val))

    # ================================================================== statements
    def exec_block(self, stmts, env: Env):
        for i, s in enumerate(stmts):
            if i == 0 and isinstance(s, ast.Expr) and isinstance(s.value, ast.Constant) and isinstance(s.value.value, str):
                continue  # docstring
            self.exec_stmt(s, env)

    def exec_stmt(self, node, env: Env):
        if self.reg.stmt_hook is not None:
            self.reg.stmt_hook(self, node, env)
        m = getattr(self, "s_" + type(node).__name__, None)
        if m is None:
            raise Unsupported(f"statement {type(node).__name__} at line {node.lineno}")
        try:
            m(node, env)
        except PyExc as pe:
            raise PyRaise(SExc(pe.cls, origin=f"line {node.lineno}: {pe.msg}"))

    def s_Expr(self, node, env):
        self.eval(node.value, env)

    def s_Pass(self, node, env):
        pass

    def s_Assert(self, node, env):
        if not self.decide_truth(self.eval(node.test, env)):
            self.raise_("AssertionError", origin=f"line {node.lineno}")

    def s_Global(self, node, env):
        raise Unsupported("global")

    def s_Nonlocal(self, node, env):
        raise Unsupported("nonlocal")

    def s_Import(self, node, env):
        for a in node.names:
            name = (a.asname or a.name.split(".")[0])
            env.set(name, self.external_value(a.name if a.asname else a.name.split(".")[0]))

    def s_ImportFrom(self, node, env):
        mod = node.module or ""
        for a in node.names:
            local = a.asname or a.name
            if node.level > 0:
                if mod == "":
                    env.set(local, ModuleVal(a.name))
                else:
                    env.set(local, self.module_value(mod, a.name))
            else:
                env.set(local, self.external_value(f"{mod}.{a.name}"))

    def s_FunctionDef(self, node, env):
        env.set(node.name, FuncVal(env.module, f"{env.fn}.<locals>.{node.name}", node, closure=env))

    def s_Return(self, node, env):
        raise ReturnSig(self.eval(node.value, env) if node.value is not None else None)

    def s_Break(self, node, env):
        raise BreakSig()

    def s_Continue(self, node, env):
        raise ContinueSig()

    def s_Delete(self, node, env):
        for t in node.targets:
            if isinstance(t, ast.Subscript):
                base = self.force(self.eval(t.value, env))
                idx = self.force(self.eval(t.slice, env))
                self.delitem(base, idx)
            elif isinstance(t, ast.Name):
                env.vars.pop(t.id, None)
            else:
                raise Unsupported("del target")

    def delitem(self, base, idx):
        if isinstance(base, PDict) and is_concrete(idx):
            if idx not in base.d:
                raise PyExc("KeyError")
            del base.d[idx]
            return
        if isinstance(base, PList) and isinstance(idx, int):
            try:
                del base.items[idx]
            except IndexError:
                raise PyExc("IndexError")
            return
        if isinstance(base, SSeq):
            i = pyops.int_z(idx)
            n = z3.Length(base.z)
            if not self.ctx.decide(z3.And(i >= 0, i < n), "del-idx"):
                raise Unsupported("del with negative/out-of-range symbolic index")
            base.z = z3.Concat(z3.Extract(base.z, z3.IntVal(0), i), z3.Extract(base.z, i + 1, n - i - 1))
            return
        if isinstance(base, (TheoryObj, SOpaque)):
            self.call_method(base, "__delitem__", [idx], {})
            return
        raise Unsupported(f"del on {type(base).__name__}")

    def s_Assign(self, node, env):
        v = self.eval(node.value, env)
        for t in node.targets:
            self.assign(t, v, env)

    def s_AnnAssign(self, node, env):
        if node.value is not None:
            self.assign(node.target, self.eval(node.value, env), env)

    def s_AugAssign(self, node, env):
        cur = self.eval(_load(node.target), env)
        rhs = self.eval(node.value, env)
        op = _BINOPS.get(type(node.op))
        if isinstance(cur, PList) and op == "+":
            cur.items.extend(self.iter_concrete(rhs))
            return
        v = pyops.py_binop(op, self.force(cur), self.force(rhs), self.ctx)
        self.assign(node.target, v, env)

    def assign(self, target, v, env: Env):
        if isinstance(target, ast.Name):
            env.set(target.id, v)
        elif isinstance(target, (ast.Tuple, ast.List)):
            vv = self.force(v)
            if isinstance(vv, (tuple, list)):
                items = list(vv)
            elif isinstance(vv, PList):
                items = list(vv.items)
            elif vv is None:
                raise PyExc("TypeError", "cannot unpack None")
            elif pyops.is_strlike(vv) and isinstance(vv, str):
                items = list(vv)
            elif isinstance(vv, (TheoryObj, SOpaque)):
                items = self.iter_concrete(vv)
            elif isinstance(vv, (bool, int, float, SInt, SBool, SFloat)) or type(vv).__name__ == "SXReal":
                raise PyExc("TypeError", "cannot unpack non-iterable number")
            else:
                # unpacking a value of unknown shape: TypeError/ValueError possible
                hook = self.reg.builtins.get("__unpack__")
                if hook is None:
                    raise Unsupported(f"unpacking {type(vv).__name__}")
                items = hook.fn(self, [vv, len(target.elts)], {})
            if len(items) != len(target.elts):
                raise PyExc("ValueError", "unpack length mismatch")
            for t, it in zip(target.elts, items):
                self.assign(t, it, env)
        elif isinstance(target, ast.Attribute):
            base = self.force(self.eval(target.value, env))
            self.setattr(base, target.attr, v)
        elif isinstance(target, ast.Subscript):
            base = self.force(self.eval(target.value, env))
            if isinstance(target.slice, ast.Slice):
                lo = self.eval(target.slice.lower, env) if target.slice.lower is not None else None
                hi = self.eval(target.slice.upper, env) if target.slice.upper is not None else None
                self.setslice(base, lo, hi, v)
                return
            idx = self.force(self.eval(target.slice, env))
            self.setitem(base, idx, v)
        else:
            raise Unsupported(f"assignment target {type(target).__name__}")

    def setattr(self, base, attr, v):
        if isinstance(base, SObj):
            base.fields[attr] = v
        elif isinstance(base, SRef):
            self.heap_set(base, attr, v)
        elif isinstance(base, TheoryObj):
            h = self.reg.theory_methods.get((base.theory, "__setattr__"))
            if h is not None:
                h(self, base, [attr, v], {})
            else:
                base.fields[attr] = v
        elif base is None:
            raise PyExc("AttributeError")
        else:
            raise Unsupported(f"attribute store on {type(base).__name__}")

    def setitem(self, base, idx, v):
        if isinstance(base, PDict):
            if not is_concrete(idx):
                # symbolic key: kept in an association list (latest first); lookups become if-then-else chains
                if any(not is_concrete(k) and not isinstance(k, tuple) and not isinstance(k, Sym) for k in [idx]):
                    raise Unsupported("dict store with a key of unsupported kind")
                base.__dict__.setdefault("sym_items", []).insert(0, (idx, v))
                return
            base.d[idx] = v
        elif isinstance(base, PList) and isinstance(idx, int):
            try:
                base.items[idx] = v
            except IndexError:
                raise PyExc("IndexError")
        elif isinstance(base, SMapZ):
            k = to_z3(idx)
            base.has = z3.Store(base.has, k, z3.BoolVal(True))
            if isinstance(base.vkind, tuple) and base.vkind[0] == "opt":
                if v is None:
                    base.valnone = z3.Store(base.valnone, k, z3.BoolVal(True))
                elif isinstance(v, SOpt):
                    base.valnone = z3.Store(base.valnone, k, v.isnone)
                    base.val = z3.Store(base.val, k, to_z3(v.val))
                else:
                    base.valnone = z3.Store(base.valnone, k, z3.BoolVal(False))
                    base.val = z3.Store(base.val, k, to_z3(v))
            else:
                if isinstance(v, SOpt):
                    # a map of plain values: storing an optional is storing its value; the None case is an error of the analysed
                    # program only if reachable - decide it
                    if self.ctx.decide(v.isnone, "store-of-None-into-a-typed-map"):
                        raise Unsupported("None stored into a symbolic map of non-optional values")
                    v = v.val
                base.val = z3.Store(base.val, k, to_z3(v))
        elif isinstance(base, (TheoryObj, SOpaque)):
            self.call_method(base, "__setitem__", [idx, v], {})
        else:
            raise Unsupported(f"item store on {type(base).__name__}")

    def setslice(self, base, lo, hi, v):
        if isinstance(base, (TheoryObj, SOpaque)):
            self.call_method(base, "__setslice__", [lo, hi, v], {})
            return
        raise Unsupported("slice store")

    def s_If(self, node, env):
        # configuration pruning: Windows-only branches
        if self.decide_truth(self.eval(node.test, env)):
            self.exec_block(node.body, env)
        else:
            self.exec_block(node.orelse, env)

    def s_Raise(self, node, env):
        if node.exc is None:
            if not self.exc_stack:
                self.raise_("RuntimeError", origin="bare raise outside handler")
            raise PyRaise(self.exc_stack[-1])
        e = self.eval(node.exc, env)
        if isinstance(e, ClassVal):
            e = SExc(e.name, origin=f"{env.fn}:{node.lineno}")
        if not isinstance(e, SExc):
            raise Unsupported(f"raise of {e!r}")
        if node.cause is not None:
            c = self.eval(node.cause, env)
            if isinstance(c, SExc):
                e.cause = c
        elif self.exc_stack and e is not self.exc_stack[-1] and e.cause is None:
            e.fields.setdefault("__context__", self.exc_stack[-1])
        raise PyRaise(e)

    def handler_matches(self, exc: SExc, tnode, env) -> bool:
        if tnode is None:
            return True
        t = self.eval(tnode, env)
        classes = []

        def flat(x):
            if isinstance(x, (tuple, list)):
                for y in x:
                    flat(y)
            elif isinstance(x, PList):
                for y in x.items:
                    flat(y)
            elif isinstance(x, ClassVal):
                classes.append(x.name)
            else:
                raise Unsupported(f"except clause over {x!r}")
        flat(t)
        return any(self.exc_isinstance(exc.cls, c) for c in classes)

    def s_Try(self, node, env):
        try:
            try:
                self.exec_block(node.body, env)
            except PyRaise as pr:
                handled = False
                for h in node.handlers:
                    if self.handler_matches(pr.exc, h.type, env):
                        handled = True
                        if h.name:
                            env.set(h.name, pr.exc)
                        self.exc_stack.append(pr.exc)
                        try:
                            self.exec_block(h.body, env)
                        finally:
                            self.exc_stack.pop()
                            if h.name:
                                env.vars.pop(h.name, None)   # Python unbinds the handler's name at the end of the clause
                        break
                if not handled:
                    raise
            else:
                self.exec_block(node.orelse, env)
        except (PathEnd, Unsupported, EngineError):
            raise
        except (PyRaise, ReturnSig, BreakSig, ContinueSig):
            if node.finalbody:
                self.exec_block(node.finalbody, env)
            raise
        else:
            if node.finalbody:
                self.exec_block(node.finalbody, env)

    def s_With(self, node, env):
        def rec(i):
            if i == len(node.items):
                self.exec_block(node.body, env)
                return
            item = node.items[i]
            mgr = self.eval(item.context_expr, env)
            val = self.ctx_enter(mgr)
            if item.optional_vars is not None:
                self.assign(item.optional_vars, val, env)
            try:
                rec(i + 1)
            except (PathEnd, Unsupported, EngineError):
                raise
            except PyRaise as pr:
                suppressed = self.ctx_exit(mgr, pr.exc)
                if not suppressed:
                    raise
            except (ReturnSig, BreakSig, ContinueSig):
                self.ctx_exit(mgr, None)
                raise
            else:
                self.ctx_exit(mgr, None)
        rec(0)

    def ctx_enter(self, mgr):
        if isinstance(mgr, SObj):
            return self.call(self.getattr(mgr, "__enter__"), [], {})
        if isinstance(mgr, (TheoryObj, SOpaque)):
            return self.call_method(mgr, "__enter__", [], {})
        raise Unsupported(f"with over {mgr!r}")

    def ctx_exit(self, mgr, exc: Optional[SExc]) -> bool:
        a = [ClassVal(exc.cls), exc, None] if exc is not None else [None, None, None]
        if isinstance(mgr, SObj):
            r = self.call(self.getattr(mgr, "__exit__"), a, {})
        else:
            r = self.call_method(mgr, "__exit__", a, {})
        if exc is None:
            return False
        return self.decide_truth(r)

    # ------------------------------------------------------------------ loops
    def loop_spec(self, node) -> Optional[LoopSpec]:
        if not self.cur_fn:
            return None
        ref = self.cur_fn[-1]
        specs = self.reg.loops.get(ref)
        if not specs:
            return None
        mi, fn = self.repo.function(ref)
        # robust selector first: the source text of the iterable / loop test
        try:
            key = "iter:" + ast.unparse(node.iter if isinstance(node, ast.For) else node.test)
        except Exception:
            key = None
        if key is not None and key in specs:
            return specs[key]
        ordinal = 0
        for sub in ast.walk(fn):
            if isinstance(sub, (ast.For, ast.While)):
                if sub is node:
                    return specs.get(ordinal) or specs.get("*")
                ordinal += 1
        return None

    def s_While(self, node, env):
        spec = self.loop_spec(node)
        if spec is None or spec.unroll:
            self._while_unroll(node, env)
        else:
            self._while_cut(node, env, spec)

    def _while_unroll(self, node, env, bound=64):
        n = 0
        while True:
            if not self.decide_truth(self.eval(node.test, env)):
                self.exec_block(node.orelse, env)
                return
            try:
                self.exec_block(node.body, env)
            except BreakSig:
                return
            except ContinueSig:
                pass
            n += 1
            if n > bound:
                raise Unsupported(f"while loop at line {node.lineno} needs an invariant (unrolled {bound} times)")

    _MUTATORS = {"append", "add", "extend", "update", "insert", "pop", "remove", "discard", "clear", "setdefault", "sort"}

    def assigned_names(self, stmts, spec=None) -> List[str]:
        """names (re)bound or mutated in place by the statements: assignment targets, receivers of mutating method
        calls, subscript-store / del targets.  Attribute stores on objects need a custom havoc (checked here)."""
        out = []

        def add(n):
            if n not in out:
                out.append(n)
        for s in stmts:
            for sub in ast.walk(s):
                if isinstance(sub, ast.Name) and isinstance(sub.ctx, ast.Store):
                    add(sub.id)
                elif isinstance(sub, ast.ExceptHandler) and sub.name:
                    add(sub.name)
                elif isinstance(sub, ast.Call) and isinstance(sub.func, ast.Attribute) and sub.func.attr in self._MUTATORS \
                        and isinstance(sub.func.value, ast.Name):
                    add(sub.func.value.id)
                elif isinstance(sub, ast.Subscript) and isinstance(sub.ctx, (ast.Store, ast.Del)) and isinstance(sub.value, ast.Name):
                    add(sub.value.id)
                elif isinstance(sub, ast.Attribute) and isinstance(sub.ctx, ast.Store):
                    if spec is not None and getattr(spec, "elementwise", None) is not None and isinstance(sub.value, ast.Name) \
                            and sub.value.id in spec.elementwise:
                        continue        # store to a field of the loop's own element: replayed on the designated witnesses at loop exit
                    if spec is not None and spec.havoc is None:
                        raise Unsupported(f"loop body stores to attribute .{sub.attr} (line {sub.lineno}); "
                                          f"the loop spec needs a custom havoc for object state")
        return out

    @staticmethod
    def _stores_elem_attr(stmts, names):
        return any(isinstance(sub, ast.Attribute) and isinstance(sub.ctx, ast.Store) and isinstance(sub.value, ast.Name) and sub.value.id in names
                   for s in stmts for sub in ast.walk(s))

    def havoc_value(self, old, name):
        """A fresh value of the same kind as `old`."""
        c = self.ctx
        if isinstance(old, bool) or isinstance(old, SBool):
            return SBool(c.fresh_bool(name))
        if isinstance(old, int) or isinstance(old, SInt):
            return SInt(c.fresh_int(name))
        if isinstance(old, (str, SStr)):
            return SStr(c.fresh_str(name))
        if isinstance(old, (bytes, SBytes)):
            return SBytes(c.fresh_str(name))
        if isinstance(old, (float, SFloat)):
            return SFloat(c.fresh(name, z3.Float64()))
        if isinstance(old, SOpt):
            return SOpt(c.fresh_bool(name + "_none"), self.havoc_value(old.val, name))
        if isinstance(old, SRef):
            return SRef(old.cls, c.fresh_int(name))
        if isinstance(old, SOpaque):
            from .values import usort
            return SOpaque(old.sort, c.fresh(name, usort(old.sort)))
        if isinstance(old, SSeq):
            return SSeq(old.kind, c.fresh(name, old.z.sort()))
        if isinstance(old, SSetZ):
            return SSetZ(old.kind, c.fresh(name, old.z.sort()))
        if isinstance(old, SMapZ):
            return SMapZ(old.kkind, old.vkind, c.fresh(name + "_has", old.has.sort()),
                         c.fresh(name + "_val", old.val.sort()),
                         c.fresh(name + "_none", old.valnone.sort()) if old.valnone is not None else None)
        if isinstance(old, SObj):
            # an object carried across iterations: some other object of the same class (fields unknown, defaulted on demand)
            return SObj(old.cls, {}, label=f"{old.label}'")
        if old is None:
            from .values import usort
            return SOpt(c.fresh_bool(name + "_none"), SOpaque("pyobject", c.fresh(name, usort("pyobject"))))
        raise Unsupported(f"cannot havoc loop variable {name} of kind {type(old).__name__}; "
                          f"give the loop spec a custom havoc")

    # ---- frame guard for loops cut with a CUSTOM havoc: a field of an object in scope that the body changes must have been
    # havocked by the spec (or restored by the body) - otherwise the arbitrary iteration started from a state no real iteration
    # need start from.  Only plain attributes of SObj values bound to local names (e.g. self) are tracked.
    def _frame_snapshot(self, env):
        snap = {}
        for nm, v in list(env.vars.items()):
            if isinstance(v, SObj):
                snap[nm] = (v, dict(v.fields))
        return snap

    def _frame_check(self, node, spec, it):
        pre, post = it.get("__frame_pre__"), it.get("__frame_post__")
        if not pre or not post:
            return
        for nm, (obj, before) in pre.items():
            after_havoc = post.get(nm, (obj, {}))[1]
            for fld, v0 in before.items():
                if fld in getattr(spec, "covers", []):
                    continue
                v1 = after_havoc.get(fld, v0)
                cur = obj.fields.get(fld, v1)
                if v1 is not v0:
                    continue                       # the spec's havoc took care of it
                if cur is v1:
                    continue                       # unchanged (or restored) by the body
                if isinstance(cur, (bool, int, str, type(None))) and isinstance(v1, (bool, int, str, type(None))) and cur == v1 and type(cur) is type(v1):
                    continue
                self.ctx.check(f"loop{node.lineno}:{spec.name}:frame:{obj.cls}.{fld}-is-changed-by-the-body-but-neither-havocked-nor-covered-by-the-invariant",
                               z3.BoolVal(False),
                               detail=f"at the loop head the arbitrary iteration assumed {obj.cls}.{fld} = {v1!r}; an iteration ends with {cur!r}")

    def _cut_prelude(self, node, env, spec: LoopSpec, it):
        """assert invariant on entry; havoc; assume invariant."""
        for nm, inv in spec.invariant(self, env, it) if spec.invariant else []:
            self.ctx.check(f"loop{node.lineno}:{spec.name}:inv-entry:{nm}", inv)
        names = self.assigned_names(node.body, spec) + (spec.modifies or [])
        if isinstance(node, ast.For):
            for sub in ast.walk(node.target):
                if isinstance(sub, ast.Name) and sub.id in names:
                    names.remove(sub.id)
        for nm in names:
            ok, old = env.lookup(nm)
            if ok and nm in env.vars and nm not in spec.skip:
                env.vars[nm] = self.havoc_value(old, nm)
        if spec.havoc:
            it["__frame_pre__"] = self._frame_snapshot(env)
            spec.havoc(self, env, it)
            it["__frame_post__"] = self._frame_snapshot(env)
        for nm, inv in spec.invariant(self, env, it) if spec.invariant else []:
            self.ctx.assume(inv)

    def _while_cut(self, node, env, spec: LoopSpec):
        it = {"kind": "while"}
        self._cut_prelude(node, env, spec, it)
        cond = self.decide_truth(self.eval(node.test, env))
        if not cond:
            self.exec_block(node.orelse, env)
            return
        # arbitrary iteration
        dec0 = spec.decreases(self, env, it) if spec.decreases else None
        try:
            self.exec_block(node.body, env)
        except BreakSig:
            return
        except ContinueSig:
            pass
        it["after_body"] = True
        for nm, inv in spec.invariant(self, env, it) if spec.invariant else []:
            self.ctx.check(f"loop{node.lineno}:{spec.name}:inv-preserved:{nm}", inv)
        self._frame_check(node, spec, it)
        if dec0 is not None:
            dec1 = spec.decreases(self, env, it)
            self.ctx.check(f"loop{node.lineno}:{spec.name}:decreases", z3.And(dec1 >= 0, dec1 < dec0))
        raise PathEnd()

    def s_For(self, node, env):
        spec = self.loop_spec(node)
        itv = self.force(self.eval(node.iter, env))
        if isinstance(itv, TheoryObj) and itv.theory == "acc":
            from . import acc as _accmod
            itv = _accmod.as_symiter(self, itv)
        symbolic_iter = isinstance(itv, (SSeq, SSetZ, SMapZ)) or (isinstance(itv, tuple) and itv and itv[0] == "__range__")
        if isinstance(itv, TheoryObj) and itv.theory in ("reflist", "reflist_enum"):
            if spec is None:
                raise Unsupported(f"for loop at line {node.lineno} over a list of heap objects of unknown length needs an invariant")
            return self.reg.builtins["__reflist_for__"].fn(self, node, env, spec, itv)
        if spec is not None and not spec.unroll:
            return self._for_cut(node, env, spec, itv)
        if isinstance(itv, TheoryObj) and itv.theory == "symiter" and spec is None:
            # no contract for this loop: cut it with the trivial invariant (everything it assigns or mutates is havocked)
            self.ctx.use(f"loop at line {node.lineno} has no invariant: cut with 'true' (all assigned state havocked)")
            sp = LoopSpec(invariant=lambda I, e, it: [], name="uncontracted")
            if isinstance(node.target, ast.Name) and not any(isinstance(x, ast.Break) for b in node.body for x in ast.walk(b)):
                sp.elementwise = [node.target.id]
            return self._for_cut(node, env, sp, itv)
        if symbolic_iter:
            raise Unsupported(f"for loop at line {node.lineno} over a collection of unknown size needs an invariant")
        broke = False
        for item in self.iter_concrete(itv):
            self.assign(node.target, item, env)
            try:
                self.exec_block(node.body, env)
            except BreakSig:
                broke = True
                break
            except ContinueSig:
                continue
        if not broke:
            self.exec_block(node.orelse, env)

    def _for_cut(self, node, env, spec: LoopSpec, itv):
        """Cut a for loop with an invariant.  `it` exposes ghost iteration state to the invariant:
        it['i'] (index, sequences/ranges), it['n'], it['seq'] / it['done'] (sets: already visited)."""
        c = self.ctx
        it: Dict[str, Any] = {"kind": "for", "iter": itv}
        if isinstance(itv, SSeq):
            it["n"] = z3.Length(itv.z)
            it["i"] = z3.IntVal(0)
        elif isinstance(itv, tuple) and itv and itv[0] == "__range__":
            it["lo"], it["hi"] = itv[1], itv[2]
            it["i"] = itv[1]
            it["n"] = itv[2]
            it["step"] = itv[3] if len(itv) > 3 else 1
        elif isinstance(itv, SSetZ):
            it["done"] = z3.EmptySet(itv.z.sort().domain())
        elif isinstance(itv, (PList, tuple, list)):
            items = itv.items if isinstance(itv, PList) else list(itv)
            it["items"] = items
            it["n"] = z3.IntVal(len(items))
            it["i"] = z3.IntVal(0)
        elif isinstance(itv, TheoryObj) and itv.theory == "symiter":
            # a collection of unknown size whose arbitrary element is produced by itv.fields['mk'](interp)
            it["symiter"] = itv
        else:
            raise Unsupported(f"invariant-cut for loop over {type(itv).__name__}")
        # entry
        for nm, inv in spec.invariant(self, env, it) if spec.invariant else []:
            c.check(f"loop{node.lineno}:{spec.name}:inv-entry:{nm}", inv)
        # havoc
        names = self.assigned_names(node.body, spec) + (spec.modifies or [])
        for sub in ast.walk(node.target):
            if isinstance(sub, ast.Name) and sub.id in names:
                names.remove(sub.id)
        for nm in names:
            ok, old = env.lookup(nm)
            if ok and nm in env.vars and nm not in spec.skip:
                env.vars[nm] = self.havoc_value(old, nm)
        if spec.havoc:
            it["__frame_pre__"] = self._frame_snapshot(env)
            spec.havoc(self, env, it)
            it["__frame_post__"] = self._frame_snapshot(env)
        if "i" in it:
            i = c.fresh_int("it")
            lo = it.get("lo", z3.IntVal(0))
            step = it.get("step", 1)
            if step == 1:
                c.assume(z3.And(i >= lo, i <= z3.If(it["n"] >= lo, it["n"], lo)))
            else:
                # lo, lo+step, ...: the loop head is reached with i = lo + k*step, and (when past the end) less than one step beyond
                k = c.fresh_int("k")
                c.assume(z3.And(k >= 0, i == lo + k * step, z3.Or(k == 0, i - step < it["n"])))
            it["i"] = i
        elif "symiter" in it:
            pass
        else:
            done = c.fresh("done", itv.z.sort())
            c.assume(z3.IsSubset(done, itv.z))
            it["done"] = done
        for nm, inv in spec.invariant(self, env, it) if spec.invariant else []:
            c.assume(inv)
        # exit or one more iteration
        if "i" in it:
            more = c.decide(it["i"] < it["n"], "for-more")
        elif "symiter" in it:
            more = c.flip("for-more")
        else:
            more = c.decide(it["done"] != itv.z, "for-more")
        if not more:
            it["final"] = True
            if getattr(spec, "on_exit", None):
                spec.on_exit(self, env, it)
            if getattr(spec, "elementwise", None) and "symiter" in it and self._stores_elem_attr(node.body, spec.elementwise):
                # the body writes fields of its own element only (plus havocked locals): at loop exit each designated witness
                # that is a member has been through the body exactly once
                c.use("T-py/for: a loop whose body stores only to fields of its own element acts on each element separately "
                      "(elements of a list are distinct objects)")
                pure = not any((isinstance(x, ast.Call) and isinstance(x.func, ast.Attribute) and x.func.attr in self._MUTATORS)
                               or (isinstance(x, ast.Subscript) and isinstance(x.ctx, (ast.Store, ast.Del)))
                               for b in node.body for x in ast.walk(b))
                attrs = sorted({x.attr for b in node.body for x in ast.walk(b)
                                if isinstance(x, ast.Attribute) and isinstance(x.ctx, ast.Store) and isinstance(x.value, ast.Name) and x.value.id in spec.elementwise})
                saved = dict(env.vars)          # locals keep their havocked (arbitrary) values: the witness need not be the last element
                for w, inl in list(itv.fields.get("witnesses", [])):
                    if not isinstance(w, SObj):
                        continue
                    isin = inl if isinstance(inl, bool) else c.decide(inl, "witness-went-through-the-loop")
                    if not isin:
                        continue
                    if pure:
                        self.assign(node.target, w, env)
                        try:
                            self.exec_block(node.body, env)
                        except ContinueSig:
                            pass
                    else:
                        # the body also mutates collections: replaying it would repeat those effects - the stored fields of the
                        # witness become arbitrary instead
                        for a_ in attrs:
                            if a_ in w.fields:
                                w.fields[a_] = self.havoc_value(w.fields[a_], f"{a_}_after_loop")
                for k_ in list(env.vars):
                    if k_ in saved:
                        env.vars[k_] = saved[k_]
                    else:
                        del env.vars[k_]
            self.exec_block(node.orelse, env)
            return
        if isinstance(itv, SSeq):
            item = wrap(itv.kind, itv.z[it["i"]])
        elif "symiter" in it:
            item = itv.fields["mk"](self)
            it["elem"] = item
            for pred in itv.fields.get("all_satisfy", []):
                c.assume(pred(self, item))
        elif "lo" in it:
            item = SInt(it["i"])
        elif "items" in it:
            item = None
            for k, cand in enumerate(it["items"]):
                if c.decide(it["i"] == k, "for-item"):
                    item = cand
                    break
            else:
                raise PathEnd()
        else:
            x = c.fresh("elem", itv.z.sort().domain())
            c.assume(z3.And(z3.IsMember(x, itv.z), z3.Not(z3.IsMember(x, it["done"]))))
            item = wrap(itv.kind, x)
            it["elem"] = x
        self.assign(node.target, item, env)
        try:
            self.exec_block(node.body, env)
        except BreakSig:
            if getattr(spec, "on_break", None):
                spec.on_break(self, env, it)
            return
        except ContinueSig:
            pass
        it["after_body"] = True
        if "i" in it:
            it["i"] = it["i"] + it.get("step", 1)
        elif "symiter" in it:
            pass
        else:
            it["done"] = z3.SetAdd(it["done"], it["elem"])
        for nm, inv in spec.invariant(self, env, it) if spec.invariant else []:
            c.check(f"loop{node.lineno}:{spec.name}:inv-preserved:{nm}", inv)
        self._frame_check(node, spec, it)
        raise PathEnd()


# ---------------------------------------------------------------------------------------------
def usort_(name):
    from .values import usort
    return usort(name)


class _Missing:
    pass


_MISSING = _Missing()

_BINOPS = {ast.Add: "+", ast.Sub: "-", ast.Mult: "*", ast.FloorDiv: "//", ast.Mod: "%", ast.Div: "/",
           ast.Pow: "**", ast.BitAnd: "&", ast.BitOr: "|", ast.BitXor: "^", ast.LShift: "<<", ast.RShift: ">>"}
_CMPNAME = {ast.Lt: "<", ast.LtE: "<=", ast.Gt: ">", ast.GtE: ">=", ast.Eq: "==", ast.NotEq: "!="}
_DUNDER = {"+": "__add__", "-": "__sub__", "*": "__mul__", "&": "__and__", "|": "__or__", "==": "__eq__",
           "!=": "__ne__", "<": "__lt__", "<=": "__le__", ">": "__gt__", ">=": "__ge__", "/": "__truediv__",
           "//": "__floordiv__", "%": "__mod__", "^": "__xor__", "**": "__pow__", "<<": "__lshift__", ">>": "__rshift__"}
_RDUNDER = {"+": "__radd__", "-": "__rsub__", "*": "__rmul__", "&": "__rand__", "|": "__ror__", "==": "__eq__",
            "!=": "__ne__", "<": "__gt__", "<=": "__ge__", ">": "__lt__", ">=": "__le__", "/": "__rtruediv__",
            "//": "__rfloordiv__", "%": "__rmod__", "^": "__rxor__", "**": "__rpow__", "<<": "__rlshift__", ">>": "__rrshift__"}


def _overloaded(v):
    return isinstance(v, SOpaque) or (isinstance(v, TheoryObj) and v.fields.get("__overloads__"))


def _load(target):
    import copy
    t = copy.copy(target)
    t.ctx = ast.Load()
    return t


def _kindname(v):
    if isinstance(v, (str, SStr)):
        return "str"
    if isinstance(v, (bytes, SBytes)):
        return "bytes"
    if isinstance(v, bool) or isinstance(v, SBool):
        return "bool"
    if isinstance(v, (int, SInt)):
        return "int"
    if isinstance(v, (float, SFloat)) or type(v).__name__ == "SXReal":
        return "float"
    if isinstance(v, (PList, SSeq)):
        return "list"
    if isinstance(v, (PDict, SMapZ)):
        return "dict"
    if isinstance(v, (PSet, SSetZ, frozenset)):
        return "set"
    if isinstance(v, tuple):
        return "tuple"
    if isinstance(v, SObj):
        return v.cls
    if isinstance(v, SExc):
        return "exc"
    if isinstance(v, SRef):
        return v.cls
    return type(v).__name__
