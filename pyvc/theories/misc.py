"""Small trusted theories shared by several properties: clock, uuid, locks, regex objects, RLock."""
from __future__ import annotations

import z3

from .. import pyops
from ..ctx import Unsupported
from ..engine import PyRaise
from ..pyops import PyExc
from ..values import PDict, PList, SBool, SBytes, SExc, SInt, SObj, SOpt, SStr, SXReal, TheoryObj
from . import pybuiltins as pb
from . import regex as rx

HEX = z3.Union(z3.Range("0", "9"), z3.Range("a", "f"))


def install_clock(reg, ctx):
    """time.time(), datetime.now().timestamp(): a real number, non-decreasing along the path (A-clock-monotone is
    NOT assumed unless monotone=True is passed by the harness; equal readings are always possible)."""
    g = ctx.ghost.setdefault("clock", {"last": None, "reads": []})

    def reading(I):
        r = I.ctx.fresh("now", z3.RealSort())
        I.ctx.assume(r >= 0)
        if g.get("monotone") and g["last"] is not None:
            I.ctx.assume(r >= g["last"])
        g["last"] = r
        g["reads"].append(r)
        return SXReal(z3.BoolVal(False), z3.IntVal(0), r)
    reg.modfuncs["time.time"] = lambda I, a, k: reading(I)
    reg.modfuncs["time.monotonic"] = lambda I, a, k: reading(I)
    reg.modfuncs["time.sleep"] = lambda I, a, k: None
    reg.modfuncs["datetime.datetime.now"] = lambda I, a, k: TheoryObj("clockdt")
    reg.theory_methods[("clockdt", "timestamp")] = lambda I, o, a, k: reading(I)
    reg.modfuncs["random.uniform"] = lambda I, a, k: SXReal(z3.BoolVal(False), z3.IntVal(0), I.ctx.fresh("rnd", z3.RealSort()))


def install_uuid(reg, ctx):
    """uuid.uuid4(): A-uuid - every value is fresh (distinct from every value seen before on this path and from
    every name already present in storage; the latter is stated by the harness where needed)."""
    g = ctx.ghost.setdefault("uuid", {"hex": [], "int": []})

    def uuid4(I, a, k):
        hx = I.ctx.fresh_str("uuidhex")
        I.ctx.assume(z3.InRe(hx, z3.Loop(HEX, 32, 32)))
        for prev in g["hex"]:
            I.ctx.assume(hx != prev)
        g["hex"].append(hx)
        iv = I.ctx.fresh_int("uuidint")
        I.ctx.assume(z3.And(iv >= 0, iv < 2 ** 128))
        for prev in g["int"]:
            I.ctx.assume(iv != prev)
        g["int"].append(iv)
        I.ctx.use("A-uuid: uuid4 values are fresh")
        return TheoryObj("uuid", fields={"hex": SStr(hx), "int": SInt(iv)})
    reg.modfuncs["uuid.uuid4"] = uuid4
    reg.theory_methods[("uuid", "__str__")] = lambda I, o, a, k: o.fields["hex"]


def install_regex(reg):
    def re_compile(I, a, k):
        pat = a[0]
        if not isinstance(pat, str):
            raise Unsupported("re.compile of a non-literal pattern")
        return TheoryObj("regex", fields={"c": rx.Compiled(pat), "pattern": pat})

    def re_match(I, obj, a, k):
        c: rx.Compiled = obj.fields["c"]
        s = I.force(a[0])
        if isinstance(s, str):
            import re
            m = re.compile(obj.fields["pattern"]).match(s)
            if m is None:
                return None
            return TheoryObj("rematch", fields={"concrete": m})
        if not isinstance(s, SStr):
            raise PyExc("TypeError")
        I.ctx.use(f"T-py:re pattern {obj.fields['pattern']!r} translated structurally to an SMT regex (\\d = Unicode Nd; $ allows a final newline)")
        if not I.ctx.decide(z3.InRe(s.z, c.match_language()), "re-match"):
            return None
        return TheoryObj("rematch", fields={"c": c, "s": s.z})

    def m_group(I, obj, a, k):
        if "concrete" in obj.fields:
            return obj.fields["concrete"].group(*a)
        idx = a[0] if a else 0
        if idx == 0:
            return SStr(obj.fields["s"])
        if I.reg.modconsts.get("regex.functional_groups"):
            # group(k) as an uninterpreted function of (pattern, subject) constrained only by the group's own language:
            # enough where the caller needs "same subject -> same group" (congruence) and the group's character class
            c = obj.fields["c"]
            G = z3.Function(f"re.group{idx}[{c.pattern}]", z3.StringSort(), z3.StringSort())
            gz = G(obj.fields["s"])
            n = 0
            for node in c.seq:
                if node.kind == "group" and node.capturing:
                    n += 1
                    if n == idx:
                        I.ctx.assume(z3.InRe(gz, rx.seq_to_z3(node.items)))
                        return SStr(gz)
            raise PyExc("IndexError", "no such group")
        if "parts" not in obj.fields:
            obj.fields["parts"] = obj.fields["c"].decompose(I, obj.fields["s"])
        n = 0
        for node, p in obj.fields["parts"]:
            if node.kind == "group" and node.capturing or (node.kind == "quant" and node.inner.kind == "group" and node.inner.capturing):
                n += 1
                if n == idx:
                    if node.kind == "quant":
                        raise Unsupported("quantified capturing group")
                    return SStr(p)
        raise PyExc("IndexError", "no such group")
    reg.modfuncs["re.compile"] = re_compile
    reg.theory_methods[("regex", "match")] = re_match
    reg.theory_methods[("rematch", "group")] = m_group


def install_rlock(reg):
    reg.modfuncs["threading.RLock"] = lambda I, a, k: TheoryObj("rlock")
    reg.modfuncs["threading.Lock"] = lambda I, a, k: TheoryObj("rlock")
    reg.theory_methods[("rlock", "__enter__")] = lambda I, o, a, k: o
    reg.theory_methods[("rlock", "__exit__")] = lambda I, o, a, k: None


class Lock:
    """T-lock (interface contract of LockProvider; the implementations are C19):
       acquire(): returns True (held) or raises TimeoutError/OSError (not held)
       release(): never leaves it held; may raise (fault)     is_held(): the provider's current belief."""

    def __init__(self, store=None, can_fail_acquire=True, release_may_raise=True, is_held_may_be_false=True):
        self.held = False
        self.events = []
        self.store = store
        self.can_fail_acquire = can_fail_acquire
        self.release_may_raise = release_may_raise
        self.is_held_may_be_false = is_held_may_be_false
        self.obj = TheoryObj("lock", fields={"lock": self})

    def log(self, op, **kw):
        ev = dict(op="lock." + op, **kw)
        self.events.append(ev)
        if self.store is not None:
            self.store.log("lock." + op, **kw)

    def install(self, reg):
        def acquire(I, o, a, k):
            L = o.fields["lock"]
            if L.can_fail_acquire and I.ctx.flip("acquire-fails"):
                L.log("acquire", ok=False)
                raise PyRaise(SExc("TimeoutError", origin="lock.acquire timeout", fields={"fault": True}))
            L.held = True
            L.log("acquire", ok=True)
            return True

        def release(I, o, a, k):
            L = o.fields["lock"]
            was = L.held
            L.held = False
            L.log("release", was_held=was)
            if L.release_may_raise and I.ctx.flip("release-raises"):
                raise PyRaise(SExc("OSError", origin="lock.release fault", fields={"fault": True}))
            return None

        def is_held(I, o, a, k):
            L = o.fields["lock"]
            if L.is_held_may_be_false and I.ctx.flip("lease-lost"):
                L.log("is_held", result=False)
                return False
            L.log("is_held", result=L.held)
            return L.held
        reg.theory_methods[("lock", "acquire")] = acquire
        reg.theory_methods[("lock", "release")] = release
        reg.theory_methods[("lock", "is_held")] = is_held
