"""T-os: path algebra and file-system calls of `os`, `os.path`, `tempfile`, `open` (POSIX).

Path algebra (strings; all axioms are validated against the real os.path by tools/validate_os.py on enumerated
path grammars - bounded, trusted here):
  join(a, b)        = b if b starts with '/', a + b if a == '' or a ends with '/', else a + '/' + b      (definitional)
  isabs(p)          = p starts with '/'                                                                  (definitional)
  RP(p) = realpath  : uninterpreted; result is a normalised absolute symlink-free path  (NORMABS(RP(p)))
  Inside(b, f)      := f == b  or  prefix(b + '/', f)   (b != '/')      -- component-wise containment of normalised paths
  commonpath([b,f]) == b  <=>  Inside(b, f)            for NORMABS b, f (never raises for two absolute paths)
  DN(f) = dirname, BN(f) = basename for NORMABS f != '/':  f == DN(f) + '/' + BN(f) (or '/' + BN(f) when DN(f) == '/'),
                      BN(f) has no '/', is not empty;   INSIDE-DIRNAME:  Inside(b,f) and f != b  =>  Inside(b, DN(f));
                      OUTSIDE-PARENT:  b != '/'  =>  not Inside(b, DN(b))
  relpath(f, b)     : Inside(b,f) and f != b => b + '/' + relpath == f ; f == b => '.' ; not Inside(b,f) => starts with '..'
File-system calls are recorded in `events` (op, path arguments, fd) for the ordering obligations of C16; every call that
touches a path checks the containment precondition handed in by the harness (C17).
"""
from __future__ import annotations

from typing import Any, Callable, Dict, List, Optional

import z3

from .. import pyops
from ..ctx import Unsupported
from ..engine import Interp, PyRaise
from ..pyops import PyExc
from ..values import (PDict, PList, SBool, SBytes, SExc, SInt, SObj, SOpt, SStr, SXReal, TheoryObj, to_z3)
from . import pybuiltins as pb

STR = z3.StringSort()
RP = z3.Function("os.realpath", STR, STR)
AP = z3.Function("os.abspath", STR, STR)
DN = z3.Function("os.dirname", STR, STR)
BN = z3.Function("os.basename", STR, STR)
CP = z3.Function("os.commonpath2", STR, STR, STR)
REL = z3.Function("os.relpath", STR, STR, STR)
NORMABS = z3.Function("os.is_normalised_absolute", STR, z3.BoolSort())
REAL = z3.Function("os.is_symlink_free", STR, z3.BoolSort())
SLASH = z3.StringVal("/")


def inside(b, f):
    return z3.Or(f == b, z3.PrefixOf(z3.Concat(b, SLASH), f), b == SLASH)


def join2(a, b):
    return z3.If(z3.PrefixOf(SLASH, b), b,
                 z3.If(z3.Or(a == z3.StringVal(""), z3.SuffixOf(SLASH, a)), z3.Concat(a, b), z3.Concat(a, SLASH, b)))


class OsTheory:
    def __init__(self, h, *, fault_classes=(), max_faults=0, containment: Optional[Callable] = None):
        self.h = h
        self.events: List[Dict[str, Any]] = []
        self.fault_classes = list(fault_classes)
        self.max_faults = max_faults
        self.faults_injected = 0
        self.containment = containment   # containment(op, path_z, kind) -> called for every path handed to the OS
        self.fds = 0
        self.on_event: Optional[Callable] = None
        self.dirfsync_supported = True

    def log(self, op, **kw):
        ev = dict(op=op, n=len(self.events), **kw)
        self.events.append(ev)
        if self.on_event:
            self.on_event(ev)
        return ev

    def touch(self, op, p, kind="file"):
        if self.containment is not None:
            self.containment(op, p, kind)

    def maybe_fault(self, I, op, classes=None):
        cls = list(classes if classes is not None else self.fault_classes)
        if not cls or self.faults_injected >= self.max_faults:
            return
        k = I.ctx.choose(len(cls) + 1, f"os-fault:{op}")
        if k == 0:
            return
        self.faults_injected += 1
        self.log("FAULT", at=op, cls=cls[k - 1])
        raise PyRaise(SExc(cls[k - 1], origin=f"fault-before:{op}", fields={"fault": True}))

    # ------------------------------------------------------------------ path algebra
    def sz(self, I, v):
        v = I.force(v)
        if not isinstance(v, (str, SStr)):
            raise PyExc("TypeError", "path must be str")
        return pyops.str_z(v)

    def install(self, reg):
        M = reg.modfuncs
        c = self.h.ctx

        def p_join(I, a, k):
            zs = [self.sz(I, x) for x in a]
            r = zs[0]
            for nxt in zs[1:]:
                r = join2(r, nxt)
            return pyops.mk_str(r)

        def p_isabs(I, a, k):
            return pyops.mk_bool(z3.PrefixOf(SLASH, self.sz(I, a[0])))

        def p_realpath(I, a, k):
            p = self.sz(I, a[0])
            r = RP(p)
            I.ctx.assume(z3.And(NORMABS(r), REAL(r), z3.PrefixOf(SLASH, r)), "T-os: realpath returns a normalised absolute symlink-free path")
            I.ctx.assume(z3.Or(r == SLASH, z3.Not(z3.SuffixOf(SLASH, r))))
            return pyops.mk_str(r)

        def p_abspath(I, a, k):
            p = self.sz(I, a[0])
            r = AP(p)
            I.ctx.assume(z3.And(NORMABS(r), z3.PrefixOf(SLASH, r)), "T-os: abspath returns a normalised absolute path (symlinks NOT resolved)")
            I.ctx.assume(z3.Or(r == SLASH, z3.Not(z3.SuffixOf(SLASH, r))))
            return pyops.mk_str(r)

        def p_commonpath(I, a, k):
            items = I.iter_concrete(a[0])
            if len(items) != 2:
                raise Unsupported("commonpath of other than two paths")
            b, f = self.sz(I, items[0]), self.sz(I, items[1])
            r = CP(b, f)
            I.ctx.assume(z3.Implies(z3.And(NORMABS(b), NORMABS(f)), (r == b) == inside(b, f)),
                         "T-os: commonpath([b,f]) == b  <=>  f is b or lies below b (normalised absolute paths)")
            return pyops.mk_str(r)

        def p_dirname(I, a, k):
            f = self.sz(I, a[0])
            d = DN(f)
            I.ctx.assume(z3.Implies(z3.And(NORMABS(f), f != SLASH),
                                    z3.And(NORMABS(d), z3.Or(f == z3.Concat(d, SLASH, BN(f)), z3.And(d == SLASH, f == z3.Concat(SLASH, BN(f)))),
                                           pb.not_contains(BN(f), "/"), BN(f) != z3.StringVal(""))), "T-os: dirname/basename decomposition")
            I.ctx.use("T-os: INSIDE-DIRNAME / OUTSIDE-PARENT lemmas instantiated by the harness")
            return pyops.mk_str(d)

        def p_basename(I, a, k):
            f = self.sz(I, a[0])
            return pyops.mk_str(BN(f))

        def p_relpath(I, a, k):
            f, b = self.sz(I, a[0]), self.sz(I, a[1])
            r = REL(f, b)
            I.ctx.assume(z3.Implies(z3.And(NORMABS(f), NORMABS(b)),
                                    z3.And(z3.Implies(z3.And(inside(b, f), f != b, b != SLASH), f == z3.Concat(b, SLASH, r)),
                                           z3.Implies(z3.And(inside(b, f), f != b), z3.Not(z3.Or(r == z3.StringVal(".."), z3.PrefixOf(z3.StringVal("../"), r)))),
                                           z3.Implies(f == b, r == z3.StringVal(".")),
                                           z3.Implies(z3.Not(inside(b, f)), z3.Or(r == z3.StringVal(".."), z3.PrefixOf(z3.StringVal("../"), r))))),
                         "T-os: relpath")
            return pyops.mk_str(r)

        def p_commonprefix(I, a, k):
            items = I.iter_concrete(a[0])
            if len(items) != 2:
                raise Unsupported("commonprefix of other than two paths")
            b, f = self.sz(I, items[0]), self.sz(I, items[1])
            r = z3.Function("os.commonprefix2", STR, STR, STR)(b, f)
            I.ctx.assume(z3.And(z3.PrefixOf(r, b), z3.PrefixOf(r, f), (r == b) == z3.PrefixOf(b, f)),
                         "T-os: commonprefix is the CHARACTER-wise longest common prefix")
            return pyops.mk_str(r)
        M["os.path.commonprefix"] = p_commonprefix
        M["os.path.join"] = p_join
        M["os.path.isabs"] = p_isabs
        M["os.path.realpath"] = p_realpath
        M["os.path.abspath"] = p_abspath
        M["os.path.commonpath"] = p_commonpath
        M["os.path.dirname"] = p_dirname
        M["os.path.basename"] = p_basename
        M["os.path.relpath"] = p_relpath

        def p_split(I, a, k):
            # os.path.split(p) = (head, tail) with head = dirname(p), tail = basename(p)  (same functions, T-os DN/BN axioms)
            return (p_dirname(I, a, k), p_basename(I, a, k))
        M["os.path.split"] = p_split

        def fs_probe(kind):
            def probe(I, a, k):
                p = self.sz(I, a[0])
                self.touch(kind, p, "probe")
                self.log(kind, path=p)
                return SBool(I.ctx.fresh_bool(kind))      # a read-only query of the file system: any answer
            return probe
        M["os.path.islink"] = fs_probe("islink")
        M["os.path.isdir"] = fs_probe("isdir")
        M["os.path.isfile"] = fs_probe("isfile")

        # ------------------------------------------------------------------ file system calls
        EX = z3.Function("fs.exists", STR, z3.BoolSort())

        def fs_exists(I, a, k):
            p = self.sz(I, a[0])
            self.touch("exists", p, "stat")
            self.log("exists", path=p)
            return pyops.mk_bool(EX(p))

        def fs_getsize(I, a, k):
            p = self.sz(I, a[0])
            self.touch("getsize", p, "stat")
            self.maybe_fault(I, "getsize")
            self.log("getsize", path=p)
            n = I.ctx.fresh_int("size")
            I.ctx.assume(n >= 0)
            return SInt(n)

        def fs_getmtime(I, a, k):
            p = self.sz(I, a[0])
            self.touch("getmtime", p, "stat")
            self.maybe_fault(I, "getmtime")
            self.log("getmtime", path=p)
            return SXReal(z3.BoolVal(False), z3.IntVal(0), I.ctx.fresh("mtime", z3.RealSort()))

        def fs_makedirs(I, a, k):
            p = self.sz(I, a[0])
            self.touch("makedirs", p, "dir")
            self.maybe_fault(I, "makedirs")
            self.log("makedirs", path=p)
            return None

        def fs_remove(I, a, k):
            p = self.sz(I, a[0])
            self.touch("remove", p, "file")
            self.maybe_fault(I, "remove")
            self.log("remove", path=p)
            return None

        def fs_replace(I, a, k):
            src, dst = self.sz(I, a[0]), self.sz(I, a[1])
            self.touch("replace", src, "file")
            self.touch("replace", dst, "file")
            self.maybe_fault(I, "replace")
            self.log("replace", src=src, dst=dst)
            return None

        def fs_open_fd(I, a, k):
            p = self.sz(I, a[0])
            self.touch("os.open", p, "open")
            self.maybe_fault(I, "os.open")
            self.fds += 1
            fd = SInt(I.ctx.fresh_int("fd"))
            self.log("os.open", path=p, fd=fd.z)
            return fd

        def fs_write(I, a, k):
            fd = pyops.int_z(a[0])
            self.maybe_fault(I, "os.write")
            self.log("os.write", fd=fd, data=pyops.str_z(a[1]))
            I.ctx.use("A-write: os.write writes the whole buffer")
            return pyops.py_len(a[1])

        def fs_fsync(I, a, k):
            fd = pyops.int_z(a[0])
            self.maybe_fault(I, "os.fsync")
            self.log("os.fsync", fd=fd)
            return None

        def fs_close(I, a, k):
            fd = pyops.int_z(a[0])
            self.log("os.close", fd=fd)
            return None

        def fs_mkstemp(I, a, k):
            d = self.sz(I, k.get("dir", a[2] if len(a) > 2 else None))
            self.touch("mkstemp", d, "createdir")
            self.maybe_fault(I, "mkstemp")
            name = I.ctx.fresh_str("tmpname")
            prefix = k.get("prefix", "tmp")
            suffix = k.get("suffix", "")
            I.ctx.assume(pb.not_contains(name, "/"))
            I.ctx.assume(z3.PrefixOf(pyops.str_z(prefix), name))
            I.ctx.assume(z3.SuffixOf(pyops.str_z(suffix), name))
            path = z3.Concat(d, SLASH, name)
            fd = SInt(I.ctx.fresh_int("fd"))
            self.log("mkstemp", dir=d, path=path, fd=fd.z, name=name)
            return (fd, pyops.mk_str(path))

        def fs_walk(I, a, k):
            top = self.sz(I, a[0])
            self.touch("walk", top, "listdir")
            self.log("walk", path=top)

            def mk(I2):
                root = I2.ctx.fresh_str("walkroot")
                I2.ctx.assume(z3.And(NORMABS(root), inside(top, root)), "T-os: os.walk roots lie below the top directory (directory symlinks not followed)")

                def mkfile(I3):
                    f = I3.ctx.fresh_str("walkfile")
                    I3.ctx.assume(z3.And(pb.not_contains(f, "/"), f != z3.StringVal("")))
                    return SStr(f)
                return (SStr(root), TheoryObj("symiter", fields={"mk": lambda I3: SStr(I3.ctx.fresh_str("d"))}),
                        TheoryObj("symiter", fields={"mk": mkfile}))
            return TheoryObj("symiter", fields={"mk": mk})

        def py_open(I, a, k):
            p = self.sz(I, a[0])
            mode = a[1] if len(a) > 1 else k.get("mode", "r")
            self.touch("open", p, "open")
            self.maybe_fault(I, "open", ["FileNotFoundError", "IsADirectoryError", "PermissionError"] if self.fault_classes else None)
            self.log("open", path=p, mode=mode)
            return TheoryObj("pyfile", fields={"path": p, "mode": mode})

        M["os.path.exists"] = fs_exists
        M["os.path.getsize"] = fs_getsize
        M["os.path.getmtime"] = fs_getmtime
        M["os.makedirs"] = fs_makedirs
        M["os.remove"] = fs_remove
        M["os.unlink"] = fs_remove
        M["os.replace"] = fs_replace

        def fs_rename(I, a, k):
            I.ctx.use("T-os(POSIX): os.rename onto an existing file replaces it atomically, exactly like os.replace")
            return fs_replace(I, a, k)
        M["os.rename"] = fs_rename
        M["os.open"] = fs_open_fd
        M["os.write"] = fs_write
        M["os.fsync"] = fs_fsync
        M["os.close"] = fs_close
        M["tempfile.mkstemp"] = fs_mkstemp
        M["os.walk"] = fs_walk
        from ..values import Builtin
        reg.builtins["open"] = Builtin("open", py_open)
        T = reg.theory_methods
        T[("pyfile", "__enter__")] = lambda I, o, a, k: o
        T[("pyfile", "__exit__")] = lambda I, o, a, k: None

        def f_read(I, o, a, k):
            self.log("read", path=o.fields["path"])
            return SBytes(I.ctx.fresh_str("filedata"))
        T[("pyfile", "read")] = f_read
        T[("pyfile", "close")] = lambda I, o, a, k: None
