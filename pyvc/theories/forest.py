"""T-forest: lists of heap objects of unknown length ("reflist"), used for TableMetadata.snapshots / snapshot_log (C15, C09).

A reflist is a TheoryObj("reflist") with fields
    cls    heap class with generation tag, e.g. "Snapshot@0" (deepcopy gives a new generation = separate attribute arrays)
    mem    z3 Array Int->Bool : addresses of the elements (for Snapshot the address IS the snapshot id - precondition
           'ids unique in one list', part of WF; for HistoryEntry a ghost address)
    dom    order domain: {"pos": Array Int->Int, "univ": Array Int->Bool, "n": Int|None, "contig": bool, "facts1", "facts2"}
           position = order key inside the domain; filtered / sliced lists share the domain of their source
    n      z3 Int length or None (unknown)
    rev    iteration direction flag (reversed view)

Quantified facts (positions injective / within 0..n-1 / stable sort order / append order) are instantiated ON DEMAND for every
element term the engine or a harness introduces ("known terms") - sound (instances of true facts), incomplete in general.
Everything definable pointwise (filter, slice, dict/set comprehension, index shift of `del`) is a z3 Lambda.

What this theory assumes about Python (T-py/list): sorted() is stable and a permutation, list comprehension keeps order,
slicing semantics of negative indices, `del l[i]` shifts later elements by one, deepcopy yields an isomorphic disjoint graph.
"""
from __future__ import annotations

import ast

import z3

from .. import pyops
from ..ctx import PathEnd, Unsupported
from ..pyops import PyExc
from ..values import (PDict, PList, SBool, SInt, SMapZ, SObj, SOpt, SRef, SSetZ, TheoryObj, to_z3, wrap)

INT = z3.IntSort()
BOOL = z3.BoolSort()


def base_cls(cls: str) -> str:
    return cls.split("@", 1)[0]


# --------------------------------------------------------------------------------------------- heap declaration
def declare(I_or_ctx, cls: str, fields: dict):
    """declare heap fields for base class `cls`: {'attr': kind}; kind 'self' = the address itself, ('opt','int') optional int"""
    ctx = getattr(I_or_ctx, "ctx", I_or_ctx)
    sch = ctx.ghost.setdefault("heap_schema", {})
    for a, k in fields.items():
        sch[(cls, a)] = k


def _sort_of(kind):
    if kind == "int" or kind == "self":
        return INT
    if kind == "bool":
        return BOOL
    if kind == "str":
        return z3.StringSort()
    raise Unsupported(f"forest: heap kind {kind}")


def new_generation(ctx, cls_base: str, src_cls: str | None = None) -> str:
    g = ctx.ghost.setdefault("heap_gen", {})
    k = g.get(cls_base, 0)
    g[cls_base] = k + 1
    cls = f"{cls_base}@{k}"
    arrs = ctx.ghost.setdefault("heap", {})
    sch = ctx.ghost.setdefault("heap_schema", {})
    for (c, a), kind in list(sch.items()):
        if c != cls_base or kind == "self":
            continue
        if isinstance(kind, tuple) and kind[0] == "opt":
            if src_cls is None:
                arrs[(cls, a)] = ctx.fresh(f"{cls}.{a}", z3.ArraySort(INT, _sort_of(kind[1])))
                arrs[(cls, a, "none")] = ctx.fresh(f"{cls}.{a}.isnone", z3.ArraySort(INT, BOOL))
            else:
                arrs[(cls, a)] = arrs[(src_cls, a)]
                arrs[(cls, a, "none")] = arrs[(src_cls, a, "none")]
        else:
            arrs[(cls, a)] = ctx.fresh(f"{cls}.{a}", z3.ArraySort(INT, _sort_of(kind))) if src_cls is None else arrs[(src_cls, a)]
    return cls


def field(ctx, cls: str, attr: str, addr):
    """z3 term of heap field (current state); optional fields -> (isnone, value)"""
    kind = ctx.ghost["heap_schema"][(base_cls(cls), attr)]
    arrs = ctx.ghost["heap"]
    if kind == "self":
        return addr
    if isinstance(kind, tuple) and kind[0] == "opt":
        return z3.Select(arrs[(cls, attr, "none")], addr), z3.Select(arrs[(cls, attr)], addr)
    return z3.Select(arrs[(cls, attr)], addr)


def heap_snapshot(ctx, cls: str) -> dict:
    """the current attribute arrays of a generation (immutable z3 terms): for 'old' values in postconditions"""
    return {k: v for k, v in ctx.ghost["heap"].items() if k[0] == cls}


# --------------------------------------------------------------------------------------------- known terms / facts
def _terms(ctx, cb):
    return ctx.ghost.setdefault("forest_terms", {}).setdefault(cb, [])


def _domains(ctx, cb):
    return ctx.ghost.setdefault("forest_domains", {}).setdefault(cb, [])


def know(ctx, cls: str, term):
    """register an element term: instantiate every domain's facts for it"""
    cb = base_cls(cls)
    ts = _terms(ctx, cb)
    if any(t.eq(term) for t in ts):
        return
    for d in _domains(ctx, cb):
        for f in d["facts1"](term):
            ctx.assume(f)
        for u in ts:
            for f in d["facts2"](term, u) + d["facts2"](u, term):
                ctx.assume(f)
    ts.append(term)


def new_domain(ctx, cls: str, univ, n, contig: bool, pos=None, extra2=None, name="pos"):
    cb = base_cls(cls)
    pos = pos if pos is not None else ctx.fresh(name, z3.ArraySort(INT, INT))
    d = {"pos": pos, "univ": univ, "n": n, "contig": contig}

    def facts1(x):
        out = []
        if contig and n is not None:
            out.append(z3.Implies(z3.Select(univ, x), z3.And(z3.Select(pos, x) >= 0, z3.Select(pos, x) < n)))
        return out

    def facts2(x, y):
        out = [z3.Implies(z3.And(z3.Select(univ, x), z3.Select(univ, y), x != y), z3.Select(pos, x) != z3.Select(pos, y))]
        if extra2 is not None:
            out += extra2(pos, x, y)
        return out
    d["facts1"], d["facts2"] = facts1, facts2
    ts = _terms(ctx, cb)
    for i, t in enumerate(ts):
        for f in facts1(t):
            ctx.assume(f)
        for u in ts[:i]:
            for f in facts2(t, u) + facts2(u, t):
                ctx.assume(f)
    _domains(ctx, cb).append(d)
    if n is not None:
        ctx.assume(n >= 0)
        if contig:
            ctx.assume((n == 0) == (univ == z3.K(INT, z3.BoolVal(False))))     # length 0 <=> no element
    return d


def mk_reflist(ctx, cls: str, mem, dom, n=None, rev=False, label=""):
    return TheoryObj("reflist", label=label, fields={"cls": cls, "mem": mem, "dom": dom, "n": n, "rev": rev})


def fresh_reflist(ctx, cls_base: str, name: str, cls: str | None = None):
    """an arbitrary list (contiguous positions 0..n-1) of objects of a fresh (or the given) generation"""
    cls = cls or new_generation(ctx, cls_base)
    mem = ctx.fresh(f"{name}_mem", z3.ArraySort(INT, BOOL))
    n = ctx.fresh_int(f"{name}_len")
    dom = new_domain(ctx, cls, mem, n, True, name=f"{name}_pos")
    return mk_reflist(ctx, cls, mem, dom, n, label=name)


def is_reflist(v):
    return isinstance(v, TheoryObj) and v.theory == "reflist"


def ref_of(rl, addr):
    return SRef(rl.fields["cls"], addr)


def member(rl, addr):
    return z3.Select(rl.fields["mem"], addr)


def position(rl, addr):
    return z3.Select(rl.fields["dom"]["pos"], addr)


def nonempty_witness(I, rl):
    """n > 0 => some element exists (skolem)"""
    ctx = I.ctx
    n = rl.fields["n"]
    w = ctx.fresh_int("some_elem")
    know(ctx, rl.fields["cls"], w)
    if n is not None:
        ctx.assume(z3.Implies(n > 0, member(rl, w)))
        ctx.assume(z3.Implies(member(rl, w), n > 0))
    return w


# --------------------------------------------------------------------------------------------- pure evaluation on a bound variable
class _Pure:
    def __init__(self, I):
        self.I = I

    def __enter__(self):
        self.I.pure_depth = getattr(self.I, "pure_depth", 0) + 1

    def __exit__(self, *a):
        self.I.pure_depth -= 1


def pure_eval(I, node, env, target, elem):
    """evaluate expression `node` with `target` bound to `elem`, without forking (BoolOp/IfExp become z3 terms)"""
    from ..engine import Env
    e2 = Env(env.module, parent=env, fn=env.fn)
    I.assign(target, elem, e2)
    with _Pure(I):
        try:
            return I.eval(node, e2)
        except PyExc as ex:
            raise Unsupported(f"forest: element expression may raise {ex.cls} (not expressible pointwise)")


def pure_call(I, fn, elem):
    with _Pure(I):
        try:
            return I.force(I.call(fn, [elem], {}))
        except PyExc as ex:
            raise Unsupported(f"forest: key function may raise {ex.cls}")


def _cond_term(I, g, env, elem):
    conds = []
    for cnd in g.ifs:
        v = pure_eval(I, cnd, env, g.target, elem)
        conds.append(pyops.bool_z(I.truth(v)))
    return z3.And(*conds) if conds else z3.BoolVal(True)


def comprehension(I, what, node, rl, env):
    """[elt for x in RL if c] / {k: v for ..} / {e for ..} / (gen) over a reflist"""
    ctx = I.ctx
    if len(node.generators) != 1:
        raise Unsupported("forest: nested comprehension over a reflist")
    g = node.generators[0]
    a = ctx.fresh_int("bv")
    elem = ref_of(rl, a)
    cond = _cond_term(I, g, env, elem)
    mem = rl.fields["mem"]
    sel = z3.And(z3.Select(mem, a), cond)
    if what == "gen":
        return TheoryObj("reflist_gen", fields={"rl": rl, "node": node, "env": env})
    if what == "list":
        v = pure_eval(I, node.elt, env, g.target, elem)
        if isinstance(v, SRef) and v.z.eq(a):
            n2 = rl.fields["n"] if not g.ifs else None
            out = mk_reflist(ctx, rl.fields["cls"], z3.Lambda([a], sel), rl.fields["dom"], n2, rl.fields["rev"], label=f"[.. for .. in {rl.label}]")
            if n2 is None:
                m = ctx.fresh_int("len_filtered")
                ctx.assume(m >= 0)
                if rl.fields["n"] is not None:
                    ctx.assume(m <= rl.fields["n"])
                out.fields["n"] = m
            return out
        v = I.force(v)
        if isinstance(v, SInt):
            # a list of integers computed pointwise from the elements: only its bag of values is modelled (max/min/in)
            return TheoryObj("intbag", fields={"rl": rl, "sel": z3.Lambda([a], sel), "val": z3.Lambda([a], v.z), "extra": [],
                                               "__overloads__": True})
        raise Unsupported("forest: list comprehension producing something other than the elements themselves or integers")
    if what == "set":
        v = I.force(pure_eval(I, node.elt, env, g.target, elem))
        vz = to_z3(v)
        if vz.eq(a):
            return SSetZ("int", z3.Lambda([a], sel))
        raise Unsupported("forest: set comprehension whose element is not the address (snapshot id) itself")
    if what == "dict":
        k = I.force(pure_eval(I, node.key, env, g.target, elem))
        if not to_z3(k).eq(a):
            raise Unsupported("forest: dict comprehension keyed by something other than the address (snapshot id)")
        v = pure_eval(I, node.value, env, g.target, elem)
        if isinstance(v, SOpt):
            return SMapZ("int", ("opt", "int"), z3.Lambda([a], sel), z3.Lambda([a], to_z3(v.val)), z3.Lambda([a], v.isnone))
        v = I.force(v)
        if isinstance(v, SInt):
            return SMapZ("int", "int", z3.Lambda([a], sel), z3.Lambda([a], v.z))
        raise Unsupported("forest: dict comprehension value kind")
    raise Unsupported(f"forest: comprehension kind {what}")


# --------------------------------------------------------------------------------------------- builtins on reflists
def _first(fn):
    def wrapped(I, args, kw, _prev=None):
        return fn(I, args, kw)
    return wrapped


def b_len(I, rl):
    n = rl.fields["n"]
    if n is None:
        n = I.ctx.fresh_int("len")
        I.ctx.assume(n >= 0)
        rl.fields["n"] = n
    return SInt(n)


def b_list(I, rl):
    return mk_reflist(I.ctx, rl.fields["cls"], rl.fields["mem"], rl.fields["dom"], rl.fields["n"], rl.fields["rev"], label=f"list({rl.label})")


def b_reversed(I, rl):
    return mk_reflist(I.ctx, rl.fields["cls"], rl.fields["mem"], rl.fields["dom"], rl.fields["n"], not rl.fields["rev"], label=f"reversed({rl.label})")


def b_sorted(I, rl, kw):
    ctx = I.ctx
    key = kw.get("key")
    if key is None or kw.get("reverse"):
        raise Unsupported("forest: sorted() without key / with reverse")
    if rl.fields["rev"]:
        raise Unsupported("forest: sorted(reversed(..))")
    cls = rl.fields["cls"]
    old = rl.fields["dom"]["pos"]
    mem = rl.fields["mem"]

    def keyterm(x):
        v = pure_call(I, key, SRef(cls, x))
        return pyops.int_z(v)
    # the key is read NOW (heap state at the time of the call)
    a = ctx.fresh_int("bv")
    karr = z3.Lambda([a], keyterm(a))

    def extra2(pos, x, y):
        kx, ky = z3.Select(karr, x), z3.Select(karr, y)
        both = z3.And(z3.Select(mem, x), z3.Select(mem, y), x != y)
        before = z3.Or(kx < ky, z3.And(kx == ky, z3.Select(old, x) < z3.Select(old, y)))
        return [z3.Implies(both, (z3.Select(pos, x) < z3.Select(pos, y)) == before)]
    n = rl.fields["n"]
    if n is None:
        n = b_len(I, rl).z
    dom = new_domain(ctx, cls, mem, n, True, extra2=extra2, name="sorted_pos")
    ctx.use("T-py/list: sorted(key=) is a stable permutation")
    return mk_reflist(ctx, cls, mem, dom, n, label=f"sorted({rl.label})")


def slice_(I, rl, lo, hi):
    ctx = I.ctx
    dom = rl.fields["dom"]
    if not dom["contig"] or rl.fields["rev"] or not rl.fields["mem"].eq(dom["univ"]):
        raise Unsupported("forest: slice of a list whose positions are not known to be 0..n-1")
    n = rl.fields["n"]
    i = pyops.int_z(lo) if lo is not None else z3.IntVal(0)
    start = z3.If(i < 0, z3.If(n + i > 0, n + i, z3.IntVal(0)), z3.If(i < n, i, n))
    a = ctx.fresh_int("bv")
    if hi is None:
        stop = n
    else:
        j = pyops.int_z(hi)
        stop = z3.If(j < 0, z3.If(n + j > 0, n + j, z3.IntVal(0)), z3.If(j < n, j, n))
    mem2 = z3.Lambda([a], z3.And(z3.Select(rl.fields["mem"], a), z3.Select(dom["pos"], a) >= start, z3.Select(dom["pos"], a) < stop))
    ctx.use("T-py/list: l[i:j] keeps the elements at positions clamp(i) <= p < clamp(j) (negative indices count from the end)")
    return mk_reflist(ctx, rl.fields["cls"], mem2, dom, z3.If(stop > start, stop - start, z3.IntVal(0)), label=f"{rl.label}[{lo}:{hi}]")


def m_append(I, rl, args, kw):
    ctx = I.ctx
    x = I.force(args[0])
    cls = rl.fields["cls"]
    addr = addr_of(I, rl, x)
    old_dom = rl.fields["dom"]
    old_mem = rl.fields["mem"]
    if rl.fields["rev"]:
        raise Unsupported("forest: append to a reversed view")
    n = rl.fields["n"]

    def extra2(pos, p, q):
        op = old_dom["pos"]
        inold = lambda t: z3.And(z3.Select(old_mem, t), t != addr)
        return [z3.Implies(z3.And(inold(p), inold(q)), (z3.Select(pos, p) < z3.Select(pos, q)) == (z3.Select(op, p) < z3.Select(op, q))),
                z3.Implies(z3.And(inold(p), q == addr), z3.Select(pos, p) < z3.Select(pos, q))]
    mem2 = z3.Store(old_mem, addr, z3.BoolVal(True))
    contig = old_dom["contig"] and old_mem.eq(old_dom["univ"]) and n is not None
    n2 = None
    if n is not None:
        n2 = z3.If(z3.Select(old_mem, addr), n, n + 1)   # list semantics would give n+1; an address already present = same object twice
    dom = new_domain(ctx, cls, mem2, n2, False, extra2=extra2, name="app_pos")
    if contig:
        # contiguous source: old positions unchanged, the new element sits at index n
        dom["contig"] = True
        a = ctx.fresh_int("bv")
        dom["pos"] = z3.Lambda([a], z3.If(a == addr, n, z3.Select(old_dom["pos"], a)))
        pos = dom["pos"]
        dom["facts1"] = (lambda x_: [z3.Implies(z3.Select(mem2, x_), z3.And(z3.Select(pos, x_) >= 0, z3.Select(pos, x_) < n2))])
        dom["facts2"] = (lambda p, q: [z3.Implies(z3.And(z3.Select(mem2, p), z3.Select(mem2, q), p != q), z3.Select(pos, p) != z3.Select(pos, q))])
    ctx.ghost.setdefault("forest_appends", []).append({"list": rl, "addr": addr, "already": z3.Select(old_mem, addr)})
    rl.fields["mem"], rl.fields["dom"], rl.fields["n"] = mem2, dom, n2
    know(ctx, cls, addr)
    return None


def addr_of(I, rl, x):
    """address of value x when stored into list rl: refs keep theirs; a freshly constructed SObj is written into the heap"""
    ctx = I.ctx
    cls = rl.fields["cls"]
    cb = base_cls(cls)
    if isinstance(x, SRef):
        if base_cls(x.cls) != cb:
            raise Unsupported("forest: element of another class")
        if x.cls != cls:
            raise Unsupported(f"forest: object of generation {x.cls} stored into a list of generation {cls} (shared between copies)")
        return x.z
    if isinstance(x, SObj) and x.cls == cb:
        sch = ctx.ghost["heap_schema"]
        selfattr = [a for (c, a), k in sch.items() if c == cb and k == "self"]
        if selfattr:
            addr = pyops.int_z(I.force(x.fields[selfattr[0]]))
        else:
            addr = ctx.fresh_int(f"{cb}_addr")
            ctx.assume(z3.Not(z3.Select(rl.fields["mem"], addr)))    # allocation: a new object is not yet in the list
        for (c, a), k in sch.items():
            if c != cb or k == "self":
                continue
            if a not in x.fields:
                raise Unsupported(f"forest: constructed {cb} lacks field {a}")
            I.heap_set(SRef(cls, addr), a, x.fields[a])
        x.fields["__addr__"] = (cls, addr)
        return addr
    conv = ctx.ghost.get("forest_convert", {}).get(cb)
    if conv is not None:
        fields = conv(I, x)
        if fields is not None:
            addr = ctx.fresh_int(f"{cb}_addr")
            ctx.assume(z3.Not(z3.Select(rl.fields["mem"], addr)))
            for a, v in fields.items():
                I.heap_set(SRef(cls, addr), a, v)
            return addr
    raise Unsupported(f"forest: cannot store {type(x).__name__} into a reflist")


def m_delitem(I, rl, args, kw):
    ctx = I.ctx
    idx = I.force(args[0])
    dom = rl.fields["dom"]
    if not dom["contig"] or rl.fields["rev"] or not rl.fields["mem"].eq(dom["univ"]) or rl.fields["n"] is None:
        raise Unsupported("forest: del l[i] on a list whose positions are not known to be 0..n-1")
    i = pyops.int_z(idx)
    n = rl.fields["n"]
    if not ctx.decide(z3.And(i >= -n, i < n), "del-index-in-range"):
        raise PyExc("IndexError")
    j = z3.If(i < 0, n + i, i)
    a = ctx.fresh_int("bv")
    mem, pos = rl.fields["mem"], dom["pos"]
    mem2 = z3.Lambda([a], z3.And(z3.Select(mem, a), z3.Select(pos, a) != j))
    pos2 = z3.Lambda([a], z3.If(z3.Select(pos, a) > j, z3.Select(pos, a) - 1, z3.Select(pos, a)))
    d2 = new_domain(ctx, rl.fields["cls"], mem2, n - 1, True, pos=pos2)
    ctx.use("T-py/list: del l[i] removes position i and shifts later elements down by one")
    rl.fields["mem"], rl.fields["dom"], rl.fields["n"] = mem2, d2, n - 1
    return None


def m_pop(I, rl, args, kw):
    """l.pop(i=-1): the element at i, then del l[i] (IndexError on an empty list / out-of-range index)"""
    idx = args[0] if args else -1
    x = m_getitem(I, rl, [idx], {})
    m_delitem(I, rl, [idx], {})
    return x


def m_getitem(I, rl, args, kw):
    ctx = I.ctx
    idx = I.force(args[0])
    dom = rl.fields["dom"]
    if not dom["contig"] or not rl.fields["mem"].eq(dom["univ"]) or rl.fields["n"] is None:
        raise Unsupported("forest: l[i] on a list whose positions are not known to be 0..n-1")
    i = pyops.int_z(idx)
    n = rl.fields["n"]
    if not ctx.decide(z3.And(i >= -n, i < n), "index-in-range"):
        raise PyExc("IndexError")
    j = z3.If(i < 0, n + i, i)
    if rl.fields["rev"]:
        j = n - 1 - j
    x = ctx.fresh_int("elem_at")
    ctx.assume(z3.And(member(rl, x), position(rl, x) == j))
    know(ctx, rl.fields["cls"], x)
    return ref_of(rl, x)


def _gen_parts(I, gen):
    rl, node, env = gen.fields["rl"], gen.fields["node"], gen.fields["env"]
    g = node.generators[0]
    return rl, node, env, g


def b_next(I, gen, default, has_default):
    """next((elt for x in RL if c), default): the FIRST element (list order) satisfying c"""
    ctx = I.ctx
    rl, node, env, g = _gen_parts(I, gen)
    cls = rl.fields["cls"]

    def c_of(t):
        return z3.And(member(rl, t), _cond_term(I, g, env, ref_of(rl, t)))
    found = ctx.flip("next-found")
    if found:
        r = ctx.fresh_int("next_elem")
        know(ctx, cls, r)
        ctx.assume(c_of(r))
        for t in list(_terms(ctx, base_cls(cls))):
            before = position(rl, t) < position(rl, r) if not rl.fields["rev"] else position(rl, t) > position(rl, r)
            ctx.assume(z3.Implies(c_of(t), z3.Not(before)))
        v = pure_eval(I, node.elt, env, g.target, ref_of(rl, r))
        return v
    for t in list(_terms(ctx, base_cls(cls))):
        ctx.assume(z3.Not(c_of(t)))
    gen.fields.setdefault("none_hooks", [])
    ctx.ghost.setdefault("forest_forall_neg", []).append(c_of)     # harness witnesses introduced later can instantiate it
    if has_default:
        return default
    raise PyExc("StopIteration")


def b_all_any(I, gen, is_any):
    ctx = I.ctx
    rl, node, env, g = _gen_parts(I, gen)
    cls = rl.fields["cls"]

    def p_of(t):
        e = ref_of(rl, t)
        return z3.And(member(rl, t), _cond_term(I, g, env, e)), pyops.bool_z(I.truth(pure_eval(I, node.elt, env, g.target, e)))
    r = ctx.flip("any-true" if is_any else "all-true")
    if r == is_any:
        # any -> True / all -> False : some element decides it (skolem)
        w = ctx.fresh_int("decider")
        know(ctx, cls, w)
        sel, p = p_of(w)
        ctx.assume(z3.And(sel, p if is_any else z3.Not(p)))
        return r
    for t in list(_terms(ctx, base_cls(cls))):
        sel, p = p_of(t)
        ctx.assume(z3.Implies(sel, z3.Not(p) if is_any else p))
    ctx.ghost.setdefault("forest_forall", []).append((p_of, is_any))
    return r


def b_max(I, rl, kw):
    ctx = I.ctx
    key = kw.get("key")
    if key is None:
        raise Unsupported("forest: max() of objects without key")
    cls = rl.fields["cls"]
    n = b_len(I, rl).z
    if not ctx.decide(n > 0, "max-nonempty"):
        if "default" in kw:
            return kw["default"]
        raise PyExc("ValueError", "max() of empty sequence")
    r = ctx.fresh_int("max_elem")
    know(ctx, cls, r)
    ctx.assume(member(rl, r))
    kr = pyops.int_z(pure_call(I, key, ref_of(rl, r)))
    for t in list(_terms(ctx, base_cls(cls))):
        kt = pyops.int_z(pure_call(I, key, ref_of(rl, t)))
        ctx.assume(z3.Implies(member(rl, t), kt <= kr))
    ctx.ghost.setdefault("forest_max", []).append((rl, key, r))
    return ref_of(rl, r)


def _bag_concat(I, bag, other, other_first):
    other = I.force(other)
    if isinstance(other, PList) and all(isinstance(I.force(x), (int, SInt)) and not isinstance(I.force(x), bool) for x in other.items):
        f2 = dict(bag.fields)
        f2["extra"] = list(bag.fields["extra"]) + [pyops.int_z(I.force(x)) for x in other.items]
        return TheoryObj("intbag", fields=f2)
    raise Unsupported("forest: concatenation of an integer bag with something else than a list of ints")


def bag_minmax(I, bag, is_max, kw):
    ctx = I.ctx
    rl = bag.fields["rl"]
    cls = rl.fields["cls"]
    extra = bag.fields["extra"]
    sel, val = bag.fields["sel"], bag.fields["val"]
    ne = nonempty_witness(I, rl)
    r = ctx.fresh_int("max" if is_max else "min")
    e = ctx.fresh_int("arg")
    know(ctx, cls, e)
    cmp_ = (lambda x, y: x <= y) if is_max else (lambda x, y: x >= y)
    if not extra:
        w = ctx.fresh_int("some")
        know(ctx, cls, w)
        if not ctx.decide(z3.Select(sel, w), "bag-nonempty"):
            # no selected element is known to exist: the bag may be empty
            if ctx.flip("bag-empty"):
                for t in list(_terms(ctx, base_cls(cls))):
                    ctx.assume(z3.Not(z3.Select(sel, t)))
                if "default" in kw:
                    return kw["default"]
                raise PyExc("ValueError", "max()/min() of an empty sequence")
    ctx.assume(z3.Or(z3.And(z3.Select(sel, e), r == z3.Select(val, e)), *[r == x for x in extra]))
    for x in extra:
        ctx.assume(cmp_(x, r))
    for t in list(_terms(ctx, base_cls(cls))):
        ctx.assume(z3.Implies(z3.Select(sel, t), cmp_(z3.Select(val, t), r)))
    ctx.ghost.setdefault("forest_bag_bounds", []).append((sel, val, r, is_max))
    return SInt(r)


# --------------------------------------------------------------------------------------------- deepcopy
def deepcopy_reflist(I, rl):
    ctx = I.ctx
    cls2 = new_generation(ctx, base_cls(rl.fields["cls"]), src_cls=rl.fields["cls"])
    out = mk_reflist(ctx, cls2, rl.fields["mem"], rl.fields["dom"], rl.fields["n"], rl.fields["rev"], label=f"deepcopy({rl.label})")
    return out


def deepcopy_value(I, v):
    """deepcopy of the value shapes that occur in TableMetadata"""
    if is_reflist(v):
        return deepcopy_reflist(I, v)
    if isinstance(v, SObj):
        o = SObj(v.cls, {k: deepcopy_value(I, x) for k, x in v.fields.items()}, label=f"deepcopy({v.label})")
        return o
    if isinstance(v, PList):
        return PList([deepcopy_value(I, x) for x in v.items])
    if isinstance(v, PDict):
        d = PDict({k: deepcopy_value(I, x) for k, x in v.d.items()})
        if getattr(v, "sym_items", None):
            d.sym_items = list(v.sym_items)
        return d
    if isinstance(v, TheoryObj):
        if v.theory in ("symdict",):
            return v
        if v.theory == "symiter":
            f2 = dict(v.fields)
            f2["copy_of"] = v
            return TheoryObj("symiter", label=v.label, fields=f2)
        raise Unsupported(f"forest: deepcopy of theory object {v.theory}")
    return v     # immutable scalars / symbolic scalars


# --------------------------------------------------------------------------------------------- for loops
def for_cut(I, node, env, spec, rl):
    """invariant cut of `for x in RL` (also enumerate(RL) -> (index, x)).  `it` gives the invariant:
       it['done']  z3 set of addresses already visited   it['elem'] address being visited (body / after_body)
       it['rl'] the list, it['final'] on the exit path."""
    from ..engine import BreakSig, ContinueSig
    c = I.ctx
    enum = None
    if isinstance(rl, TheoryObj) and rl.theory == "reflist_enum":
        enum = rl
        rl = rl.fields["rl"]
    cls = rl.fields["cls"]
    mem = rl.fields["mem"]
    pos = rl.fields["dom"]["pos"]
    rev = rl.fields["rev"]
    it = {"kind": "for", "iter": rl, "rl": rl, "done": z3.EmptySet(INT)}
    for nm, inv in spec.invariant(I, env, it) if spec.invariant else []:
        c.check(f"loop{node.lineno}:{spec.name}:inv-entry:{nm}", inv)
    names = I.assigned_names(node.body, spec) + (spec.modifies or [])
    for sub in ast.walk(node.target):
        if isinstance(sub, ast.Name) and sub.id in names:
            names.remove(sub.id)
    for nm in names:
        ok, old = env.lookup(nm)
        if ok and nm in env.vars and nm not in spec.skip:
            env.vars[nm] = I.havoc_value(old, nm)
    if spec.havoc:
        spec.havoc(I, env, it)
    more = c.flip("for-more")
    a = c.fresh_int("bv")
    if not more:
        it["done"] = mem
        it["final"] = True
        for nm, inv in spec.invariant(I, env, it) if spec.invariant else []:
            c.assume(inv)
        if getattr(spec, "on_exit", None):
            spec.on_exit(I, env, it)
        I.exec_block(node.orelse, env)
        return
    x = c.fresh_int("elem")
    c.assume(z3.Select(mem, x))
    know(c, cls, x)
    px = z3.Select(pos, x)
    it["done"] = z3.Lambda([a], z3.And(z3.Select(mem, a), (z3.Select(pos, a) > px) if rev else (z3.Select(pos, a) < px)))
    it["elem"] = x
    for nm, inv in spec.invariant(I, env, it) if spec.invariant else []:
        c.assume(inv)
    item = SRef(cls, x)
    if enum is not None:
        dom = rl.fields["dom"]
        if not dom["contig"] or rev or not mem.eq(dom["univ"]):
            raise Unsupported("forest: enumerate over a list whose positions are not known to be 0..n-1")
        item = (SInt(px + pyops.int_z(enum.fields["start"])), item)
    I.assign(node.target, item, env)
    try:
        I.exec_block(node.body, env)
    except BreakSig:
        return
    except ContinueSig:
        pass
    it["after_body"] = True
    it["done"] = z3.Lambda([a], z3.And(z3.Select(mem, a), (z3.Select(pos, a) >= px) if rev else (z3.Select(pos, a) <= px)))
    for nm, inv in spec.invariant(I, env, it) if spec.invariant else []:
        c.check(f"loop{node.lineno}:{spec.name}:inv-preserved:{nm}", inv)
    raise PathEnd()


# --------------------------------------------------------------------------------------------- install
def install(reg):
    from ..values import Builtin
    B = reg.builtins
    prev = {k: B[k] for k in ("len", "list", "sorted", "reversed", "enumerate", "max", "min", "next", "all", "any")}

    def over(name, fn):
        p = prev[name]

        def wrapped(I, args, kw):
            if args:
                v = I.force(args[0])
                r = fn(I, v, args, kw)
                if r is not NotImplemented:
                    return r
            return p.fn(I, args, kw)
        B[name] = Builtin(name, wrapped)
    over("len", lambda I, v, a, k: b_len(I, v) if is_reflist(v) else NotImplemented)
    over("list", lambda I, v, a, k: b_list(I, v) if is_reflist(v) else NotImplemented)
    over("sorted", lambda I, v, a, k: b_sorted(I, v, k) if is_reflist(v) else NotImplemented)
    over("reversed", lambda I, v, a, k: b_reversed(I, v) if is_reflist(v) else NotImplemented)
    over("enumerate", lambda I, v, a, k: TheoryObj("reflist_enum", fields={"rl": v, "start": k.get("start", a[1] if len(a) > 1 else 0)}) if is_reflist(v) else NotImplemented)
    isbag = lambda v: isinstance(v, TheoryObj) and v.theory == "intbag"
    isgen = lambda v: isinstance(v, TheoryObj) and v.theory == "reflist_gen"

    def gen_as_bag(I, gen):
        """max/min over a generator expression = over the list it would produce (the bag of its values)"""
        rl, node, env, _g = _gen_parts(I, gen)
        bag = comprehension(I, "list", node, rl, env)
        return bag if isbag(bag) else None

    def minmax(is_max):
        def fn(I, v, a, k):
            if len(a) != 1:
                return NotImplemented
            if is_max and is_reflist(v):
                return b_max(I, v, k)
            if isbag(v):
                return bag_minmax(I, v, is_max, k)
            if isgen(v):
                bag = gen_as_bag(I, v)
                if bag is not None:
                    return bag_minmax(I, bag, is_max, k)
            return NotImplemented
        return fn
    over("max", minmax(True))
    over("min", minmax(False))
    over("next", lambda I, v, a, k: b_next(I, v, a[1] if len(a) > 1 else None, len(a) > 1) if isgen(v) else NotImplemented)
    over("all", lambda I, v, a, k: b_all_any(I, v, False) if isgen(v) else NotImplemented)
    over("any", lambda I, v, a, k: b_all_any(I, v, True) if isgen(v) else NotImplemented)
    T = reg.theory_methods
    T[("reflist", "append")] = m_append
    T[("intbag", "__add__")] = lambda I, o, a, k: _bag_concat(I, o, a[0], False)
    T[("intbag", "__radd__")] = lambda I, o, a, k: _bag_concat(I, o, a[0], True)
    T[("reflist", "__delitem__")] = m_delitem
    T[("reflist", "__getitem__")] = m_getitem
    T[("reflist", "pop")] = m_pop
    T[("reflist", "__len__")] = lambda I, o, a, k: b_len(I, o)
    T[("reflist", "copy")] = lambda I, o, a, k: b_list(I, o)
    def set_minmax(is_max):
        def fn(I, args, kw):
            v = args[0]
            if not isinstance(v, SSetZ) or v.kind != "int":
                raise Unsupported("max/min over a symbolic collection other than a set of ints")
            ctx = I.ctx
            if not ctx.decide(v.z != z3.EmptySet(INT), "set-nonempty"):
                if "default" in kw:
                    return kw["default"]
                raise PyExc("ValueError", "max()/min() of an empty set")
            r = ctx.fresh_int("set_max" if is_max else "set_min")
            ctx.assume(z3.IsMember(r, v.z))
            for cb in ("Snapshot", "HistoryEntry"):
                for t in list(_terms(ctx, cb)):
                    ctx.assume(z3.Implies(z3.IsMember(t, v.z), (t <= r) if is_max else (t >= r)))
            know(ctx, "Snapshot", r)
            return SInt(r)
        return fn
    B["__max_symbolic__"] = Builtin("__max_symbolic__", set_minmax(True))
    B["__min_symbolic__"] = Builtin("__min_symbolic__", set_minmax(False))
    B["__reflist_comprehension__"] = Builtin("__reflist_comprehension__", comprehension)
    B["__reflist_for__"] = Builtin("__reflist_for__", for_cut)
    B["__reflist_slice__"] = Builtin("__reflist_slice__", slice_)

    def deepcopy(I, a, k):
        I.ctx.use("T-py: copy.deepcopy yields an isomorphic object graph that shares nothing mutable with its source")
        return deepcopy_value(I, I.force(a[0]))
    reg.modfuncs["copy.deepcopy"] = deepcopy
