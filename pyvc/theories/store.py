"""T-store: abstract storage state and the atomic-action contracts of the StorageBackend interface.

State  (z3 arrays keyed by the table-relative path string):
   ex : path -> Bool      ct : path -> bytes      mt : path -> Real (seconds)      tag : path -> Int (etag)
Ghost logs: events (every action, in order), written, deleted.

Action contracts (the Local and S3 implementations are proved against T-os / T-s3 in C16/C17/C20):
   exists(p)                 -> ex[p]
   read_file(p)              -> ct[p]            raises FileNotFoundError if not ex[p]
   read_file_with_etag(p)    -> (ct[p], tag[p])  raises FileNotFoundError if not ex[p]
   write_file(p, c)          ex,ct,mt,tag updated (tag fresh, mt = now)
   write_file_cas(p, c, e)   effect iff (e is None and not ex[p]) or (ex[p] and tag[p] == e), else CASConflictError, no effect
   delete_file(p)            ex[p] := False
   list_files(d)             a collection whose arbitrary element r satisfies ex[r] and Under(d, r); designated witnesses w
                             are members iff ex[w] and Under(d, w)  (listing is exact at the instant of the call)
   get_modified_time(p)      -> mt[p]            raises FileNotFoundError/OSError if not ex[p]
   get_size(p)               -> len(ct[p])
Fault edges: before its effect every action may raise one of the configured exception classes ("fault-before"); a write on
a backend with atomic_write_failures == False may also raise *after* its effect ("fault-after").
Paths: a leading '/' is stripped (both backends do so); other spellings ('.', '..', '//') are outside this theory (A-canon).
"""
from __future__ import annotations

from typing import Any, Callable, Dict, List, Optional

import z3

from .. import pyops
from ..ctx import Unsupported
from ..engine import Interp, PyRaise
from ..pyops import PyExc
from ..values import (PDict, PList, SBool, SBytes, SExc, SFloat, SInt, SObj, SOpt, SStr, SXReal, TheoryObj, to_z3)

STR = z3.StringSort()


def under(d, r):
    """r lies below directory d (component-wise); d == '' is the table root"""
    return z3.Or(d == z3.StringVal(""), z3.PrefixOf(z3.Concat(d, z3.StringVal("/")), r))


class Store:
    def __init__(self, h, *, atomic_write_failures=True, supports_cas=False, fault_classes=(), max_faults=1,
                 fault_ops=None, pyclass="LocalStorageBackend", label="storage", env_step: Callable = None,
                 fault_after=None):
        self.h = h
        c = h.ctx
        self.ex = z3.Const("ex0", z3.ArraySort(STR, z3.BoolSort()))
        self.ct = z3.Const("ct0", z3.ArraySort(STR, STR))
        self.mt = z3.Const("mt0", z3.ArraySort(STR, z3.RealSort()))
        self.tag = z3.Const("tag0", z3.ArraySort(STR, z3.IntSort()))
        self.now = z3.Real("now0")
        self.events: List[Dict[str, Any]] = []
        self.deleted: List[Any] = []
        self.written: List[Any] = []
        self.atomic = atomic_write_failures
        self.cas = supports_cas
        self.fault_classes = list(fault_classes)
        self.max_faults = max_faults
        self.fault_ops = fault_ops  # None = all
        self.faults_injected = 0
        self.fault_after = (not atomic_write_failures) if fault_after is None else fault_after
        self.env_step = env_step      # env_step(store, when) : rely/guarantee havoc hook
        self.witnesses: List[Any] = []  # list of z3 path terms to be used as listing witnesses
        self.obj = TheoryObj("storage", label=label, fields={"__pyclass__": pyclass, "store": self})
        self.on_event: Optional[Callable] = None

    # ------------------------------------------------------------------ helpers
    def key(self, I: Interp, path):
        path = I.force(path)
        if isinstance(path, str):
            return z3.StringVal(path.lstrip("/"))
        if not isinstance(path, SStr):
            raise PyExc("TypeError", "storage path must be str")
        p = path.z
        if I.ctx.decide(z3.PrefixOf(z3.StringVal("/"), p), "path-leading-slash"):
            from . import pybuiltins
            return pyops.str_z(pybuiltins.m_lstrip(I, path, ["/"], {}))
        return p

    def log(self, op, **kw):
        ev = dict(op=op, **kw)
        ev["n"] = len(self.events)
        self.events.append(ev)
        if self.on_event is not None:
            self.on_event(ev)
        return ev

    def step(self, I, when):
        if self.env_step is not None:
            self.env_step(self, I, when)

    def maybe_fault(self, I, op, path=None, classes=None):
        if self.fault_ops is not None and op not in self.fault_ops:
            return
        cls = list(classes if classes is not None else self.fault_classes)
        if not cls or self.faults_injected >= self.max_faults:
            return
        k = I.ctx.choose(len(cls) + 1, f"fault:{op}")
        if k == 0:
            return
        self.faults_injected += 1
        ev = self.log("FAULT", at=op, path=path, cls=cls[k - 1], effect=False)
        raise PyRaise(SExc(cls[k - 1], origin=f"fault-before:{op}", fields={"fault": True, "event": ev}))

    def maybe_fault_after(self, I, op, path=None):
        if not self.fault_after or (self.fault_ops is not None and op not in self.fault_ops):
            return
        cls = list(self.fault_classes)
        if not cls or self.faults_injected >= self.max_faults:
            return
        k = I.ctx.choose(len(cls) + 1, f"fault-after:{op}")
        if k == 0:
            return
        self.faults_injected += 1
        ev = self.log("FAULT", at=op, path=path, cls=cls[k - 1], effect=True)
        raise PyRaise(SExc(cls[k - 1], origin=f"fault-after:{op}", fields={"fault": True, "event": ev}))

    def fresh_etag(self, I):
        return I.ctx.fresh_int("etag")

    # ------------------------------------------------------------------ actions
    def a_exists(self, I, obj, a, k):
        p = self.key(I, a[0])
        self.step(I, "exists")
        self.maybe_fault(I, "exists", p)
        self.log("exists", path=p, ex=z3.Select(self.ex, p), tag=z3.Select(self.tag, p))
        return pyops.mk_bool(z3.Select(self.ex, p))

    def a_read_file(self, I, obj, a, k):
        p = self.key(I, a[0])
        self.step(I, "read_file")
        self.maybe_fault(I, "read_file", p)
        if not I.ctx.decide(z3.Select(self.ex, p), "read-exists"):
            self.log("read_file", path=p, ok=False, ex=z3.BoolVal(False), tag=z3.Select(self.tag, p))
            raise PyRaise(SExc("FileNotFoundError", origin="read_file: not found", fields={"fault": False}))
        self.log("read_file", path=p, ok=True, content=z3.Select(self.ct, p), ex=z3.BoolVal(True), tag=z3.Select(self.tag, p))
        return SBytes(z3.Select(self.ct, p))

    def a_read_file_with_etag(self, I, obj, a, k):
        p = self.key(I, a[0])
        self.step(I, "read_file_with_etag")
        self.maybe_fault(I, "read_file_with_etag", p)
        if not I.ctx.decide(z3.Select(self.ex, p), "read-exists"):
            self.log("read_file_with_etag", path=p, ok=False, ex=z3.BoolVal(False), tag=z3.Select(self.tag, p))
            raise PyRaise(SExc("FileNotFoundError", origin="read_file_with_etag: not found", fields={"fault": False}))
        ev = self.log("read_file_with_etag", path=p, ok=True, content=z3.Select(self.ct, p), etag=z3.Select(self.tag, p),
                      ex=z3.BoolVal(True), tag=z3.Select(self.tag, p))
        etag = SInt(z3.Select(self.tag, p)) if self.cas else None
        return (SBytes(z3.Select(self.ct, p)), etag)

    def effect_write(self, I, p, content):
        self.ex = z3.Store(self.ex, p, z3.BoolVal(True))
        self.ct = z3.Store(self.ct, p, pyops.str_z(content))
        self.mt = z3.Store(self.mt, p, self.now)
        self.tag = z3.Store(self.tag, p, self.fresh_etag(I))
        self.written.append(p)

    def a_write_file(self, I, obj, a, k):
        p = self.key(I, a[0])
        content = I.force(a[1])
        self.step(I, "write_file")
        self.maybe_fault(I, "write_file", p)
        self.effect_write(I, p, content)
        self.log("write_file", path=p, content=pyops.str_z(content))
        self.maybe_fault_after(I, "write_file", p)
        return None

    def a_write_file_cas(self, I, obj, a, k):
        p = self.key(I, a[0])
        content = I.force(a[1])
        etag = I.force(a[2] if len(a) > 2 else k.get("etag"))
        self.step(I, "write_file_cas")
        self.maybe_fault(I, "write_file_cas", p)
        if etag is None:
            ok = z3.Not(z3.Select(self.ex, p))
        else:
            ok = z3.And(z3.Select(self.ex, p), z3.Select(self.tag, p) == pyops.int_z(etag))
        if not I.ctx.decide(ok, "cas-precondition"):
            self.log("write_file_cas", path=p, ok=False, etag=etag)
            raise PyRaise(SExc("CASConflictError", origin="write_file_cas: precondition failed", fields={"fault": False}))
        replaced_content = z3.Select(self.ct, p)
        replaced_existed = z3.Select(self.ex, p)
        self.effect_write(I, p, content)
        self.log("write_file_cas", path=p, ok=True, etag=etag, content=pyops.str_z(content),
                 replaced_content=replaced_content, replaced_existed=replaced_existed)
        self.maybe_fault_after(I, "write_file_cas", p)
        return None

    def a_delete_file(self, I, obj, a, k):
        p = self.key(I, a[0])
        self.step(I, "delete_file")
        self.maybe_fault(I, "delete_file", p)
        existed = z3.Select(self.ex, p)
        self.ex = z3.Store(self.ex, p, z3.BoolVal(False))
        self.deleted.append(p)
        self.log("delete_file", path=p, existed=existed)
        return None

    def a_get_modified_time(self, I, obj, a, k):
        p = self.key(I, a[0])
        self.step(I, "get_modified_time")
        self.maybe_fault(I, "get_modified_time", p)
        if not I.ctx.decide(z3.Select(self.ex, p), "mtime-exists"):
            raise PyRaise(SExc("FileNotFoundError", origin="get_modified_time: not found", fields={"fault": False}))
        self.log("get_modified_time", path=p)
        return SXReal(z3.BoolVal(False), z3.IntVal(0), z3.Select(self.mt, p))

    def a_get_size(self, I, obj, a, k):
        p = self.key(I, a[0])
        self.step(I, "get_size")
        self.maybe_fault(I, "get_size", p)
        if not I.ctx.decide(z3.Select(self.ex, p), "size-exists"):
            raise PyRaise(SExc("FileNotFoundError", origin="get_size: not found", fields={"fault": False}))
        self.log("get_size", path=p)
        return SInt(z3.Length(z3.Select(self.ct, p)))

    def a_read_json(self, I, obj, a, k):
        raw = self.a_read_file(I, obj, a, k)
        dec = I.call_method(raw, "decode", ["utf-8"], {})
        h = I.reg.modfuncs.get("json.loads")
        if h is None:
            raise Unsupported("storage.read_json without a json theory")
        return h(I, [dec], {})

    def a_write_json(self, I, obj, a, k):
        h = I.reg.modfuncs.get("json.dumps")
        if h is None:
            raise Unsupported("storage.write_json without a json theory")
        txt = h(I, [a[1]], {"indent": 2})
        return self.a_write_file(I, obj, [a[0], I.call_method(txt, "encode", ["utf-8"], {})], {})

    def a_makedirs(self, I, obj, a, k):
        self.log("makedirs", path=a[0])
        return None

    def a_list_files(self, I, obj, a, k):
        d = self.key(I, a[0])
        self.step(I, "list_files")
        self.maybe_fault(I, "list_files", d)
        ex_then = self.ex
        ev = self.log("list_files", path=d, ex=ex_then)

        def mk(I2):
            r = I2.ctx.fresh_str("listed")
            I2.ctx.assume(z3.And(z3.Select(ex_then, r), under(d, r)))
            ev["last_elem"] = r
            return SStr(r)
        wit = [(SStr(w), z3.And(z3.Select(ex_then, w), under(d, w))) for w in self.witnesses]
        it = TheoryObj("symiter", fields={"mk": mk, "witnesses": wit, "listing_of": d, "event": ev})
        return it

    # ------------------------------------------------------------------ install
    def install(self, reg):
        T = reg.theory_methods
        for name in ("exists", "read_file", "read_file_with_etag", "write_file", "write_file_cas", "delete_file",
                     "get_modified_time", "get_size", "makedirs", "list_files", "read_json", "write_json"):
            T[("storage", name)] = self._dispatch(name)
        reg.theory_attrs[("storage", "supports_cas")] = lambda I, o: o.fields["store"].cas
        reg.theory_attrs[("storage", "atomic_write_failures")] = lambda I, o: o.fields["store"].atomic

    @staticmethod
    def _dispatch(name):
        def f(I, obj, a, k):
            st: "Store" = obj.fields["store"]
            return getattr(st, "a_" + name)(I, obj, a, k)
        return f
